//! Verification overlay for `expression_engine` (see /verif/replay/SPEC.md).
//!
//! This file is *not* part of the crate's sources.  `/verif/replay/build.sh` appends
//!
//! ```text
//! #[cfg(ashyanspada_expression_engine_rs_verif)] #[path = "/verif/overlay/verif_hooks.rs"] pub mod verif_hooks;
//! ```
//!
//! to `src/lib.rs` of a *scratch copy* of the crate, so the module is compiled inside the
//! crate (and may therefore name items of its private modules) but only under
//! `--cfg ashyanspada_expression_engine_rs_verif`.  It is add-only: it does not change the
//! behaviour of any existing item.
//!
//! Items of the pinned tree it relies on:
//!   crate::tokenizer::Tokenizer::{new,next}
//!   crate::token::{Token,Span}              (Span through Token's payload; DelimTokenType::string)
//!   crate::parser::{ExprAST,Literal}
//!   crate::descriptor::DescriptorManager::{new,set_*_descriptor}
//!   crate::error::Error
//!   crate::{Context, Value, parse_expression}   (public API; Context's pub field `.0`)
//!   crate::context::ContextValue                (only in `ctx_dump`)

use crate::context::ContextValue;
use crate::descriptor::DescriptorManager;
use crate::error::Error;
use crate::parser::{ExprAST, Literal};
use crate::token::{Span, Token};
use crate::tokenizer::Tokenizer;
use rust_decimal::Decimal;
use std::sync::Arc;

/// Lower-case hex of the UTF-8 bytes of `s`.
pub fn hex(s: &str) -> String {
    const D: &[u8; 16] = b"0123456789abcdef";
    let mut out = String::with_capacity(s.len() * 2);
    for b in s.bytes() {
        out.push(D[(b >> 4) as usize] as char);
        out.push(D[(b & 15) as usize] as char);
    }
    out
}

/// `"m":"<mantissa>","s":<scale>` (never normalised; a negative zero prints as "-0").
fn dec_fields(d: &Decimal) -> String {
    let m = d.mantissa();
    let ms = if m == 0 && d.is_sign_negative() {
        "-0".to_string()
    } else {
        m.to_string()
    };
    format!("\"m\":\"{}\",\"s\":{}", ms, d.scale())
}

/// Makes sure the operator/function registries are initialised exactly the way the
/// public API does it (the tokenizer consults `keyword::is_op`).
fn ensure_init() {
    let _ = crate::parse_expression("1");
}

/// Runs the crate's tokenizer over `input` until EOF (EOF itself is not listed).
/// Each entry is `(kind, text, start, end)`.
pub fn tokenize(input: &str) -> Result<Vec<(String, String, usize, usize)>, Error> {
    ensure_init();
    let mut t = Tokenizer::new(input);
    let mut out = Vec::new();
    // every non-EOF token consumes at least one char, so this bound is never reached
    // on the pinned tree; it only guards the replay binary against a non-advancing
    // tokenizer in a modified tree.
    let bound = input.len() + 2;
    for _ in 0..bound {
        let tok = t.next()?;
        let slice = |sp: Span| input.get(sp.0..sp.1).map(|s| s.to_string());
        let (kind, text, sp) = match tok {
            Token::EOF => return Ok(out),
            Token::Operator(s, sp) => ("Operator", s.to_string(), sp),
            Token::Delim(d, sp) => ("Delim", d.string(), sp),
            Token::Number(d, sp) => ("Number", slice(sp).unwrap_or_else(|| d.to_string()), sp),
            Token::Comma(s, sp) => ("Comma", s.to_string(), sp),
            Token::Bool(b, sp) => ("Bool", slice(sp).unwrap_or_else(|| b.to_string()), sp),
            Token::String(s, sp) => ("String", s.to_string(), sp),
            Token::Reference(s, sp) => ("Reference", s.to_string(), sp),
            Token::Function(s, sp) => ("Function", s.to_string(), sp),
            Token::Semicolon(s, sp) => ("Semicolon", s.to_string(), sp),
        };
        out.push((kind.to_string(), text, sp.0, sp.1));
    }
    panic!("verif_hooks::tokenize: tokenizer does not reach EOF");
}

/// Structural JSON rendering of an AST (format: SPEC.md, "Encodings").
pub fn ast_json(ast: &ExprAST) -> String {
    let mut out = String::new();
    ast_json_into(ast, &mut out);
    out
}

fn list_into(items: &[ExprAST], out: &mut String) {
    out.push('[');
    for (i, it) in items.iter().enumerate() {
        if i > 0 {
            out.push(',');
        }
        ast_json_into(it, out);
    }
    out.push(']');
}

fn ast_json_into(ast: &ExprAST, out: &mut String) {
    match ast {
        ExprAST::Literal(Literal::Number(d)) => {
            out.push_str(&format!("{{\"k\":\"num\",{}}}", dec_fields(d)));
        }
        ExprAST::Literal(Literal::Bool(b)) => {
            out.push_str(&format!("{{\"k\":\"bool\",\"v\":{}}}", b));
        }
        ExprAST::Literal(Literal::String(s)) => {
            out.push_str(&format!("{{\"k\":\"str\",\"hex\":\"{}\"}}", hex(s)));
        }
        ExprAST::Unary(op, a) => {
            out.push_str(&format!("{{\"k\":\"unary\",\"op\":\"{}\",\"a\":", hex(op)));
            ast_json_into(a, out);
            out.push('}');
        }
        ExprAST::Binary(op, l, r) => {
            out.push_str(&format!("{{\"k\":\"binary\",\"op\":\"{}\",\"l\":", hex(op)));
            ast_json_into(l, out);
            out.push_str(",\"r\":");
            ast_json_into(r, out);
            out.push('}');
        }
        ExprAST::Postfix(a, op) => {
            out.push_str(&format!("{{\"k\":\"postfix\",\"op\":\"{}\",\"a\":", hex(op)));
            ast_json_into(a, out);
            out.push('}');
        }
        ExprAST::Ternary(c, a, b) => {
            out.push_str("{\"k\":\"ternary\",\"c\":");
            ast_json_into(c, out);
            out.push_str(",\"a\":");
            ast_json_into(a, out);
            out.push_str(",\"b\":");
            ast_json_into(b, out);
            out.push('}');
        }
        ExprAST::Reference(name) => {
            out.push_str(&format!("{{\"k\":\"ref\",\"name\":\"{}\"}}", hex(name)));
        }
        ExprAST::Function(name, args) => {
            out.push_str(&format!("{{\"k\":\"call\",\"name\":\"{}\",\"args\":", hex(name)));
            list_into(args, out);
            out.push('}');
        }
        ExprAST::List(items) => {
            out.push_str("{\"k\":\"list\",\"items\":");
            list_into(items, out);
            out.push('}');
        }
        ExprAST::Map(items) => {
            out.push_str("{\"k\":\"map\",\"items\":[");
            for (i, (k, v)) in items.iter().enumerate() {
                if i > 0 {
                    out.push(',');
                }
                out.push('[');
                ast_json_into(k, out);
                out.push(',');
                ast_json_into(v, out);
                out.push(']');
            }
            out.push_str("]}");
        }
        ExprAST::Stmt(items) => {
            out.push_str("{\"k\":\"stmt\",\"items\":");
            list_into(items, out);
            out.push('}');
        }
        ExprAST::None => out.push_str("{\"k\":\"none\"}"),
    }
}

/// The descriptor keys `set_descriptor` understands.
pub const DESCRIPTOR_KEYS: [&str; 9] = [
    "UNARY",
    "BINARY",
    "POSTFIX",
    "TERNARY",
    "FUNCTION",
    "REFERENCE",
    "LIST",
    "MAP",
    "CHAIN",
];

/// Registers a descriptor that renders `"<marker>(" + args joined by "|" + ")"`, where a
/// `Vec<String>` argument is rendered joined by ";" and a `Vec<(String,String)>` argument
/// as `k=v` pairs joined by ";".  `name` is ignored for TERNARY/LIST/MAP/CHAIN.
/// Panics on an unknown key (the replay binary validates keys beforehand).
pub fn set_descriptor(key: &str, name: &str, marker: &str) {
    let m = marker.to_string();
    let name = name.to_string();
    let mut dm = DescriptorManager::new();
    match key {
        "UNARY" => dm.set_unary_descriptor(
            name,
            Arc::new(move |a: String, b: String| format!("{}({}|{})", m, a, b)),
        ),
        "BINARY" => dm.set_binary_descriptor(
            name,
            Arc::new(move |a: String, b: String, c: String| format!("{}({}|{}|{})", m, a, b, c)),
        ),
        "POSTFIX" => dm.set_postfix_descriptor(
            name,
            Arc::new(move |a: String, b: String| format!("{}({}|{})", m, a, b)),
        ),
        "TERNARY" => dm.set_ternary_descriptor(Arc::new(move |a: String, b: String, c: String| {
            format!("{}({}|{}|{})", m, a, b, c)
        })),
        "FUNCTION" => dm.set_function_descriptor(
            name,
            Arc::new(move |a: String, v: Vec<String>| format!("{}({}|{})", m, a, v.join(";"))),
        ),
        "REFERENCE" => {
            dm.set_reference_descriptor(name, Arc::new(move |a: String| format!("{}({})", m, a)))
        }
        "LIST" => dm.set_list_descriptor(Arc::new(move |v: Vec<String>| {
            format!("{}({})", m, v.join(";"))
        })),
        "MAP" => dm.set_map_descriptor(Arc::new(move |v: Vec<(String, String)>| {
            let parts: Vec<String> = v.into_iter().map(|(k, v)| k + "=" + &v).collect();
            format!("{}({})", m, parts.join(";"))
        })),
        "CHAIN" => dm.set_chain_descriptor(Arc::new(move |v: Vec<String>| {
            format!("{}({})", m, v.join(";"))
        })),
        _ => panic!("verif_hooks::set_descriptor: unknown key {}", key),
    }
}

/// `Error::ParamInvalid()` (the `error` module is private, handlers outside the crate
/// cannot construct an `Error`).
pub fn param_invalid() -> Error {
    Error::ParamInvalid()
}

/// Variant name = the `{:?}` text up to the first `(`.
pub fn error_variant(e: &Error) -> String {
    let d = format!("{:?}", e);
    match d.find('(') {
        Some(i) => d[..i].to_string(),
        None => d,
    }
}

/// Non-blocking dump of a context: entries sorted by name, `Some(v)` for a variable and
/// `None` for a function.  `Err("poisoned")` / `Err("locked")` when `try_lock` fails.
/// A second handle onto the same context (what `ctx.clone()` would be if `Context` derived `Clone`):
/// lets the replay call the public `execute(text, ctx)` — which takes the context by value — and
/// still inspect the context afterwards.
pub fn ctx_share(ctx: &crate::Context) -> crate::Context {
    crate::context::Context(ctx.0.clone())
}

pub fn ctx_dump(ctx: &crate::Context) -> Result<Vec<(String, Option<crate::Value>)>, &'static str> {
    use std::sync::TryLockError;
    let guard = match ctx.0.try_lock() {
        Ok(g) => g,
        Err(TryLockError::Poisoned(_)) => return Err("poisoned"),
        Err(TryLockError::WouldBlock) => return Err("locked"),
    };
    let mut out: Vec<(String, Option<crate::Value>)> = guard
        .iter()
        .map(|(k, v)| {
            (
                k.clone(),
                match v {
                    ContextValue::Variable(v) => Some(v.clone()),
                    // any other kind of entry (including kinds a later version of the crate may add) is
                    // reported as "not a variable"
                    #[allow(unreachable_patterns)]
                    _ => None,
                },
            )
        })
        .collect();
    drop(guard);
    out.sort_by(|a, b| a.0.cmp(&b.0));
    Ok(out)
}
