"""Parser for rustc's `-Zunpretty=mir` text output (optimized MIR).

Produces, for every `fn`, `static` and promoted `const` item, a Body with typed locals and
basic blocks whose statements/terminators are pre-parsed into small tuples.  The grammar
handled is exactly what rustc 1.97-nightly prints for this crate; anything unknown raises
MirParseError (the checks then exit 2 / INCONCLUSIVE, never "pass").
"""
import re

class MirParseError(Exception):
    pass

# ----------------------------------------------------------------------------- helpers

_OPEN = '([{'
_CLOSE = ')]}'

def _skip_quote(s, i):
    """s[i] is ' or ". Return index just after the literal, or i+1 if it is a lifetime tick."""
    q = s[i]
    n = len(s)
    if q == '"':
        j = i + 1
        while j < n:
            c = s[j]
            if c == '\\':
                j += 2
                continue
            if c == '"':
                return j + 1
            j += 1
        raise MirParseError('unterminated string in: ' + s[:80])
    # tick: char literal or lifetime
    if i + 1 < n and s[i + 1] == '\\':
        j = i + 2
        # escape: \n \' \\ \u{..} \x..
        if j < n and s[j] == 'u':
            k = s.find('}', j)
            if k >= 0 and k + 1 < n and s[k + 1] == "'":
                return k + 2
        elif j < n and s[j] == 'x':
            if j + 3 < n and s[j + 3] == "'":
                return j + 4
        else:
            if j + 1 < n and s[j + 1] == "'":
                return j + 2
        return i + 1
    # 'c' where c is one (possibly multi-byte) character
    if i + 2 < n and s[i + 2] == "'":
        return i + 3
    return i + 1  # lifetime


def split_top(s, sep=','):
    """Split on `sep` at nesting depth 0 of ()[]{}<> (ignoring `->`, `=>`, comparison-free MIR text)."""
    out = []
    depth = 0
    i = 0
    n = len(s)
    start = 0
    while i < n:
        c = s[i]
        if c == '"' or c == "'":
            i = _skip_quote(s, i)
            continue
        if c in _OPEN:
            depth += 1
        elif c in _CLOSE:
            depth -= 1
        elif c == '<':
            depth += 1
        elif c == '>':
            if i > 0 and s[i - 1] in '-=':
                pass
            else:
                depth -= 1
        elif depth == 0 and s.startswith(sep, i):
            out.append(s[start:i])
            i += len(sep)
            start = i
            continue
        i += 1
    tail = s[start:]
    if tail.strip() != '' or out:
        out.append(tail)
    return [x.strip() for x in out if x.strip() != '']


def match_paren(s, i):
    """s[i] is an opening bracket; return index of the matching close (parens-like only)."""
    depth = 0
    n = len(s)
    j = i
    while j < n:
        c = s[j]
        if c == '"' or c == "'":
            j = _skip_quote(s, j)
            continue
        if c in _OPEN:
            depth += 1
        elif c in _CLOSE:
            depth -= 1
            if depth == 0:
                return j
        j += 1
    raise MirParseError('unbalanced: ' + s[:120])


def rmatch_paren(s, j):
    """s[j] is a closing bracket; return the index of its opening bracket (scan backwards).
    Quotes are handled by first masking literals."""
    depth = 0
    i = j
    while i >= 0:
        c = s[i]
        if c in _CLOSE:
            depth += 1
        elif c in _OPEN:
            depth -= 1
            if depth == 0:
                return i
        i -= 1
    raise MirParseError('unbalanced(r): ' + s[:120])


def mask_literals(s):
    """Replace the inside of string/char literals by 'x' so bracket scanning is safe."""
    out = []
    i = 0
    n = len(s)
    while i < n:
        c = s[i]
        if c == '"' or c == "'":
            j = _skip_quote(s, i)
            if j == i + 1:
                out.append(c)
            else:
                out.append(c + 'x' * (j - i - 2) + c)
            i = j
        else:
            out.append(c)
            i += 1
    return ''.join(out)


INT_TYPES = {
    'i8': (8, True), 'i16': (16, True), 'i32': (32, True), 'i64': (64, True), 'i128': (128, True),
    'isize': (64, True),
    'u8': (8, False), 'u16': (16, False), 'u32': (32, False), 'u64': (64, False), 'u128': (128, False),
    'usize': (64, False), 'char': (32, False),
}

TRANSPARENT = ('std::mem::MaybeUninit<', 'std::mem::ManuallyDrop<', 'std::mem::MaybeDangling<',
               'std::ptr::Unique<', 'std::ptr::NonNull<', 'core::mem::MaybeUninit<',
               'std::boxed::Box<', 'Box<')


def strip_ref(t):
    t = t.strip()
    for p in ('&mut ', '&', '*const ', '*mut '):
        if t.startswith(p):
            r = t[len(p):].strip()
            # drop lifetime:  &'a T
            m = re.match(r"'[A-Za-z_0-9]+ (mut )?", r)
            if m:
                r = r[m.end():]
            return r
    m = re.match(r'(?:std::boxed::)?Box<(.*)>$', t)
    if m:
        return split_top(m.group(1))[0]
    return None


# ----------------------------------------------------------------------------- AST tuples
# Place  : (local:int, elems:tuple)   elem = ('f', idx) | ('d',) | ('v', variantname) | ('t',)  transparent field
# Operand: ('copy', place, ty) | ('move', place, ty) | ('const', value, ty) | ('fn', name)
# Rvalue : ('use', op) | ('ref', place) | ('discr', place) | ('bin', opname, a, b, ty) | ('un', opname, a, ty)
#          | ('cast', kind, op, fromty, toty) | ('tuple', ops) | ('array', ops) | ('repeat', op, n)
#          | ('adt', typename, variantname|None, ops, fieldnames|None) | ('closure', key, ops)

class Body:
    __slots__ = ('name', 'kind', 'params', 'ret', 'locals', 'blocks', 'cleanup', 'line', 'argc', 'nlocals')

    def __init__(self, name, kind):
        self.name = name
        self.kind = kind          # 'fn' | 'static' | 'const'
        self.params = []          # [(local, type)]
        self.ret = None
        self.locals = {}          # local -> type string
        self.blocks = {}          # bb -> (stmts list, terminator tuple)
        self.cleanup = set()
        self.line = 0


class Parser:
    def __init__(self, text):
        self.lines = text.split('\n')
        self.bodies = {}      # name -> Body
        self.order = []
        self.allocs = {}      # 'allocN' -> dict(kind=..., ...)
        self.simple_consts = {}  # name -> (value, type) of single-line const items

    # ------------------------------------------------------------------ top level
    def parse(self):
        L = self.lines
        i = 0
        n = len(L)
        while i < n:
            line = L[i]
            m1 = re.match(r'(?:static|const) (?:mut )?((?:<impl at [^>]*>|::|[^:])+?): (.*) = const (.*);$', line)
            if m1:
                # single-line constant item:  const NAME: T = const VALUE;
                try:
                    self.simple_consts[m1.group(1)] = self._const(None, m1.group(3))
                except Exception:
                    pass
                i += 1
                continue
            if line.startswith('fn ') or line.startswith('static ') or line.startswith('const '):
                j = i
                while j < n and L[j] != '}':
                    j += 1
                if j >= n:
                    raise MirParseError('unterminated item at line %d' % (i + 1))
                self._item(i, j)
                i = j + 1
                continue
            if line.startswith('alloc'):
                j = i
                if line.rstrip().endswith('{}'):
                    i += 1
                    continue
                while j < n and L[j] != '}':
                    j += 1
                self._alloc(i, j)
                i = j + 1
                continue
            i += 1
        return self

    def _alloc(self, i, j):
        head = self.lines[i]
        m = re.match(r'(alloc\d+) \((.*)\) \{', head)
        if not m:
            return
        name, desc = m.group(1), m.group(2)
        sm = re.match(r'static: ([^,]+),', desc)
        if sm:
            self.allocs[name] = {'kind': 'static', 'static': sm.group(1)}
            return
        data = []
        for k in range(i + 1, j):
            row = self.lines[k]
            parts = row.split('│')
            if len(parts) >= 2:
                for tok in parts[1].split():
                    if re.fullmatch(r'[0-9a-f]{2}', tok):
                        data.append(int(tok, 16))
                    else:
                        data.append(None)
        self.allocs[name] = {'kind': 'bytes', 'data': data}

    def _item(self, i, j):
        head = self.lines[i]
        if head.startswith('fn '):
            h = mask_literals(head)
            p = h.find('(')
            q = match_paren(h, p)
            name = head[3:p]
            b = Body(name, 'fn')
            b.line = i + 1
            for prm in split_top(head[p + 1:q]):
                m = re.match(r'_(\d+): (.*)$', prm, re.S)
                if not m:
                    raise MirParseError('bad param %r in %s' % (prm, name))
                b.params.append((int(m.group(1)), m.group(2)))
                b.locals[int(m.group(1))] = m.group(2)
            rest = head[q + 1:].strip()
            m = re.match(r'-> (.*) \{$', rest, re.S)
            if not m:
                raise MirParseError('bad fn header: ' + head[:200])
            b.ret = m.group(1)
        else:
            kind = 'static' if head.startswith('static ') else 'const'
            m = re.match(r'(?:static|const) (?:mut )?((?:<impl at [^>]*>|::|[^:])+?): (.*) = \{$', head, re.S)
            if not m:
                raise MirParseError('bad item header: ' + head[:200])
            b = Body(m.group(1), kind)
            b.line = i + 1
            b.ret = m.group(2)
        self._body(b, i + 1, j)
        b.argc = len(b.params)
        if b.name in self.bodies:
            # same printed name for distinct items (macro-generated impls share one span);
            # promoted consts are printed once per use with identical bodies: keep first
            if b.kind != 'fn':
                return
            k = 2
            while '%s#%d' % (b.name, k) in self.bodies:
                k += 1
            b.name = '%s#%d' % (b.name, k)
        self.bodies[b.name] = b
        self.order.append(b.name)

    def _body(self, b, i, j):
        L = self.lines
        k = i
        cur = None
        stmts = None
        while k < j:
            line = L[k].strip()
            k += 1
            if not line or line.startswith('//'):
                continue
            if cur is None:
                if line.startswith('debug ') or line.startswith('scope ') or line == '}':
                    continue
                m = re.match(r'let (?:mut )?_(\d+): (.*);$', line, re.S)
                if m:
                    b.locals[int(m.group(1))] = m.group(2)
                    continue
                m = re.match(r'bb(\d+)( \(cleanup\))?: \{$', line)
                if m:
                    cur = int(m.group(1))
                    if m.group(2):
                        b.cleanup.add(cur)
                    stmts = []
                    continue
                raise MirParseError('unexpected line in %s: %s' % (b.name, line[:160]))
            else:
                if line == '}':
                    raise MirParseError('block without terminator in ' + b.name)
                t = self._terminator(b, line)
                if t is not None:
                    b.blocks[cur] = (stmts, t)
                    cur = None
                    # consume closing brace of block
                    while k < j and L[k].strip() == '':
                        k += 1
                    if k < j and L[k].strip() == '}':
                        k += 1
                    continue
                stmts.append(self._statement(b, line))
        if cur is not None:
            raise MirParseError('unterminated block in ' + b.name)

    # ------------------------------------------------------------------ types of places
    def place_type(self, b, local, elems):
        return b.locals.get(local)

    # ------------------------------------------------------------------ places / operands
    def _place(self, b, s):
        """Parse a place expression; returns ((local, elems), type)."""
        s = s.strip()
        m = re.fullmatch(r'_(\d+)', s)
        if m:
            loc = int(m.group(1))
            return (loc, ()), b.locals.get(loc)
        if s.startswith('(') and s.endswith(')'):
            inner = s[1:-1]
            if inner.startswith('*'):
                (loc, el), ty = self._place(b, inner[1:])
                return (loc, el + (('d',),)), (strip_ref(ty) if ty else None)
            # (P as Variant)  or (P.N: Type)
            msk = mask_literals(inner)
            # find end of the base place
            if msk[0] == '(':
                e = match_paren(msk, 0)
                base = inner[:e + 1]
                rest = inner[e + 1:]
            else:
                m = re.match(r'_\d+', inner)
                if not m:
                    raise MirParseError('bad place: ' + s[:120])
                base = m.group(0)
                rest = inner[m.end():]
            (loc, el), bty = self._place(b, base)
            m = re.match(r' as ([A-Za-z_0-9]+)$', rest)
            if m:
                return (loc, el + (('v', m.group(1)),)), bty
            m = re.match(r'\.(\d+): (.*)$', rest, re.S)
            if m:
                fty = m.group(2)
                if bty is not None and bty.startswith(TRANSPARENT):
                    return (loc, el + (('t',),)), fty
                return (loc, el + (('f', int(m.group(1))),)), fty
            raise MirParseError('bad place projection: ' + s[:160])
        raise MirParseError('unsupported place syntax: ' + s[:160])

    def _const(self, b, s):
        """Parse the text after `const `; returns (value, type)."""
        s = s.strip()
        if s == 'true':
            return True, 'bool'
        if s == 'false':
            return False, 'bool'
        m = re.fullmatch(r'(-?\d+)_([iu](?:8|16|32|64|128|size))', s)
        if m:
            return int(m.group(1)), m.group(2)
        m = re.fullmatch(r'(-?[0-9.eE+-]+|NaN|inf|-inf)_?(f32|f64)', s)
        if m:
            return ('float', m.group(1)), m.group(2)
        if s.startswith('"'):
            e = _skip_quote(s, 0)
            return ('str', _unescape(s[1:e - 1])), '&str'
        if s.startswith('b"'):
            e = _skip_quote(s, 1)
            return ('bytes', _unescape_bytes(s[2:e - 1])), '&[u8]'
        if s.startswith("'"):
            e = _skip_quote(s, 0)
            body = _unescape(s[1:e - 1]).decode('utf-8')
            if len(body) != 1:
                raise MirParseError('bad char const ' + s)
            return ord(body), 'char'
        if s.startswith('ZeroSized: '):
            return ('zst', s[len('ZeroSized: '):]), s[len('ZeroSized: '):]
        m = re.match(r'\{(alloc\d+): (.*)\}$', s, re.S)
        if m:
            return ('alloc', m.group(1)), m.group(2)
        m = re.match(r'(.*)::promoted\[(\d+)\]$', s)
        if m:
            return ('promoted', m.group(1), int(m.group(2))), None
        m = re.fullmatch(r'(?:core::num::<impl |std::)?(i8|i16|i32|i64|i128|isize|u8|u16|u32|u64|u128|usize)>?::(MIN|MAX|BITS)', s)
        if m:
            w, signed = INT_TYPES[m.group(1)]
            if m.group(2) == 'BITS':
                return w, 'u32'
            if m.group(2) == 'MIN':
                return (-(1 << (w - 1)) if signed else 0), m.group(1)
            return ((1 << (w - 1)) - 1 if signed else (1 << w) - 1), m.group(1)
        if s == '()' or s == '(): ()':
            return ('unit',), '()'
        m = re.match(r'(.*)::(None)$', s)
        if m and ('Option' in m.group(1)):
            return ('variant', 'Option', 'None'), 'Option'
        return ('opaque', s), None

    def _operand(self, b, s):
        s = s.strip()
        if s.startswith('copy '):
            pl, ty = self._place(b, s[5:])
            return ('copy', pl, ty)
        if s.startswith('move '):
            pl, ty = self._place(b, s[5:])
            return ('move', pl, ty)
        if s.startswith('no_retag copy '):
            pl, ty = self._place(b, s[len('no_retag copy '):])
            return ('copy', pl, ty)
        if s.startswith('const '):
            v, ty = self._const(b, s[6:])
            return ('const', v, ty)
        # function item
        return ('fn', s)

    @staticmethod
    def op_type(op):
        if op[0] in ('copy', 'move', 'const'):
            return op[2]
        return None

    # ------------------------------------------------------------------ rvalues
    _BIN = {'Add', 'Sub', 'Mul', 'Div', 'Rem', 'BitXor', 'BitAnd', 'BitOr', 'Shl', 'Shr', 'Eq', 'Lt', 'Le',
            'Ne', 'Ge', 'Gt', 'AddWithOverflow', 'SubWithOverflow', 'MulWithOverflow', 'AddUnchecked',
            'SubUnchecked', 'MulUnchecked', 'ShlUnchecked', 'ShrUnchecked', 'Offset', 'Cmp'}
    _UN = {'Not', 'Neg', 'PtrMetadata'}

    def _rvalue(self, b, s):
        s = s.strip()
        msk = mask_literals(s)
        # casts:  <operand> as <type> (<Kind>)
        m = re.match(r'(.*) as (.*) \((IntToInt|Transmute|PointerCoercion\(.*\)|IntToFloat|FloatToInt|FloatToFloat|PtrToPtr|FnPtrToPtr|PointerExposeProvenance|PointerWithExposedProvenance|Subtype)\)$', s, re.S)
        if m and (s.startswith(('copy ', 'move ', 'const ')) or True):
            head = m.group(1)
            if head.startswith(('copy ', 'move ', 'const ')) or re.match(r'[A-Za-z_:<]', head):
                op = self._operand(b, head)
                return ('cast', m.group(3), op, self.op_type(op), m.group(2))
        if s.startswith(('copy ', 'move ', 'const ', 'no_retag copy ')):
            return ('use', self._operand(b, s))
        if s.startswith('&/*tls*/ '):
            return ('tlsref', s[len('&/*tls*/ '):].strip())
        if s.startswith('&'):
            r = s[1:]
            for p in ('raw const ', 'raw mut ', 'mut ', 'fake shallow ', 'fake '):
                if r.startswith(p):
                    r = r[len(p):]
                    break
            m2 = re.match(r"'[A-Za-z_0-9]+ ", r)
            if m2:
                r = r[m2.end():]
            pl, ty = self._place(b, r)
            return ('ref', pl)
        m = re.match(r'discriminant\((.*)\)$', s, re.S)
        if m:
            pl, ty = self._place(b, m.group(1))
            return ('discr', pl)
        m = re.match(r'([A-Za-z]+)\((.*)\)$', s, re.S)
        if m and m.group(1) in self._BIN:
            a, c = split_top(m.group(2))
            oa, oc = self._operand(b, a), self._operand(b, c)
            ty = self.op_type(oa) or self.op_type(oc)
            return ('bin', m.group(1), oa, oc, ty)
        if m and m.group(1) in self._UN:
            oa = self._operand(b, m.group(2))
            return ('un', m.group(1), oa, self.op_type(oa))
        if s.startswith('['):
            e = match_paren(msk, 0)
            if e != len(s) - 1:
                raise MirParseError('bad array rvalue ' + s[:120])
            inner = s[1:-1]
            parts = split_top(inner, ';')
            if len(parts) == 2 and not split_top(inner)[1:]:
                return ('repeat', self._operand(b, parts[0]), parts[1])
            return ('array', tuple(self._operand(b, x) for x in split_top(inner)))
        if s.startswith('('):
            e = match_paren(msk, 0)
            if e == len(s) - 1:
                return ('tuple', tuple(self._operand(b, x) for x in split_top(s[1:-1])))
        if s.startswith('{closure@') or s.startswith('{coroutine@'):
            e = match_paren(msk, 0)
            key = s[:e + 1]
            rest = s[e + 1:].strip()
            ops = ()
            if rest:
                if not (rest.startswith('{') and rest.endswith('}')):
                    raise MirParseError('bad closure aggregate ' + s[:160])
                ops = tuple(self._operand(b, x.split(':', 1)[1]) for x in split_top(rest[1:-1]))
            return ('closure', key, ops)
        # ADT aggregate: path(args) | path { f: a, .. } | path
        if msk.endswith(')'):
            o = rmatch_paren(msk, len(msk) - 1)
            path = s[:o].strip()
            ops = tuple(self._operand(b, x) for x in split_top(s[o + 1:-1]))
            return ('adt', path, ops, None)
        if msk.endswith('}'):
            o = rmatch_paren(msk, len(msk) - 1)
            path = s[:o].strip()
            names = []
            ops = []
            for x in split_top(s[o + 1:-1]):
                nm, val = x.split(':', 1)
                names.append(nm.strip())
                ops.append(self._operand(b, val))
            return ('adt', path, tuple(ops), tuple(names))
        if re.match(r'[A-Za-z_<]', s):
            return ('adt', s, (), None)
        raise MirParseError('unsupported rvalue: ' + s[:200])

    # ------------------------------------------------------------------ statements
    def _statement(self, b, line):
        if not line.endswith(';'):
            raise MirParseError('statement without ; in %s: %s' % (b.name, line[:160]))
        s = line[:-1]
        if s == 'nop':
            return ('nop',)
        for kw in ('StorageLive(', 'StorageDead(', 'Retag(', 'PlaceMention(', 'FakeRead(', 'AscribeUserType(',
                   'Coverage', 'ConstEvalCounter', 'BackwardIncompatibleDropHint('):
            if s.startswith(kw):
                return ('nop',)
        m = re.match(r'Deinit\((.*)\)$', s)
        if m:
            return ('nop',)
        m = re.match(r'discriminant\((.*)\) = (\d+)$', s)
        if m:
            pl, ty = self._place(b, m.group(1))
            return ('setdiscr', pl, int(m.group(2)))
        if s.startswith('assume(') or s.startswith('copy_nonoverlapping('):
            return ('intrinsic', s)
        msk = mask_literals(s)
        idx = _find_top(msk, ' = ')
        if idx < 0:
            raise MirParseError('unsupported statement in %s: %s' % (b.name, line[:200]))
        pl, ty = self._place(b, s[:idx])
        rv = self._rvalue(b, s[idx + 3:])
        return ('assign', pl, rv, ty)

    # ------------------------------------------------------------------ terminators
    def _unwind(self, s):
        s = s.strip()
        if s.startswith('unwind: bb'):
            return int(s[len('unwind: bb'):])
        if s == 'unwind continue':
            return 'continue'
        if s.startswith('unwind terminate'):
            return 'terminate'
        if s == 'unwind unreachable':
            return 'unreachable'
        raise MirParseError('bad unwind: ' + s)

    def _targets(self, s):
        """'[return: bb1, unwind: bb2]' -> (ret, unwind)"""
        s = s.strip()
        if s.endswith(';'):
            s = s[:-1]
        ret = None
        unw = 'continue'
        if s.startswith('['):
            for part in split_top(s[1:-1]):
                if part.startswith('return: bb') or part.startswith('success: bb'):
                    ret = int(part.split('bb')[1])
                elif part.startswith('unwind'):
                    unw = self._unwind(part)
                else:
                    raise MirParseError('bad target ' + part)
        else:
            unw = self._unwind(s)
        return ret, unw

    def _terminator(self, b, line):
        if line == 'return;':
            return ('return',)
        if line == 'resume;':
            return ('resume',)
        if line == 'unreachable;':
            return ('unreachable',)
        if line in ('abort;', 'terminate(cleanup);', 'terminate(abi);'):
            return ('abort',)
        m = re.match(r'goto -> bb(\d+);$', line)
        if m:
            return ('goto', int(m.group(1)))
        m = re.match(r'(?:falseEdge|falseUnwind) -> \[real: bb(\d+), .*\];$', line)
        if m:
            return ('goto', int(m.group(1)))
        if line.startswith('switchInt('):
            msk = mask_literals(line)
            e = match_paren(msk, len('switchInt'))
            op = self._operand(b, line[len('switchInt('):e])
            m = re.match(r' -> \[(.*)\];$', line[e + 1:], re.S)
            tg = []
            other = None
            for part in split_top(m.group(1)):
                k, v = part.rsplit(': bb', 1)
                if k == 'otherwise':
                    other = int(v)
                else:
                    tg.append((int(k), int(v)))
            return ('switch', op, tuple(tg), other, self.op_type(op))
        msk = mask_literals(line)
        ai = max(msk.rfind(' -> ['), msk.rfind(' -> unwind'))
        if ai < 0:
            return None
        lhs = line[:ai]
        ret, unw = self._targets(line[ai + 4:])
        if lhs.startswith('drop('):
            pl, ty = self._place(b, lhs[5:-1])
            return ('drop', pl, ret, unw, ty)
        if lhs.startswith('assert('):
            inner = lhs[len('assert('):-1]
            parts = split_top(inner)
            cond = parts[0]
            neg = False
            if cond.startswith('!'):
                neg = True
                cond = cond[1:]
            op = self._operand(b, cond)
            msg = parts[1] if len(parts) > 1 else ''
            args = tuple(self._operand(b, x) for x in parts[2:]) if msg.startswith('"') else ()
            return ('assert', op, neg, msg, ret, unw, args)
        # call
        dest = None
        call = lhs
        mlhs = mask_literals(lhs)
        ei = _find_top(mlhs, ' = ')
        if ei >= 0:
            dest, dty = self._place(b, lhs[:ei])
            call = lhs[ei + 3:]
            mcall = mlhs[ei + 3:]
        else:
            mcall = mlhs
        if not mcall.endswith(')'):
            raise MirParseError('unsupported terminator in %s: %s' % (b.name, line[:200]))
        o = rmatch_paren(mcall, len(mcall) - 1)
        callee = call[:o].strip()
        args = tuple(self._operand(b, x) for x in split_top(call[o + 1:-1]))
        if callee.startswith(('move ', 'copy ')):
            callee_op = self._operand(b, callee)
            return ('callptr', callee_op, args, dest, ret, unw)
        return ('call', callee, args, dest, ret, unw)


def _find_top(msk, sep):
    """index of first occurrence of sep at bracket depth 0 (parens/brackets/braces only) in masked text"""
    depth = 0
    i = 0
    n = len(msk)
    while i < n:
        c = msk[i]
        if c in _OPEN:
            depth += 1
        elif c in _CLOSE:
            depth -= 1
        elif depth == 0 and msk.startswith(sep, i):
            return i
        i += 1
    return -1


def _unescape(s):
    """Rust debug-escaped string body -> bytes"""
    out = bytearray()
    i = 0
    n = len(s)
    while i < n:
        c = s[i]
        if c != '\\':
            out += c.encode('utf-8')
            i += 1
            continue
        i += 1
        c = s[i]
        if c == 'n':
            out.append(10)
        elif c == 't':
            out.append(9)
        elif c == 'r':
            out.append(13)
        elif c == '0':
            out.append(0)
        elif c in '\\\'"':
            out += c.encode()
        elif c == 'x':
            out.append(int(s[i + 1:i + 3], 16))
            i += 2
        elif c == 'u':
            k = s.index('}', i)
            out += chr(int(s[i + 2:k], 16)).encode('utf-8')
            i = k
        else:
            raise MirParseError('bad escape \\' + c)
        i += 1
    return bytes(out)


def _unescape_bytes(s):
    return _unescape(s)


def parse_file(path):
    with open(path, encoding='utf-8') as f:
        return Parser(f.read()).parse()


if __name__ == '__main__':
    import sys, time
    t = time.time()
    p = parse_file(sys.argv[1])
    print('bodies', len(p.bodies), 'allocs', len(p.allocs), 'time %.2fs' % (time.time() - t))
    nb = sum(len(b.blocks) for b in p.bodies.values())
    print('blocks', nb)
