"""Load the crate's MIR + source tables and build an interpreter."""
import os
import mirparse
import srcinfo
import interp as interp_mod
import models
import models2  # noqa: F401  (registers additional library models)


class Engine:
    def __init__(self, crate_dir, mir_path, profile='dev'):
        self.crate_dir = crate_dir
        self.mir = mirparse.parse_file(mir_path)
        self.src = srcinfo.SrcInfo(crate_dir)
        self.profile = profile

    def new_interp(self):
        it = interp_mod.Interp(self.mir, self.src)
        it.profile = self.profile
        models.install(it)
        return it
