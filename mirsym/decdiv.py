"""rust_decimal 1.31 `ops::div::div_impl`, ported operation by operation (the three divisor-width branches of the original
compute the same quotient / remainder sequence; the port uses unbounded integers for them and keeps every decision that
depends on the 96-bit representation: find_scale, the 96-bit overflow of the running quotient, unscale_from_overflow,
round half to even on the last digit, and the stepwise removal of trailing zeros).

The dividend's magnitude may be a z3 Int term when the divisor is concrete: every decision is then taken through `truth`
(a branch of the exploration), and division by the concrete divisor stays linear.
"""
import z3

MAX96 = (1 << 96) - 1
POW_OVERFLOW = [MAX96 // (10 ** k) for k in range(1, 10)]      # largest value that can be multiplied by 10^k, k = 1..9


class DivOverflow(Exception):
    pass


def _is_sym(x):
    return isinstance(x, z3.ExprRef)


def find_scale(q, scale, truth):
    """Buf12::find_scale: how many digits (0..9) the quotient can be scaled up by; None = overflow"""
    def le(a, b):
        return truth(a <= b) if _is_sym(a) else a <= b
    if not le(q, POW_OVERFLOW[0] | ((1 << 64) - 1)):          # hi > OVERFLOW_MAX_1_HI
        return None if scale < 0 else 0
    if scale > 28 - 9:
        x = 28 - scale
        # hi < POWER_OVERFLOW_VALUES[x-1].hi
        if le(q, ((POW_OVERFLOW[x - 1] >> 64) << 64) - 1):
            return None if x + scale < 0 else x
    elif le(q, POW_OVERFLOW[8]):
        return 9
    # the power whose hi word bounds q.hi (binary search of the original), then the low-word double check
    his = [p >> 64 for p in POW_OVERFLOW]            # his[k-1] for 10^k
    x = None
    for k in range(8, 0, -1):                        # largest k with hi <= his[k-1]
        if le(q, (his[k - 1] << 64) | ((1 << 64) - 1)):
            x = k
            break
    if x is None:
        x = 1
    # hi == table.hi and low64 > table.low64  <=>  q > table value while hi <= table.hi
    if not le(q, POW_OVERFLOW[x - 1]):
        x -= 1
    if x + scale < 0:
        return None
    return x


def unscale_from_overflow(v, scale, sticky, truth):
    """v = true (overflowed, >= 2^96) value: divide by ten, round half to even with sticky, scale - 1"""
    scale -= 1
    if scale < 0:
        raise DivOverflow()
    if _is_sym(v):
        new, rem = v / 10, v % 10
        up = truth(z3.Or(rem > 5, z3.And(rem == 5, z3.BoolVal(bool(sticky)) if not _is_sym(sticky) else sticky)) ) if False else None
    new, rem = (v / 10, v % 10) if _is_sym(v) else divmod(v, 10)

    def t(c):
        return truth(c) if _is_sym(c) else bool(c)
    if t(rem > 5) or (t(rem == 5) and (sticky or t(new % 2 == 1))):
        new = new + 1
    return new, scale


def unscale(q, scale, truth):
    """remove trailing zeros the way the original does (tests on the low 32 bits first)"""
    def t(c):
        return truth(c) if _is_sym(c) else bool(c)

    def low(n, mask):
        return (n % (1 << 32)) % (mask + 1) if _is_sym(n) else (n & 0xFFFFFFFF) & mask
    while t(q % (1 << 32) == 0) and scale >= 8 and t(q % 100000000 == 0):
        q = q / 100000000 if _is_sym(q) else q // 100000000
        scale -= 8
    if t(low(q, 0xF) == 0) and scale >= 4 and t(q % 10000 == 0):
        q = q / 10000 if _is_sym(q) else q // 10000
        scale -= 4
    if t(low(q, 0x3) == 0) and scale >= 2 and t(q % 100 == 0):
        q = q / 100 if _is_sym(q) else q // 100
        scale -= 2
    if t(low(q, 0x1) == 0) and scale >= 1 and t(q % 10 == 0):
        q = q / 10 if _is_sym(q) else q // 10
        scale -= 1
    return q, scale


def div(a_mag, a_scale, b_mag, b_scale, truth=None, simp=None):
    """|a| / |b| -> (magnitude, scale); raises DivOverflow.  b_mag concrete and non-zero; a_mag int or z3 Int (> 0)."""
    simp = simp or (lambda x: x)

    def t(c):
        return truth(c) if _is_sym(c) else bool(c)
    D = b_mag
    scale = a_scale - b_scale
    if _is_sym(a_mag):
        q, r = simp(a_mag / D), simp(a_mag % D)
    else:
        q, r = divmod(a_mag, D)
    require_unscale = False
    while True:
        if t(r == 0):
            if scale >= 0:
                break
            power_scale = min(9, -scale)
        else:
            require_unscale = True
            if scale == 28:
                will_overflow = True
            else:
                s = find_scale(q, scale, truth)
                if s is None:
                    raise DivOverflow()
                power_scale = s
                will_overflow = s == 0
            if will_overflow:
                if t(2 * r > D) or (t(2 * r == D) and t(q % 2 == 1)):
                    q = q + 1
                    if t(q > MAX96):
                        q, scale = unscale_from_overflow(q, scale, True, truth)
                break
        power = 10 ** power_scale
        scale += power_scale
        q = q * power
        if t(q > MAX96):
            raise DivOverflow()
        r = r * power
        if _is_sym(r):
            rq, r = simp(r / D), simp(r % D)
        else:
            rq, r = divmod(r, D)
        q = q + rq
        if _is_sym(q):
            q = simp(q)
        if t(q > MAX96):
            q, scale = unscale_from_overflow(q, scale, not t(r == 0), truth)
            break
    if require_unscale:
        q, scale = unscale(q, scale, truth)
    return q, scale
