"""Library models: the documented contracts of the std / rust_decimal / once_cell functions the
crate's MIR calls.  Every model used by a run is listed in the evidence (`models_used`).
A model may fork (interp.truth), panic (interp.panic), or decline (Unsupported / OutsideModel).
"""
import re
import z3
from fractions import Fraction

from values import *
from interp import Unsupported, Unwind, Deadlock, ModelError, simp, to_bv, norm_int, Interp
from mirparse import INT_TYPES


class OutsideModel(Exception):
    """the path needs a library behaviour the model deliberately does not define (e.g. rust_decimal
    rounding when the exact result does not fit); the path is dropped and counted, never judged"""


MAX96 = (1 << 96) - 1
MODELS = {}
PATTERNS = []


def model(*names):
    def deco(f):
        for n in names:
            MODELS[n] = f
        return f
    return deco


def pattern(rx):
    def deco(f):
        PATTERNS.append((re.compile(rx, re.S), f))
        return f
    return deco


def install(interp):
    interp.models = MODELS
    interp.model_patterns = PATTERNS
    Interp.CONSTS['rust_decimal::Decimal::ZERO'] = Dec(0, 0)
    Interp.CONSTS['rust_decimal::Decimal::ONE'] = Dec(1, 0)
    Interp.CONSTS['Decimal::ZERO'] = Dec(0, 0)
    Interp.CONSTS['Decimal::ONE'] = Dec(1, 0)


def deref_all(v):
    while isinstance(v, Ref):
        v = rd(v)
    return v


# =============================================================================== Option / Result / Try

@pattern(r'^<(std::result::)?Result<.*> as Try>::branch$')
def result_branch(it, args, callee):
    r = args[0]
    if r.name == 'Ok':
        return Enum('ControlFlow', 0, 'Continue', (r.f[0],))
    return Enum('ControlFlow', 1, 'Break', (Err(r.f[0]),))


@pattern(r'^<(std::option::)?Option<.*> as Try>::branch$')
def option_branch(it, args, callee):
    o = args[0]
    if o.name == 'Some':
        return Enum('ControlFlow', 0, 'Continue', (o.f[0],))
    return Enum('ControlFlow', 1, 'Break', (NONE,))


@pattern(r'^<(std::result::)?Result<.*> as FromResidual<.*>>::from_residual$')
def result_from_residual(it, args, callee):
    return Err(args[0].f[0])


@pattern(r'^<(std::option::)?Option<.*> as FromResidual<.*>>::from_residual$')
def option_from_residual(it, args, callee):
    return NONE


@pattern(r'^(std::option::)?Option::<.*>::unwrap(::<.*>)?$')
def option_unwrap(it, args, callee):
    o = args[0]
    if o.name == 'Some':
        return o.f[0]
    it.panic('called `Option::unwrap()` on a `None` value')


@pattern(r'^(std::option::)?Option::<.*>::expect(::<.*>)?$')
def option_expect(it, args, callee):
    o = args[0]
    if o.name == 'Some':
        return o.f[0]
    it.panic('Option::expect failed')


@pattern(r'^(std::option::)?Option::<.*>::is_none(::<.*>)?$')
def option_is_none(it, args, callee):
    return deref_all(args[0]).name == 'None'


@pattern(r'^(std::option::)?Option::<.*>::is_some(::<.*>)?$')
def option_is_some(it, args, callee):
    return deref_all(args[0]).name == 'Some'


@pattern(r'^(std::option::)?Option::<.*>::unwrap_or_default(::<.*>)?$')
def option_unwrap_or_default(it, args, callee):
    o = args[0]
    if o.name == 'Some':
        return o.f[0]
    if 'Decimal' in callee:
        return Dec(0, 0)
    raise Unsupported('unwrap_or_default for ' + callee)


@pattern(r'^(std::option::)?Option::<.*>::map::<.*>$')
def option_map(it, args, callee):
    o, f = args
    if o.name == 'Some':
        return Some(it.call_callable(f, [o.f[0]]))
    return NONE


@pattern(r'^(std::option::)?Option::<.*>::unwrap_or_else::<.*>$')
def option_unwrap_or_else(it, args, callee):
    o, f = args
    if o.name == 'Some':
        return o.f[0]
    return it.call_callable(f, [])


@pattern(r'^(std::option::)?Option::<.*>::unwrap_or(::<.*>)?$')
def option_unwrap_or(it, args, callee):
    o, d = args
    return o.f[0] if o.name == 'Some' else d


@pattern(r'^(std::option::)?Option::<.*>::ok_or(::<.*>)?$')
def option_ok_or(it, args, callee):
    o, e = args
    return Ok(o.f[0]) if o.name == 'Some' else Err(e)


@pattern(r'^(std::option::)?Option::<.*>::ok_or_else::<.*>$')
def option_ok_or_else(it, args, callee):
    o, f = args
    return Ok(o.f[0]) if o.name == 'Some' else Err(it.call_callable(f, []))


@pattern(r'^(std::result::)?Result::<.*>::unwrap(::<.*>)?$')
def result_unwrap(it, args, callee):
    r = args[0]
    if r.name == 'Ok':
        return r.f[0]
    if 'PoisonError' in callee:
        it.panic('called `Result::unwrap()` on an `Err` value: PoisonError { .. }')
    it.panic('called `Result::unwrap()` on an `Err` value')


@pattern(r'^(std::result::)?Result::<.*>::expect(::<.*>)?$')
def result_expect(it, args, callee):
    r = args[0]
    if r.name == 'Ok':
        return r.f[0]
    it.panic('Result::expect failed')


@pattern(r'^(std::result::)?Result::<.*>::is_err(::<.*>)?$')
def result_is_err(it, args, callee):
    return deref_all(args[0]).name == 'Err'


@pattern(r'^(std::result::)?Result::<.*>::is_ok(::<.*>)?$')
def result_is_ok(it, args, callee):
    return deref_all(args[0]).name == 'Ok'


@pattern(r'^(std::result::)?Result::<.*>::ok(::<.*>)?$')
def result_ok(it, args, callee):
    r = args[0]
    return Some(r.f[0]) if r.name == 'Ok' else NONE


@pattern(r'^(std::result::)?Result::<.*>::map_or::<.*>$')
def result_map_or(it, args, callee):
    r, default, f = args
    if r.name == 'Ok':
        return it.call_callable(f, [r.f[0]])
    return default


@pattern(r'^(std::result::)?Result::<.*>::map_err::<.*>$')
def result_map_err(it, args, callee):
    r, f = args
    if r.name == 'Ok':
        return r
    return Err(it.call_callable(f, [r.f[0]]))


@pattern(r'^(std::result::)?Result::<.*>::map::<.*>$')
def result_map(it, args, callee):
    r, f = args
    if r.name == 'Ok':
        return Ok(it.call_callable(f, [r.f[0]]))
    return r


@pattern(r'^(std::result::)?Result::<.*>::unwrap_or_default(::<.*>)?$')
def result_unwrap_or_default(it, args, callee):
    r = args[0]
    if r.name == 'Ok':
        return r.f[0]
    if 'Decimal' in callee:
        return Dec(0, 0)
    raise Unsupported('unwrap_or_default for ' + callee)


# =============================================================================== equality / ordering

def str_eq(it, a, b):
    """equality of two byte tuples as a Python bool or z3 Bool"""
    if len(a) != len(b):
        return False
    conj = []
    px = it.x if it is not None else None
    for x, y in zip(a, b):
        if px is not None and px.known:
            if not isinstance(x, int):
                x = px.conc(x)
            if not isinstance(y, int):
                y = px.conc(y)
        if isinstance(x, int) and isinstance(y, int):
            if x != y:
                return False
        else:
            conj.append(to_bv(x, 8) == to_bv(y, 8))
    if not conj:
        return True
    return simp(z3.And(conj) if len(conj) > 1 else conj[0])


def sym_and(xs):
    out = []
    for x in xs:
        if x is False:
            return False
        if x is True:
            continue
        out.append(x)
    if not out:
        return True
    return simp(z3.And(out) if len(out) > 1 else out[0])


def sym_not(x):
    if isinstance(x, bool):
        return not x
    return simp(z3.Not(x))


def crate_eq_body(it, ty):
    for (b, ity, itr, _) in it.by_method.get('eq', []):
        if ity == ty and itr == 'PartialEq':
            return b
    return None


def generic_eq(it, a, b):
    while isinstance(a, Ref) and isinstance(b, Ref):
        ra, rb = a, b
        a, b = rd(a), rd(b)
        if isinstance(a, (Enum, Agg)) and a.ty in it.src.crate_types:
            body = crate_eq_body(it, a.ty)
            if body is not None:
                return it.run_body(body, [ra, rb])
    if isinstance(a, Ref) or isinstance(b, Ref):
        a, b = deref_all(a), deref_all(b)
    if isinstance(a, (Str, DecStr)) and isinstance(b, (Str, DecStr)):
        return str_eq(it, sbytes(a, 'comparison'), sbytes(b, 'comparison'))
    if isinstance(a, Dec) and isinstance(b, Dec):
        return dec_cmp(a, b, '==')
    if isinstance(a, (Enum, Agg)) and getattr(a, 'ty', None) in it.src.crate_types:
        body = crate_eq_body(it, a.ty)
        if body is not None:
            return it.run_body(body, [Ref(Cell(a)), Ref(Cell(b))])
    if isinstance(a, Enum) and isinstance(b, Enum):
        if a.idx != b.idx:
            return False
        return sym_and([generic_eq(it, x, y) for x, y in zip(a.f, b.f)])
    if isinstance(a, Agg) and isinstance(b, Agg):
        return sym_and([generic_eq(it, x, y) for x, y in zip(a.f, b.f)])
    if isinstance(a, Arr) and isinstance(b, Arr):
        if len(a.items) != len(b.items):
            return False
        return sym_and([generic_eq(it, x, y) for x, y in zip(a.items, b.items)])
    if isinstance(a, (int, bool)) and isinstance(b, (int, bool)):
        return a == b
    if is_sym(a) or is_sym(b):
        if (is_sym(a) and z3.is_bool(a)) or (is_sym(b) and z3.is_bool(b)):
            return simp((a if is_sym(a) else z3.BoolVal(a)) == (b if is_sym(b) else z3.BoolVal(b)))
        w = a.size() if is_sym(a) else b.size()
        return simp(to_bv(a, w) == to_bv(b, w))
    if isinstance(a, (DecStr, Str)) and isinstance(b, (DecStr, Str)):
        return str_eq(it, sbytes(a, 'comparison'), sbytes(b, 'comparison'))
    raise Unsupported('generic_eq on %r / %r' % (type(a).__name__, type(b).__name__))


@pattern(r'^<.* as PartialEq(<.*>)?>::eq$')
def partial_eq(it, args, callee):
    return generic_eq(it, args[0], args[1])


@pattern(r'^<.* as PartialEq(<.*>)?>::ne$')
def partial_ne(it, args, callee):
    return sym_not(generic_eq(it, args[0], args[1]))


@pattern(r'^<\((i32|i64|usize|u32), (i32|i64|usize|u32)\) as PartialOrd>::(lt|le|gt|ge)$')
def tuple_partial_ord(it, args, callee):
    m = re.match(r'^<\((\w+), (\w+)\) as PartialOrd>::(\w+)$', callee)
    t0, t1, op = m.group(1), m.group(2), m.group(3)
    a, b = deref_all(args[0]), deref_all(args[1])
    lt0 = it.binop('Lt', a.f[0], b.f[0], t0)
    eq0 = it.binop('Eq', a.f[0], b.f[0], t0)
    opname = {'lt': 'Lt', 'le': 'Le', 'gt': 'Gt', 'ge': 'Ge'}[op]
    strict = {'lt': 'Lt', 'le': 'Lt', 'gt': 'Gt', 'ge': 'Gt'}[op]
    s0 = it.binop(strict, a.f[0], b.f[0], t0)
    r1 = it.binop(opname, a.f[1], b.f[1], t1)
    # lexicographic: s0 || (eq0 && r1)
    def B(x):
        return x if is_sym(x) else z3.BoolVal(bool(x))
    return simp(z3.Or(B(s0), z3.And(B(eq0), B(r1))))


# =============================================================================== Clone / Into / From

@pattern(r'^<.* as Clone>::clone$')
def generic_clone(it, args, callee):
    return rd(args[0])


@pattern(r'^<.* as Into<.*>>::into$')
def generic_into(it, args, callee):
    m = re.match(r'^<(.*) as Into<(.*)>>::into$', callee, re.S)
    src, dst = m.group(1).strip(), m.group(2).strip()
    nd = it._norm_ty(dst)
    ns = it._norm_ty(src)
    if nd == ns or (ns in ('&str',) and nd in ('String', '&str')):
        return args[0]
    r = it.resolve('<%s as From<%s>>::from' % (dst, src))
    if r[0] == 'body':
        return it.run_body(r[1], args)
    if r[0] == 'model':
        return r[1](it, args, '<%s as From<%s>>::from' % (dst, src))
    raise Unsupported('Into: ' + callee)


@model('<std::string::String as From<&str>>::from', '<String as From<&str>>::from')
def string_from_str(it, args, callee):
    return args[0]


# =============================================================================== str / String

def as_str(v):
    v = deref_all(v)
    if isinstance(v, (Str, DecStr, CatStr)):
        return v
    raise ModelError('expected string, got %r' % (v,))


def sbytes(v, what='string operation'):
    """byte tuple of a Str, or of the text of a symbolic decimal when its digits are known"""
    if isinstance(v, Str):
        return v.b
    if isinstance(v, DecStr):
        if v.text is not None:
            return v.text
        raise Unsupported(what + ' on the text of a computed symbolic decimal')
    if isinstance(v, CatStr):
        if v.ds.text is not None:
            return v.prefix + v.ds.text
        raise Unsupported(what + ' on bytes followed by the text of a computed symbolic decimal')
    raise ModelError('expected string, got %r' % (v,))


@pattern(r'^<&?(str|std::string::String|String) as ToString>::to_string$')
def str_to_string(it, args, callee):
    return as_str(args[0])


@model('<bool as ToString>::to_string')
def bool_to_string(it, args, callee):
    b = deref_all(args[0])
    return mkstr('true') if it.truth(b) else mkstr('false')


@model('<std::string::String as Deref>::deref', 'std::string::String::as_str', '<String as Deref>::deref',
       'String::as_str', 'std::string::String::as_bytes', 'core::str::<impl str>::as_bytes',
       '<std::string::String as AsRef<str>>::as_ref', '<str as AsRef<str>>::as_ref')
def string_deref(it, args, callee):
    return as_str(args[0])


@model('std::string::String::new', 'String::new')
def string_new(it, args, callee):
    return Str(())


@model('core::str::<impl str>::len', 'std::string::String::len', 'String::len')
def str_len(it, args, callee):
    return len(sbytes(as_str(args[0]), 'len'))


@model('core::str::<impl str>::is_empty', 'std::string::String::is_empty')
def str_is_empty(it, args, callee):
    return len(sbytes(as_str(args[0]), 'is_empty')) == 0


def encode_char(it, c):
    """char (int or z3 BV32) -> tuple of bytes; forks on the encoded length when symbolic"""
    if not is_sym(c):
        return tuple(chr(c).encode('utf-8'))
    if it.truth(z3.ULT(c, z3.BitVecVal(0x80, 32))):
        return (simp(z3.Extract(7, 0, c)),)
    if it.truth(z3.ULT(c, z3.BitVecVal(0x800, 32))):
        return (simp(z3.Extract(7, 0, z3.LShR(c, 6)) | 0xC0), simp((z3.Extract(7, 0, c) & 0x3F) | 0x80))
    if it.truth(z3.ULT(c, z3.BitVecVal(0x10000, 32))):
        return (simp(z3.Extract(7, 0, z3.LShR(c, 12)) | 0xE0),
                simp((z3.Extract(7, 0, z3.LShR(c, 6)) & 0x3F) | 0x80),
                simp((z3.Extract(7, 0, c) & 0x3F) | 0x80))
    return (simp(z3.Extract(7, 0, z3.LShR(c, 18)) | 0xF0),
            simp((z3.Extract(7, 0, z3.LShR(c, 12)) & 0x3F) | 0x80),
            simp((z3.Extract(7, 0, z3.LShR(c, 6)) & 0x3F) | 0x80),
            simp((z3.Extract(7, 0, c) & 0x3F) | 0x80))


@model('std::string::String::push', 'String::push')
def string_push(it, args, callee):
    r, c = args
    s = rd(r)
    wr(r, Str(s.b + encode_char(it, c)))
    return UNIT


@model('std::string::String::push_str', 'String::push_str')
def string_push_str(it, args, callee):
    r, t = args
    s = rd(r)
    t = as_str(t)
    wr(r, Str(sbytes(s, 'push_str') + sbytes(t, 'push_str')))
    return UNIT


@pattern(r'^<(std::string::)?String as Add<&str>>::add$')
def string_add(it, args, callee):
    a, b = as_str(args[0]), as_str(args[1])
    return Str(sbytes(a, 'concatenation') + sbytes(b, 'concatenation'))


def is_char_boundary(it, b, i):
    n = len(b)
    if i == 0 or i == n:
        return True
    if i > n:
        return False
    x = b[i]
    if not isinstance(x, int) and it.x is not None:
        x = it.x.conc(x)
    if isinstance(x, int):
        return not (0x80 <= x <= 0xBF)
    # (b as i8) >= -0x40  <=>  not in 0x80..0xBF
    return it.truth(z3.Or(z3.ULT(x, z3.BitVecVal(0x80, 8)), z3.UGT(x, z3.BitVecVal(0xBF, 8))))


@pattern(r'^<str as Index<(std::ops::)?Range<usize>>>::index$')
def str_index_range(it, args, callee):
    s = as_str(args[0])
    r = args[1]
    lo, hi = it.concretize(r.f[0]), it.concretize(r.f[1])
    n = len(s.b)
    if lo > hi:
        it.panic('slice index starts at %d but ends at %d' % (lo, hi))
    if hi > n:
        it.panic('byte index %d is out of bounds of string of length %d' % (hi, n))
    if not is_char_boundary(it, s.b, lo):
        it.panic('start byte index %d is not a char boundary' % lo)
    if not is_char_boundary(it, s.b, hi):
        it.panic('end byte index %d is not a char boundary' % hi)
    return Str(s.b[lo:hi])


@pattern(r'^<str as Index<(std::ops::)?RangeFrom<usize>>>::index$')
def str_index_from(it, args, callee):
    s = as_str(args[0])
    lo = it.concretize(args[1].f[0])
    if lo > len(s.b):
        it.panic('byte index out of bounds')
    if not is_char_boundary(it, s.b, lo):
        it.panic('start byte index %d is not a char boundary' % lo)
    return Str(s.b[lo:])


@pattern(r'^<str as Index<(std::ops::)?RangeTo<usize>>>::index$')
def str_index_to(it, args, callee):
    s = as_str(args[0])
    hi = it.concretize(args[1].f[0])
    if hi > len(s.b):
        it.panic('byte index out of bounds')
    if not is_char_boundary(it, s.b, hi):
        it.panic('end byte index %d is not a char boundary' % hi)
    return Str(s.b[:hi])


@pattern(r'^core::str::<impl str>::starts_with::<.*>$')
def str_starts_with(it, args, callee):
    p = deref_all(args[1]) if isinstance(args[1], Ref) else args[1]
    if not isinstance(p, (Str, DecStr)):
        import models2
        return models2.str_starts_with_char(it, args, callee)
    a, b = as_str(args[0]), as_str(deref_all(args[1]))
    if len(b.b) > len(a.b):
        return False
    return str_eq(it, a.b[:len(b.b)], b.b)


@pattern(r'^core::str::<impl str>::ends_with::<.*>$')
def str_ends_with(it, args, callee):
    p = deref_all(args[1]) if isinstance(args[1], Ref) else args[1]
    if not isinstance(p, (Str, DecStr)):
        import models2
        return models2.str_starts_with_char(it, args, callee)
    a, b = as_str(args[0]), as_str(deref_all(args[1]))
    if len(b.b) > len(a.b):
        return False
    return str_eq(it, a.b[len(a.b) - len(b.b):], b.b)


@model('core::str::<impl str>::char_indices')
def str_char_indices(it, args, callee):
    return CharIdx(sbytes(as_str(args[0]), 'chars'), 0)


@model('core::str::<impl str>::chars')
def str_chars(it, args, callee):
    return CharIdx(sbytes(as_str(args[0]), 'chars'), 0)


def decode_char(it, b, pos):
    """decode one UTF-8 scalar at pos of a (valid UTF-8) byte tuple -> (char, width); forks on the lead byte"""
    if it.x is not None and (it.x.known or it.x.pin_probe):
        px = it.x
        nb = list(b)
        for q in range(pos, min(pos + 4, len(b))):
            x = nb[q]
            if not isinstance(x, int):
                k = px.conc(x)
                if not isinstance(k, int) and px.pin_probe:
                    p = px.pin(x)
                    if p is not None:
                        k = p
                nb[q] = k
        b = tuple(nb)
    b0 = b[pos]
    if isinstance(b0, int):
        w = 1 if b0 < 0x80 else (2 if b0 < 0xE0 else (3 if b0 < 0xF0 else 4))
    else:
        if it.truth(z3.ULT(b0, z3.BitVecVal(0x80, 8))):
            w = 1
        elif it.truth(z3.ULT(b0, z3.BitVecVal(0xE0, 8))):
            w = 2
        elif it.truth(z3.ULT(b0, z3.BitVecVal(0xF0, 8))):
            w = 3
        else:
            w = 4
    if pos + w > len(b):
        raise OutsideModel('truncated UTF-8 sequence in a str (input assumed well-formed)')
    bs = b[pos:pos + w]
    if all(isinstance(x, int) for x in bs):
        try:
            return ord(bytes(bs).decode('utf-8')), w
        except UnicodeDecodeError:
            raise OutsideModel('ill-formed UTF-8 in a str (input assumed well-formed)')
    Z = [z3.ZeroExt(24, to_bv(x, 8)) for x in bs]
    if w == 1:
        c = Z[0]
        if it.x is not None and not isinstance(bs[0], int):
            it.x.char_src[c.get_id()] = (c, bs[0])
    elif w == 2:
        c = ((Z[0] & 0x1F) << 6) | (Z[1] & 0x3F)
    elif w == 3:
        c = ((Z[0] & 0x0F) << 12) | ((Z[1] & 0x3F) << 6) | (Z[2] & 0x3F)
    else:
        c = ((Z[0] & 0x07) << 18) | ((Z[1] & 0x3F) << 12) | ((Z[2] & 0x3F) << 6) | (Z[3] & 0x3F)
    return simp(c), w


@pattern(r"^<(std::str::|core::str::)?CharIndices<'_> as Iterator>::next$")
def char_indices_next(it, args, callee):
    r = args[0]
    ci = rd(r)
    if ci.pos >= len(ci.b):
        return NONE
    c, w = decode_char(it, ci.b, ci.pos)
    wr(r, CharIdx(ci.b, ci.pos + w))
    return Some(Agg(None, (ci.pos, c)))


@pattern(r"^<(std::str::|core::str::)?Chars<'_> as Iterator>::next$")
def chars_next(it, args, callee):
    r = args[0]
    ci = rd(r)
    if ci.pos >= len(ci.b):
        return NONE
    c, w = decode_char(it, ci.b, ci.pos)
    wr(r, CharIdx(ci.b, ci.pos + w))
    return Some(c)


@pattern(r"^<(std::str::|core::str::)?(CharIndices|Chars)<'_> as Iterator>::nth$")
def chars_nth(it, args, callee):
    n = it.concretize(args[1])
    nxt = char_indices_next if 'CharIndices' in callee else chars_next
    for _ in range(int(n)):
        if nxt(it, [args[0]], callee) is NONE:
            return NONE
    return nxt(it, [args[0]], callee)


def parse_i64_concrete(bs):
    try:
        t = bytes(bs).decode('utf-8')
    except UnicodeDecodeError:
        return None
    if not re.fullmatch(r'[+-]?[0-9]+', t):
        return None
    v = int(t)
    if -(1 << 63) <= v < (1 << 63):
        return v
    return None


@pattern(r'^core::str::<impl str>::parse::<i64>$')
def str_parse_i64(it, args, callee):
    s = as_str(args[0])
    if isinstance(s, CatStr):
        # concrete bytes followed by the (non-empty) text of a symbolic decimal
        pre = bytes(s.prefix)
        body = pre[1:] if pre[:1] in (b'+', b'-') else pre
        if not body.isdigit():
            return Err(Opaque('ParseIntError'))            # a byte that is no digit: InvalidDigit whatever follows
        if int(body) * 10 > (1 << 63):
            return Err(Opaque('ParseIntError'))            # at least one more digit or an invalid byte follows: overflow / invalid
        if s.ds.d.s > 0:
            return Err(Opaque('ParseIntError'))            # the decimal text contains '.'
        raise Unsupported('parse::<i64> of digits followed by the text of a symbolic decimal')
    if isinstance(s, DecStr):
        d = s.d
        if d.s > 0:
            return Err(Opaque('ParseIntError'))
        if d.src is not None and d.src != 'negzero' and d.src[0] == 'bv' and d.src[1].size() == 64 and d.src[2]:
            return Ok(d.src[1])
        if d.src is not None and d.src != 'negzero' and d.src[0] == 'bv' and d.src[1].size() > 64 and d.src[2]:
            v = d.src[1]
            lo = z3.Extract(63, 0, v)
            if it.truth(z3.SignExt(v.size() - 64, lo) == v):
                return Ok(simp(lo))
            return Err(Opaque('ParseIntError'))
        m = d.m
        inr = z3.And(m >= -(1 << 63), m < (1 << 63))
        if it.truth(inr):
            # tie a fresh 64-bit variable to the integer through bv2int (z3 handles this direction
            # well; int2bv terms inside later branch conditions make it answer `unknown`)
            v = it.x.bv('i64of_%d' % len(it.x.syms), 64)
            it.x.assume(m == z3.BV2Int(v, True))
            return Ok(v)
        return Err(Opaque('ParseIntError'))
    if not s.concrete():
        raise Unsupported('parse::<i64> of symbolic bytes')
    v = parse_i64_concrete(s.b)
    if v is None:
        return Err(Opaque('ParseIntError'))
    return Ok(v)


@pattern(r'^core::str::<impl str>::parse::<f64>$')
def str_parse_f64(it, args, callee):
    raise Unsupported('parse::<f64> (floating point is outside the encoder)')


@pattern(r'^std::slice::<impl \[(std::string::)?String\]>::join::<&str>$')
def slice_join(it, args, callee):
    items = deref_all(args[0]).items
    sep = sbytes(as_str(args[1]), 'join')
    out = ()
    for i, x in enumerate(items):
        if i:
            out += sep
        out += sbytes(as_str(x), 'join')
    return Str(out)


# =============================================================================== Box / Vec / iterators

@pattern(r'^(std::boxed::)?Box::<.*>::new$')
def box_new(it, args, callee):
    return Ref(Cell(args[0], 'box'), ())


@pattern(r'^(std::boxed::)?Box::<.*>::new_uninit$')
def box_new_uninit(it, args, callee):
    return Ref(Cell(UNINIT, 'box-uninit'), ())


@pattern(r'^std::boxed::box_assume_init_into_vec_unsafe::<.*>$')
def box_into_vec(it, args, callee):
    a = rd(args[0])
    if not isinstance(a, Arr):
        raise ModelError('box_assume_init_into_vec_unsafe on %r' % (a,))
    return Arr(a.items, 'vec')


@pattern(r'^(std::vec::)?Vec::<.*>::new$')
def vec_new(it, args, callee):
    return Arr((), 'vec')


@pattern(r'^(std::vec::)?Vec::<.*>::with_capacity$')
def vec_with_capacity(it, args, callee):
    return Arr((), 'vec')


@pattern(r'^(std::vec::)?Vec::<.*>::push$')
def vec_push(it, args, callee):
    r, v = args
    a = rd(r)
    wr(r, Arr(a.items + (v,), 'vec'))
    return UNIT


@pattern(r'^(std::vec::)?Vec::<.*>::pop$')
def vec_pop(it, args, callee):
    r = args[0]
    a = rd(r)
    if not a.items:
        return NONE
    wr(r, Arr(a.items[:-1], 'vec'))
    return Some(a.items[-1])


@pattern(r'^(std::vec::)?Vec::<.*>::len$')
def vec_len(it, args, callee):
    return len(deref_all(args[0]).items)


PATTERNS.append((re.compile(r'^core::slice::<impl \[.*\]>::len$', re.S), vec_len))
PATTERNS.append((re.compile(r'^std::slice::<impl \[.*\]>::len$', re.S), vec_len))


@pattern(r'^(std::vec::)?Vec::<.*>::is_empty$')
def vec_is_empty(it, args, callee):
    return len(deref_all(args[0]).items) == 0


@pattern(r'^<(std::vec::)?Vec<.*> as Index<usize>>::index$')
def vec_index(it, args, callee):
    r, i = args
    i = it.concretize(i)
    while isinstance(rd(r), Ref):
        r = rd(r)
    a = rd(r)
    if i >= len(a.items):
        it.panic('index out of bounds: the len is %d but the index is %d' % (len(a.items), i))
    return Ref(r.cell, r.path + (('i', i),))


@pattern(r'^<(std::vec::)?Vec<.*> as Deref(Mut)?>::deref(_mut)?$')
def vec_deref(it, args, callee):
    return args[0]


def _elem_refs(r):
    while isinstance(rd(r), Ref):
        r = rd(r)
    a = rd(r)
    return tuple(Ref(r.cell, r.path + (('i', i),)) for i in range(len(a.items)))


@pattern(r'^<&(mut )?(std::vec::)?Vec<.*> as IntoIterator>::into_iter$')
def vec_ref_into_iter(it, args, callee):
    return IterV('refs', _elem_refs(args[0]), 0)


@pattern(r'^(core|std)::slice::<impl \[.*\]>::iter$')
def slice_iter(it, args, callee):
    return IterV('refs', _elem_refs(args[0]), 0)


@pattern(r'^(std::vec::)?Vec::<.*>::iter$')
def vec_iter(it, args, callee):
    return IterV('refs', _elem_refs(args[0]), 0)


@pattern(r'^<(std::vec::)?Vec<.*> as IntoIterator>::into_iter$')
def vec_into_iter(it, args, callee):
    return IterV('into', args[0].items, 0)


@pattern(r'^<(std::vec::IntoIter|std::slice::Iter|std::slice::IterMut|std::ops::Range|std::collections::hash_map::\w+|std::collections::hash_set::\w+)<.*> as IntoIterator>::into_iter$')
def iter_into_iter(it, args, callee):
    return args[0]


@pattern(r"^<(std::vec::IntoIter|std::slice::Iter|std::slice::IterMut|std::collections::hash_map::\w+|std::collections::hash_set::\w+)<.*> as Iterator>::next$")
def iter_next(it, args, callee):
    r = args[0]
    v = rd(r)
    if v.pos >= len(v.items):
        return NONE
    wr(r, IterV(v.kind, v.items, v.pos + 1, v.extra))
    return Some(v.items[v.pos])


@pattern(r'^<(std::ops::)?Range<usize> as Iterator>::next$')
def range_next(it, args, callee):
    r = args[0]
    v = rd(r)
    lo, hi = v.f
    lo = it.concretize(lo)
    hi = it.concretize(hi)
    if lo >= hi:
        return NONE
    wr(r, Agg(v.ty, (lo + 1, hi)))
    return Some(lo)


@pattern(r"^<std::slice::Iter<.*> as Iterator>::map::<.*>$")
def iter_map(it, args, callee):
    v, f = args
    return IterV('map', v.items, v.pos, (v.kind, f))


@pattern(r"^<std::iter::Map<.*> as Iterator>::collect::<(std::vec::)?Vec<.*>>$")
def map_collect(it, args, callee):
    v = args[0]
    kind, f = v.extra
    out = []
    for x in v.items[v.pos:]:
        out.append(it.call_callable(f, [x]))
    return Arr(tuple(out), 'vec')


# =============================================================================== HashMap

@pattern(r'^(std::collections::)?HashMap::<.*>::new$')
def hashmap_new(it, args, callee):
    return MapV(())


def key_eq(it, a, b):
    r = it.truth(generic_eq(it, a, b))
    if r and it.x is not None:
        sa, sb = deref_all(a), deref_all(b)
        if isinstance(sa, Str) and isinstance(sb, Str) and len(sa.b) == len(sb.b):
            for x, y in zip(sa.b, sb.b):
                if isinstance(x, int) and not isinstance(y, int):
                    it.x.learn(y, x)
                elif isinstance(y, int) and not isinstance(x, int):
                    it.x.learn(x, y)
    return r


@pattern(r'^(std::collections::)?HashMap::<.*>::insert$')
def hashmap_insert(it, args, callee):
    r, k, v = args
    m = rd(r)
    for i, (kk, vv) in enumerate(m.items):
        if key_eq(it, kk, k):
            wr(r, MapV(m.items[:i] + ((kk, v),) + m.items[i + 1:]))
            return Some(vv)
    wr(r, MapV(m.items + ((k, v),)))
    return NONE


@pattern(r'^(std::collections::)?HashMap::<.*>::get::<.*>$')
def hashmap_get(it, args, callee):
    r, k = args
    while isinstance(rd(r), Ref):
        r = rd(r)
    m = rd(r)
    k = deref_all(k) if not isinstance(deref_all(k), (Enum, Agg)) else k
    for i, (kk, vv) in enumerate(m.items):
        if key_eq(it, kk, k):
            return Some(Ref(r.cell, r.path + (('mv', i),)))
    return NONE


@pattern(r'^(std::collections::)?HashMap::<.*>::contains_key::<.*>$')
def hashmap_contains(it, args, callee):
    return hashmap_get(it, args, callee).name == 'Some'


@pattern(r'^(std::collections::)?HashMap::<.*>::remove::<.*>$')
def hashmap_remove(it, args, callee):
    r, k = args
    m = rd(r)
    for i, (kk, vv) in enumerate(m.items):
        if key_eq(it, kk, k):
            wr(r, MapV(m.items[:i] + m.items[i + 1:]))
            return Some(vv)
    return NONE


@pattern(r'^(std::collections::)?HashMap::<.*>::len$')
def hashmap_len(it, args, callee):
    return len(deref_all(args[0]).items)


# =============================================================================== Arc / Mutex / OnceCell

@pattern(r'^(std::sync::)?Arc::<.*>::new$')
def arc_new(it, args, callee):
    return ArcV(Cell(args[0], 'arc'))


@pattern(r'^<(std::sync::)?Arc<.*> as Clone>::clone$')
def arc_clone(it, args, callee):
    return rd(args[0])


@pattern(r'^<(std::sync::)?Arc<.*> as Deref>::deref$')
def arc_deref(it, args, callee):
    a = rd(args[0])
    if not isinstance(a, ArcV):
        raise ModelError('Arc::deref on %r' % (a,))
    return Ref(a.cell, ())


@pattern(r'^(std::sync::)?Mutex::<.*>::new$')
def mutex_new(it, args, callee):
    return MutexV(args[0], None, False)


@pattern(r'^(std::sync::)?Mutex::<.*>::lock$')
def mutex_lock(it, args, callee):
    r = args[0]
    while isinstance(rd(r), Ref):
        r = rd(r)
    if it.sched is not None:
        return it.sched.lock(it, r)
    m = rd(r)
    if not isinstance(m, MutexV):
        raise ModelError('lock on %r' % (m,))
    if m.held is not None:
        raise Deadlock('Mutex::lock on a mutex already held by this thread (%s)' % (r.cell.name or 'mutex'), it.where())
    wr(r, MutexV(m.data, it.thread, m.poisoned))
    g = GuardV(r)
    if m.poisoned:
        return Err(g)
    return Ok(g)


@pattern(r'^<(std::sync::)?MutexGuard<.*> as Deref(Mut)?>::deref(_mut)?$')
def guard_deref(it, args, callee):
    g = rd(args[0])
    return Ref(g.ref.cell, g.ref.path + (('mx',),))


@pattern(r'^once_cell::sync::OnceCell::<.*>::new$')
def once_new(it, args, callee):
    return OnceV(0, None, None)


@pattern(r'^once_cell::sync::OnceCell::<.*>::get_or_init::<.*>$')
def once_get_or_init(it, args, callee):
    r, f = args
    if it.sched is not None:
        return it.sched.once_get_or_init(it, r, f)
    o = rd(r)
    if o.state == 2:
        return Ref(r.cell, r.path + (('oc',),))
    if o.state == 1:
        raise Deadlock('OnceCell::get_or_init re-entered from its own initialiser', it.where())
    wr(r, OnceV(1, None, it.thread))
    try:
        v = it.call_callable(f, [])
    except Unwind:
        wr(r, OnceV(0, None, None))
        raise
    wr(r, OnceV(2, v, None))
    return Ref(r.cell, r.path + (('oc',),))


@pattern(r'^once_cell::sync::OnceCell::<.*>::get$')
def once_get(it, args, callee):
    r = args[0]
    if it.sched is not None:
        it.sched.yield_point(it, 'once-get')
    o = rd(r)
    if o.state == 2:
        return Some(Ref(r.cell, r.path + (('oc',),)))
    return NONE


# =============================================================================== dyn Fn

@pattern(r'^<dyn Fn\(.*as Fn(Mut|Once)?<.*>>::call(_mut|_once)?$')
def dyn_fn_call(it, args, callee):
    f, tup = args
    return it.call_callable(f, list(tup.f))


@pattern(r'^<.* as Fn(Mut|Once)?<.*>>::call(_mut|_once)?$')
def fn_call(it, args, callee):
    f, tup = args
    return it.call_callable(f, list(tup.f))


# =============================================================================== rust_decimal

def dec_int(x):
    return x if is_sym(x) else z3.IntVal(x)


def pow10(k):
    return 10 ** k


def dec_align(a, b):
    s = max(a.s, b.s)
    return a.m * pow10(s - a.s), b.m * pow10(s - b.s), s


def dec_cmp(a, b, op):
    A, B, _ = dec_align(a, b)
    if not is_sym(A) and not is_sym(B):
        return {'==': A == B, '<': A < B, '<=': A <= B, '>': A > B, '>=': A >= B}[op]
    A, B = dec_int(A), dec_int(B)
    return simp({'==': A == B, '<': A < B, '<=': A <= B, '>': A > B, '>=': A >= B}[op])


def int_bounds(t, depth=0):
    """cheap interval of an Int term built from numerals, + - * , If and bv2int (None if unknown)"""
    if depth > 40:
        return None
    if z3.is_int_value(t):
        v = t.as_long()
        return (v, v)
    if not z3.is_app(t):
        return None
    k = t.decl().kind()
    ch = t.children()
    if k == z3.Z3_OP_BV2INT or (t.decl().name() == 'bv2int'):
        w = ch[0].size()
        return (0, (1 << w) - 1)
    if k == z3.Z3_OP_ADD:
        lo = hi = 0
        for c in ch:
            b = int_bounds(c, depth + 1)
            if b is None:
                return None
            lo += b[0]
            hi += b[1]
        return (lo, hi)
    if k == z3.Z3_OP_SUB:
        b0 = int_bounds(ch[0], depth + 1)
        if b0 is None:
            return None
        lo, hi = b0
        for c in ch[1:]:
            b = int_bounds(c, depth + 1)
            if b is None:
                return None
            lo -= b[1]
            hi -= b[0]
        return (lo, hi)
    if k == z3.Z3_OP_UMINUS:
        b = int_bounds(ch[0], depth + 1)
        return None if b is None else (-b[1], -b[0])
    if k == z3.Z3_OP_MUL:
        lo, hi = 1, 1
        for c in ch:
            b = int_bounds(c, depth + 1)
            if b is None:
                return None
            cands = [lo * b[0], lo * b[1], hi * b[0], hi * b[1]]
            lo, hi = min(cands), max(cands)
        return (lo, hi)
    if k == z3.Z3_OP_ITE:
        a, b = int_bounds(ch[1], depth + 1), int_bounds(ch[2], depth + 1)
        if a is None or b is None:
            return None
        return (min(a[0], b[0]), max(a[1], b[1]))
    return None


def fits96(it, m):
    if not is_sym(m):
        return -MAX96 <= m <= MAX96
    b = int_bounds(m)
    if b is not None and -MAX96 <= b[0] and b[1] <= MAX96:
        return True
    return it.truth(z3.And(m >= -MAX96, m <= MAX96))


def round_sum_half_even(r, truth):
    """|r| / 10 rounded half to even, sign kept (r: Python int or z3 Int term that does not fit 96 bits)"""
    if not is_sym(r):
        mag = abs(r)
        q, rem = divmod(mag, 10)
        if rem > 5 or (rem == 5 and q % 2 == 1):
            q += 1
        return q if r >= 0 else -q
    neg = truth(r < 0)
    mag = simp(-r) if neg else r
    q = mag / 10
    rem = mag % 10
    q = simp(q + z3.If(z3.Or(rem > 5, z3.And(rem == 5, q % 2 == 1)), 1, 0))
    return simp(-q) if neg else q


def dec_add(it, a, b, sign=1):
    A, B, s = dec_align(a, b)
    r = A + B if sign > 0 else A - B
    r = simp(r) if is_sym(r) else r
    if fits96(it, r):
        return Dec(r, s)
    if s == 0:
        it.panic('Addition overflowed' if sign > 0 else 'Subtraction overflowed')
    if a.s == b.s:
        # rust_decimal ops/add.rs aligned_add -> reduce_scale: operands on one scale, |sum| in (2^96-1, 2^97): one digit is
        # dropped, round half to even, scale - 1 (the quotient always fits)
        return Dec(round_sum_half_even(r, it.truth), s - 1)
    raise OutsideModel('decimal add/sub of operands on different scales needs rescaling (rounding) to fit 96 bits')


def is_zero(it, m):
    if not is_sym(m):
        return m == 0
    return it.truth(m == 0)


def dec_mul(it, a, b):
    if is_zero(it, a.m) or is_zero(it, b.m):
        return Dec(0, 0)
    r = a.m * b.m
    r = simp(r) if is_sym(r) else r
    s = a.s + b.s
    if s <= 28 and fits96(it, r):
        return Dec(r, s)
    if s == 0:
        it.panic('Multiplication overflowed')
    raise OutsideModel('decimal product needs rounding to fit 96 bits / 28 digits')


def dec_div(it, a, b):
    """rust_decimal division (decdiv.py = div_impl ported, validated against the crate on 20 000 random pairs): exact for
    concrete operands and for a symbolic dividend over a concrete divisor; a symbolic divisor is outside the model"""
    import decdiv
    if is_zero(it, b.m):
        it.panic('Division by zero')
    if is_sym(b.m):
        raise OutsideModel('decimal quotient with a symbolic divisor')
    if is_zero(it, a.m):
        return Dec(0, 0)
    neg_a = it.truth(a.m < 0) if is_sym(a.m) else a.m < 0
    mag = (-a.m if neg_a else a.m)
    if is_sym(mag):
        mag = simp(dec_int(mag))
    try:
        q, s = decdiv.div(mag, a.s, abs(b.m), b.s, truth=it.truth, simp=simp)
    except decdiv.DivOverflow:
        it.panic('Division overflowed')
    neg = neg_a != (b.m < 0)
    if is_sym(q):
        q = simp(q)
        if neg and is_zero(it, q):
            neg = False
    return Dec(-q if neg else q, s)


def dec_rem(it, a, b):
    if is_zero(it, b.m):
        it.panic('Division by zero')
    A, B, s = dec_align(a, b)
    if not is_sym(A) and not is_sym(B):
        r = abs(A) % abs(B)
        return Dec(r if A >= 0 else -r, s)
    A, B = dec_int(A), dec_int(B)
    absA = z3.If(A >= 0, A, -A)
    absB = z3.If(B >= 0, B, -B)
    r = absA % absB
    return Dec(simp(z3.If(A >= 0, r, -r)), s)


def _dec_assign(fn):
    def f(it, args, callee):
        r, b = args
        a = rd(r)
        wr(r, fn(it, a, b))
        return UNIT
    return f


MODELS['<rust_decimal::Decimal as AddAssign>::add_assign'] = _dec_assign(lambda it, a, b: dec_add(it, a, b, 1))
MODELS['<rust_decimal::Decimal as SubAssign>::sub_assign'] = _dec_assign(lambda it, a, b: dec_add(it, a, b, -1))
MODELS['<rust_decimal::Decimal as MulAssign>::mul_assign'] = _dec_assign(dec_mul)
MODELS['<rust_decimal::Decimal as DivAssign>::div_assign'] = _dec_assign(dec_div)
MODELS['<rust_decimal::Decimal as RemAssign>::rem_assign'] = _dec_assign(dec_rem)
MODELS['<rust_decimal::Decimal as Add>::add'] = lambda it, a, c: dec_add(it, a[0], a[1], 1)
MODELS['<rust_decimal::Decimal as Sub>::sub'] = lambda it, a, c: dec_add(it, a[0], a[1], -1)
MODELS['<rust_decimal::Decimal as Mul>::mul'] = lambda it, a, c: dec_mul(it, a[0], a[1])
MODELS['<rust_decimal::Decimal as Div>::div'] = lambda it, a, c: dec_div(it, a[0], a[1])
MODELS['<rust_decimal::Decimal as Rem>::rem'] = lambda it, a, c: dec_rem(it, a[0], a[1])


def _checked(fn):
    def f(it, args, callee):
        try:
            return Some(fn(it, args[0], args[1]))
        except Unwind:
            return NONE
    return f


MODELS['rust_decimal::Decimal::checked_add'] = _checked(lambda it, a, b: dec_add(it, a, b, 1))
MODELS['rust_decimal::Decimal::checked_sub'] = _checked(lambda it, a, b: dec_add(it, a, b, -1))
MODELS['rust_decimal::Decimal::checked_mul'] = _checked(dec_mul)
MODELS['rust_decimal::Decimal::checked_div'] = _checked(dec_div)
MODELS['rust_decimal::Decimal::checked_rem'] = _checked(dec_rem)
for _n in ('add', 'sub', 'mul', 'div', 'rem'):
    MODELS['Decimal::checked_' + _n] = MODELS['rust_decimal::Decimal::checked_' + _n]


@model('<rust_decimal::Decimal as Neg>::neg')
def dec_neg(it, args, callee):
    a = args[0]
    if not is_sym(a.m) and a.m == 0:
        return Dec(0, a.s, None if a.src == 'negzero' else 'negzero')
    if is_sym(a.m) and it.truth(a.m == 0):
        return Dec(0, a.s, 'negzero')          # rust_decimal keeps the sign bit: the negation of zero is a negative zero
    return Dec(simp(-a.m) if is_sym(a.m) else -a.m, a.s)


for _op, _sym in (('lt', '<'), ('le', '<='), ('gt', '>'), ('ge', '>=')):
    MODELS['<rust_decimal::Decimal as PartialOrd>::' + _op] = (
        lambda s: (lambda it, a, c: dec_cmp(deref_all(a[0]), deref_all(a[1]), s)))(_sym)


@model('rust_decimal::Decimal::is_zero', 'Decimal::is_zero')
def dec_is_zero(it, args, callee):
    d = deref_all(args[0])
    return (d.m == 0) if not is_sym(d.m) else simp(d.m == 0)


@model('<rust_decimal::Decimal as Clone>::clone')
def dec_clone(it, args, callee):
    return rd(args[0])


def dec_to_text(d):
    m, s = d.m, d.s
    neg = m < 0 or (m == 0 and d.src == 'negzero')
    digits = str(abs(m))
    if s > 0:
        if len(digits) <= s:
            digits = '0' * (s - len(digits) + 1) + digits
        digits = digits[:-s] + '.' + digits[-s:]
    return ('-' if neg else '') + digits


@model('<rust_decimal::Decimal as ToString>::to_string')
def dec_to_string(it, args, callee):
    d = deref_all(args[0])
    if is_sym(d.m):
        text = None
        if d.src is not None and d.src != 'negzero' and not isinstance(d.src[0], str):
            neg, ints, fracs = d.src
            ints = list(ints)
            # Display strips leading zeros of the integer part (keeps one digit)
            while len(ints) > 1:
                b0 = ints[0]
                z = (b0 == 0x30) if isinstance(b0, int) else it.truth(b0 == z3.BitVecVal(0x30, 8))
                if not z:
                    break
                ints.pop(0)
            if not ints:
                ints = [0x30]
            text = tuple(ints) + ((0x2E,) + tuple(fracs) if fracs else ())
            if neg:
                # "-0" style texts: sign is printed whenever the sign bit is set
                text = (0x2D,) + text
        return DecStr(d, text)
    return mkstr(dec_to_text(d))


def dec_from_str_concrete(bs):
    """faithful port of rust_decimal 1.31 parse_str_radix_10 for inputs shorter than 18 bytes;
    longer inputs: exact when no rounding is involved, else None -> OutsideModel"""
    n = len(bs)
    if n == 0:
        return 'err'
    i = 0
    neg = False
    if bs[0] in (0x2B, 0x2D):
        neg = bs[0] == 0x2D
        i = 1
    has = False
    point = False
    data = 0
    scale = 0
    while i < n:
        c = bs[i]
        if 0x30 <= c <= 0x39:
            if point and scale >= 28:
                return None     # rounding territory
            data = data * 10 + (c - 0x30)
            if data > MAX96:
                if not point:
                    return 'err'
                return None
            if point:
                scale += 1
            has = True
        elif c == 0x2E and not point:
            point = True
        elif c == 0x5F and has:
            pass
        else:
            return 'err'
        i += 1
    if not has:
        return 'err'
    # Decimal::from_parts clears the sign of a zero: "-0" parses to +0
    return Dec(-data if neg else data, scale, None)


@model('<rust_decimal::Decimal as std::str::FromStr>::from_str', '<rust_decimal::Decimal as FromStr>::from_str',
       'rust_decimal::Decimal::from_str_exact')
def dec_from_str(it, args, callee):
    s = as_str(args[0])
    if isinstance(s, DecStr):
        return Ok(s.d)
    if s.concrete():
        r = dec_from_str_concrete(s.b)
        if r is None:
            raise OutsideModel('Decimal::from_str of a literal that needs rounding')
        if r == 'err':
            return Err(Opaque('rust_decimal::Error'))
        return Ok(r)
    # symbolic bytes: fork on each byte's class.  Inputs of 18+ bytes take rust_decimal's overflow-aware path: a mantissa
    # beyond 96 bits is an error before the point and is rounded after it (rounding is outside the model), exactly as in
    # dec_from_str_concrete above.
    bs = s.b
    n = len(bs)
    i = 0
    neg = False

    def is_(b, lo, hi=None):
        if isinstance(b, int):
            return lo <= b <= (hi if hi is not None else lo)
        if hi is None:
            return it.truth(b == z3.BitVecVal(lo, 8))
        return it.truth(z3.And(z3.UGE(b, z3.BitVecVal(lo, 8)), z3.ULE(b, z3.BitVecVal(hi, 8))))
    if is_(bs[0], 0x2D):
        neg = True
        i = 1
    elif is_(bs[0], 0x2B):
        i = 1
    has = False
    point = False
    data = 0
    scale = 0
    ints = []
    fracs = []
    while i < n:
        c = bs[i]
        if is_(c, 0x30, 0x39):
            if point and scale >= 28:
                raise OutsideModel('Decimal::from_str of a literal that needs rounding')
            dig = (c - 0x30) if isinstance(c, int) else z3.BV2Int(c - z3.BitVecVal(0x30, 8), False)
            data = data * 10 + dig
            if len(ints) + len(fracs) >= 28 and not fits96(it, data):
                if not point:
                    return Err(Opaque('rust_decimal::Error'))
                raise OutsideModel('Decimal::from_str of a literal that needs rounding')
            (fracs if point else ints).append(c)
            if point:
                scale += 1
            has = True
        elif (not point) and is_(c, 0x2E):
            point = True
        elif has and is_(c, 0x5F):
            pass
        else:
            return Err(Opaque('rust_decimal::Error'))
        i += 1
    if not has:
        return Err(Opaque('rust_decimal::Error'))
    if is_sym(data):
        data = simp(data)
    if neg and is_zero(it, data):
        neg = False         # Decimal::from_parts clears the sign of a zero
    return Ok(Dec(-data if neg else data, scale, (neg, tuple(ints), tuple(fracs))))


def _from_int(ty):
    w, signed = INT_TYPES[ty]

    def f(it, args, callee):
        v = args[0]
        if not is_sym(v):
            if -MAX96 <= v <= MAX96:
                return Some(Dec(int(v), 0))
            if ty == 'i128' and v == -(1 << 127) and it.profile == 'dev':
                it.panic('attempt to negate with overflow (rust_decimal from_i128)')
            return NONE
        m = z3.BV2Int(v, signed)
        if w <= 64:
            return Some(Dec(m, 0, ('bv', v, signed) if w == 64 and signed else None))
        if ty == 'i128' and it.profile == 'dev' and it.truth(v == z3.BitVecVal(1 << 127, 128)):
            it.panic('attempt to negate with overflow (rust_decimal from_i128)')
        if it.truth(z3.And(m >= -MAX96, m <= MAX96)):
            return Some(Dec(m, 0))
        return NONE
    return f


for _t in ('i8', 'i16', 'i32', 'i64', 'i128', 'u8', 'u16', 'u32', 'u64', 'u128', 'isize', 'usize'):
    MODELS['<rust_decimal::Decimal as rust_decimal::prelude::FromPrimitive>::from_' + _t] = _from_int(_t)
    MODELS['<rust_decimal::Decimal as FromPrimitive>::from_' + _t] = _from_int(_t)
    MODELS['<rust_decimal::Decimal as From<%s>>::from' % _t] = (
        lambda g: (lambda it, a, c: g(it, a, c).f[0]))(_from_int(_t))


@pattern(r'^<rust_decimal::Decimal as (rust_decimal::prelude::)?FromPrimitive>::from_f(32|64)$')
def dec_from_float(it, args, callee):
    raise Unsupported('Decimal::from_f32/f64 (floating point is outside the encoder)')


# =============================================================================== fmt (never interpreted)

@pattern(r'^(core::fmt::rt::Argument|Arguments|std::fmt::Arguments|Formatter|core::fmt::Formatter)::.*$')
def fmt_any(it, args, callee):
    raise Unsupported('fmt machinery reached (Display/Debug rendering is not modelled): ' + callee[:60])


@model('format', 'std::fmt::format', 'alloc::fmt::format', 'must_use::<std::string::String>')
def fmt_format(it, args, callee):
    if callee.startswith('must_use'):
        return args[0]
    raise Unsupported('format! reached (message rendering is not modelled)')


# =============================================================================== additions: normalize, checked shifts, TryFrom

@model('rust_decimal::Decimal::normalize', 'Decimal::normalize')
def dec_normalize(it, args, callee):
    d = deref_all(args[0])
    m, s = d.m, d.s
    if not is_sym(m):
        while s > 0 and m % 10 == 0:
            m //= 10
            s -= 1
        if m == 0:
            s = 0
        return Dec(m, s)
    if s == 0:
        return d
    # symbolic mantissa: strip trailing zeros digit by digit (forks at most `scale` times)
    while s > 0 and it.truth(m % 10 == 0):
        m = simp(m / 10)
        s -= 1
    return Dec(m, s)


@pattern(r'^core::num::<impl (i8|i16|i32|i64|i128|isize|u8|u16|u32|u64|u128|usize)>::checked_(shl|shr)$')
def int_checked_shift(it, args, callee):
    m = re.match(r'^core::num::<impl (\w+)>::checked_(shl|shr)$', callee)
    ty, op = m.group(1), m.group(2)
    w, signed = INT_TYPES[ty]
    a, n = args
    inr = it.binop('Lt', n, w, 'u32')
    if it.truth(inr):
        return Some(it.binop('Shl' if op == 'shl' else 'Shr', a, n, ty))
    return NONE


@pattern(r'^core::num::<impl (i8|i16|i32|i64|i128|isize|u8|u16|u32|u64|u128|usize)>::checked_(add|sub|mul)$')
def int_checked_arith(it, args, callee):
    m = re.match(r'^core::num::<impl (\w+)>::checked_(add|sub|mul)$', callee)
    ty, op = m.group(1), m.group(2)
    r = it.binop({'add': 'AddWithOverflow', 'sub': 'SubWithOverflow', 'mul': 'MulWithOverflow'}[op], args[0], args[1], ty)
    if it.truth(r.f[1]):
        return NONE
    return Some(r.f[0])


@pattern(r'^<(i8|i16|i32|i64|i128|isize|u8|u16|u32|u64|u128|usize) as TryFrom<(i8|i16|i32|i64|i128|isize|u8|u16|u32|u64|u128|usize)>>::try_from$')
def int_try_from(it, args, callee):
    m = re.match(r'^<(\w+) as TryFrom<(\w+)>>::try_from$', callee)
    to, frm = m.group(1), m.group(2)
    tw, ts = INT_TYPES[to]
    fw, fs = INT_TYPES[frm]
    v = args[0]
    lo = -(1 << (tw - 1)) if ts else 0
    hi = (1 << (tw - 1)) - 1 if ts else (1 << tw) - 1
    if not is_sym(v):
        if lo <= v <= hi:
            return Ok(norm_int(v, tw, ts))
        return Err(Opaque('TryFromIntError'))
    flo = -(1 << (fw - 1)) if fs else 0
    fhi = (1 << (fw - 1)) - 1 if fs else (1 << fw) - 1
    conds = []
    if lo > flo:
        c = z3.BitVecVal(lo & ((1 << fw) - 1), fw)
        conds.append(v >= c if fs else z3.UGE(v, c))
    if hi < fhi:
        c = z3.BitVecVal(hi, fw)
        conds.append(v <= c if fs else z3.ULE(v, c))
    if not conds or it.truth(z3.And(conds)):
        return Ok(it.cast('IntToInt', v, frm, to))
    return Err(Opaque('TryFromIntError'))


@pattern(r'^(std::option::)?Option::<.*>::and_then::<.*>$')
def option_and_then(it, args, callee):
    o, f = args
    if o.name == 'Some':
        return it.call_callable(f, [o.f[0]])
    return NONE


@pattern(r'^(core::)?char::methods::<impl char>::len_utf8$')
def char_len_utf8(it, args, callee):
    c = args[0]
    if not is_sym(c):
        return len(chr(c).encode('utf-8'))
    if it.truth(z3.ULT(c, z3.BitVecVal(0x80, 32))):
        return 1
    if it.truth(z3.ULT(c, z3.BitVecVal(0x800, 32))):
        return 2
    if it.truth(z3.ULT(c, z3.BitVecVal(0x10000, 32))):
        return 3
    return 4


@pattern(r'^core::num::<impl (i8|i16|i32|i64|i128|isize|u8|u16|u32|u64|u128|usize)>::saturating_(add|sub|mul)$')
def int_saturating(it, args, callee):
    m = re.match(r'^core::num::<impl (\w+)>::saturating_(add|sub|mul)$', callee)
    ty, op = m.group(1), m.group(2)
    w, signed = INT_TYPES[ty]
    a, b = args
    lo = -(1 << (w - 1)) if signed else 0
    hi = (1 << (w - 1)) - 1 if signed else (1 << w) - 1
    if not is_sym(a) and not is_sym(b):
        r = a + b if op == 'add' else (a - b if op == 'sub' else a * b)
        return max(lo, min(hi, r))
    ext = z3.SignExt if signed else z3.ZeroExt
    k = w if op == 'mul' else 2
    EA, EB = ext(k, to_bv(a, w)), ext(k, to_bv(b, w))
    wide = EA + EB if op == 'add' else (EA - EB if op == 'sub' else EA * EB)
    LO, HI = z3.BitVecVal(lo, w + k), z3.BitVecVal(hi, w + k)
    if signed:
        sat = z3.If(wide < LO, LO, z3.If(wide > HI, HI, wide))
    else:
        # unsigned subtraction may go below zero in the widened (zero-extended) domain: treat as signed there
        sat = z3.If(wide < LO, LO, z3.If(wide > HI, HI, wide)) if op == 'sub' else z3.If(z3.UGT(wide, HI), HI, wide)
    return simp(z3.Extract(w - 1, 0, sat))


@pattern(r'^core::str::<impl str>::contains::<char>$')
def str_contains_char(it, args, callee):
    s = as_str(args[0])
    c = args[1]
    bs = sbytes(s, 'contains')
    if is_sym(c):
        raise Unsupported('str::contains with a symbolic needle')
    needle = tuple(chr(c).encode('utf-8'))
    n = len(needle)
    hits = []
    for i in range(0, len(bs) - n + 1):
        hits.append(str_eq(it, bs[i:i + n], needle))
    if any(h is True for h in hits):
        return True
    hs = [h for h in hits if h is not False]
    if not hs:
        return False
    return simp(z3.Or(hs) if len(hs) > 1 else hs[0])


@pattern(r'^core::str::<impl str>::contains::<&str>$')
def str_contains_str(it, args, callee):
    s = sbytes(as_str(args[0]), 'contains')
    needle = sbytes(as_str(args[1]), 'contains')
    n = len(needle)
    if n == 0:
        return True
    hits = [str_eq(it, s[i:i + n], needle) for i in range(0, len(s) - n + 1)]
    if any(h is True for h in hits):
        return True
    hs = [h for h in hits if h is not False]
    if not hs:
        return False
    return simp(z3.Or(hs) if len(hs) > 1 else hs[0])


# =============================================================================== more rust_decimal API (commonly used by edits of the crate)

def _dint(x):
    return x if is_sym(x) else z3.IntVal(x)


def _to_bv_from_int(it, m, w, signed, what):
    """Int term/int -> bit-vector of width w (tied through bv2int so z3 stays decisive)"""
    if not is_sym(m):
        return norm_int(m, w, signed)
    v = it.x.bv('%s_%d' % (what, len(it.x.syms)), w)
    it.x.assume(m == z3.BV2Int(v, signed))
    return v


@model('rust_decimal::Decimal::scale', 'Decimal::scale')
def dec_scale(it, args, callee):
    return deref_all(args[0]).s


@model('rust_decimal::Decimal::mantissa', 'Decimal::mantissa')
def dec_mantissa(it, args, callee):
    d = deref_all(args[0])
    return _to_bv_from_int(it, d.m, 128, True, 'mant')


@model('rust_decimal::Decimal::unpack', 'Decimal::unpack')
def dec_unpack(it, args, callee):
    """UnpackedDecimal { negative, scale, hi, mid, lo } (declaration order)"""
    d = deref_all(args[0])
    if not is_sym(d.m):
        mag = abs(d.m)
        neg = d.m < 0 or (d.m == 0 and d.src == 'negzero')
        return Agg('UnpackedDecimal', (neg, d.s, (mag >> 64) & 0xFFFFFFFF, (mag >> 32) & 0xFFFFFFFF, mag & 0xFFFFFFFF))
    v = _to_bv_from_int(it, d.m, 128, True, 'mant')
    neg = simp(v < 0)
    mag = simp(z3.If(neg, -v, v))
    return Agg('UnpackedDecimal', (neg, d.s, simp(z3.Extract(95, 64, mag)), simp(z3.Extract(63, 32, mag)), simp(z3.Extract(31, 0, mag))))


@model('rust_decimal::Decimal::is_sign_negative', 'Decimal::is_sign_negative')
def dec_is_neg(it, args, callee):
    d = deref_all(args[0])
    return (d.m < 0 or (d.m == 0 and d.src == 'negzero')) if not is_sym(d.m) else simp(d.m < 0)


@model('rust_decimal::Decimal::is_sign_positive', 'Decimal::is_sign_positive')
def dec_is_pos(it, args, callee):
    d = deref_all(args[0])
    return (d.m > 0 or (d.m == 0 and d.src != 'negzero')) if not is_sym(d.m) else simp(d.m >= 0)


@model('rust_decimal::Decimal::abs', 'Decimal::abs')
def dec_abs(it, args, callee):
    d = deref_all(args[0])
    if not is_sym(d.m):
        return Dec(abs(d.m), d.s)
    return Dec(simp(z3.If(d.m >= 0, d.m, -d.m)), d.s)


def _trunc_div(m, p):
    """truncating (toward zero) division of an Int term / int by a positive constant"""
    if not is_sym(m):
        q = abs(m) // p
        return q if m >= 0 else -q
    return simp(z3.If(m >= 0, m / p, -((-m) / p)))


@model('rust_decimal::Decimal::trunc', 'Decimal::trunc')
def dec_trunc(it, args, callee):
    d = deref_all(args[0])
    return Dec(_trunc_div(d.m, 10 ** d.s), 0)


@model('rust_decimal::Decimal::fract', 'Decimal::fract')
def dec_fract(it, args, callee):
    d = deref_all(args[0])
    p = 10 ** d.s
    t = _trunc_div(d.m, p)
    r = d.m - t * p
    return Dec(simp(r) if is_sym(r) else r, d.s)


@model('rust_decimal::Decimal::is_integer', 'Decimal::is_integer')
def dec_is_integer(it, args, callee):
    d = deref_all(args[0])
    p = 10 ** d.s
    return (d.m % p == 0) if not is_sym(d.m) else simp(d.m % p == 0)


@model('rust_decimal::Decimal::floor', 'Decimal::floor')
def dec_floor(it, args, callee):
    d = deref_all(args[0])
    p = 10 ** d.s
    if not is_sym(d.m):
        return Dec(d.m // p, 0)
    return Dec(simp(d.m / p), 0)     # z3 integer division by a positive constant is floor


@model('rust_decimal::Decimal::ceil', 'Decimal::ceil')
def dec_ceil(it, args, callee):
    d = deref_all(args[0])
    p = 10 ** d.s
    if not is_sym(d.m):
        return Dec(-((-d.m) // p), 0)
    return Dec(simp(-((-d.m) / p)), 0)


@pattern(r'^<rust_decimal::Decimal as (rust_decimal::prelude::|num_traits::)?ToPrimitive>::to_(i8|i16|i32|i64|i128|isize|u8|u16|u32|u64|u128|usize)$')
def dec_to_int(it, args, callee):
    ty = re.match(r'.*::to_(\w+)$', callee).group(1)
    w, signed = INT_TYPES[ty]
    d = deref_all(args[0])
    t = _trunc_div(d.m, 10 ** d.s)
    lo = -(1 << (w - 1)) if signed else 0
    hi = (1 << (w - 1)) - 1 if signed else (1 << w) - 1
    if not is_sym(t):
        return Some(t) if lo <= t <= hi else NONE
    if it.truth(z3.And(t >= lo, t <= hi)):
        return Some(_to_bv_from_int(it, t, w, signed, 'toint'))
    return NONE


@pattern(r'^<rust_decimal::Decimal as (rust_decimal::prelude::|num_traits::)?ToPrimitive>::to_f(32|64)$')
def dec_to_float(it, args, callee):
    raise Unsupported('Decimal::to_f32/to_f64 (floating point is outside the encoder)')


@model('rust_decimal::Decimal::new', 'Decimal::new')
def dec_new(it, args, callee):
    num, scale = args
    scale = it.concretize(scale, limit=32)
    if scale > 28:
        it.panic('Scale exceeds the maximum precision allowed: %d > 28' % scale)
    m = num if not is_sym(num) else z3.BV2Int(num, True)
    return Dec(m, scale, ('bv', num, True) if is_sym(num) and scale == 0 else None)


@pattern(r'^rust_decimal::Decimal::(try_)?from_i128_with_scale$')
def dec_from_i128_with_scale(it, args, callee):
    num, scale = args
    scale = it.concretize(scale, limit=32)
    m = num if not is_sym(num) else z3.BV2Int(num, True)
    if is_sym(num):
        # decide the range in the bit-vector domain (a bv2int round trip makes z3 give up)
        w = num.size()
        ok = scale <= 28 and it.truth(z3.And(num <= z3.BitVecVal(MAX96, w), num >= z3.BitVecVal(-MAX96, w)))
    else:
        ok = scale <= 28 and fits96(it, m)
    if 'try_' in callee:
        return Ok(Dec(m, scale)) if ok else Err(Opaque('rust_decimal::Error'))
    if not ok:
        it.panic('Decimal::from_i128_with_scale out of range')
    return Dec(m, scale)


@model('rust_decimal::Decimal::set_scale', 'Decimal::set_scale')
def dec_set_scale(it, args, callee):
    r, scale = args
    scale = it.concretize(scale, limit=64)
    d = rd(r)
    if scale > 28:
        return Err(Opaque('rust_decimal::Error'))
    wr(r, Dec(d.m, scale))
    return Ok(UNIT)


@model('rust_decimal::Decimal::rescale', 'Decimal::rescale')
def dec_rescale(it, args, callee):
    """rust_decimal 1.31 ops::array::rescale::<true>: scaling down truncates digit by digit and rounds on the last removed
    digit only (>= 5 rounds the magnitude up); scaling up multiplies by ten while the 96-bit mantissa does not overflow
    and silently stops at the largest scale that fits"""
    r, new = args
    new = it.concretize(new, limit=64)
    d = rd(r)
    if d.s == new:
        return UNIT
    if is_zero(it, d.m):
        wr(r, Dec(0, min(new, 28)))
        return UNIT
    neg = it.truth(d.m < 0) if is_sym(d.m) else d.m < 0
    mag = -d.m if neg else d.m
    if is_sym(mag):
        mag = simp(mag)
    if d.s > new:
        rem = 0
        for _ in range(d.s - new):
            if is_zero(it, mag):
                wr(r, Dec(0, new))
                return UNIT
            if is_sym(mag):
                mag, rem = simp(mag / 10), simp(mag % 10)
            else:
                mag, rem = divmod(mag, 10)
        up = it.truth(rem >= 5) if is_sym(rem) else rem >= 5
        if up:
            mag = mag + 1
            # the carry of the original is dropped beyond 96 bits (cannot happen after a division by ten)
        wr(r, Dec((-mag if neg else mag), new))
        return UNIT
    diff = new - d.s
    while diff > 0:
        nxt = mag * 10
        if not fits96(it, nxt):
            break
        mag = simp(nxt) if is_sym(nxt) else nxt
        diff -= 1
    wr(r, Dec((-mag if neg else mag), new - diff))
    return UNIT


@pattern(r'^rust_decimal::Decimal::round(_dp|_dp_with_strategy|_sf)?$')
def dec_round(it, args, callee):
    raise OutsideModel('Decimal rounding')


@pattern(r'^<rust_decimal::Decimal as (Partial)?Ord>::(partial_)?cmp$')
def dec_cmp_model(it, args, callee):
    a, b = deref_all(args[0]), deref_all(args[1])
    if it.truth(dec_cmp(a, b, '<')):
        r = Enum('Ordering', 0, 'Less')
    elif it.truth(dec_cmp(a, b, '==')):
        r = Enum('Ordering', 1, 'Equal')
    else:
        r = Enum('Ordering', 2, 'Greater')
    return Some(r) if 'partial_cmp' in callee else r


@pattern(r'^<rust_decimal::Decimal as Ord>::(min|max)$')
def dec_minmax(it, args, callee):
    a, b = args
    lt = it.truth(dec_cmp(a, b, '<'))
    if callee.endswith('min'):
        return a if lt else b
    return b if lt else a


@pattern(r'^rust_decimal::Decimal::(saturating|wrapping)_(add|sub|mul)$')
def dec_saturating(it, args, callee):
    raise OutsideModel('Decimal saturating/wrapping arithmetic')


Interp.CONSTS['rust_decimal::Decimal::TEN'] = Dec(10, 0)
Interp.CONSTS['rust_decimal::Decimal::TWO'] = Dec(2, 0)
Interp.CONSTS['rust_decimal::Decimal::ONE_HUNDRED'] = Dec(100, 0)
Interp.CONSTS['rust_decimal::Decimal::NEGATIVE_ONE'] = Dec(-1, 0)
Interp.CONSTS['rust_decimal::Decimal::MAX'] = Dec(MAX96, 0)
Interp.CONSTS['rust_decimal::Decimal::MIN'] = Dec(-MAX96, 0)
for _k in list(Interp.CONSTS):
    if _k.startswith('rust_decimal::'):
        Interp.CONSTS[_k[len('rust_decimal::'):]] = Interp.CONSTS[_k]


@pattern(r'^once_cell::sync::OnceCell::<.*>::(set|try_insert)$')
def once_set(it, args, callee):
    r, v = args
    if it.sched is not None:
        it.sched.yield_point(it, 'once-set')
    o = rd(r)
    if o.state == 2:
        return Err(v)
    if o.state == 1:
        raise Unsupported('OnceCell::set while an initialiser is running')
    wr(r, OnceV(2, v, None))
    if it.sched is not None:
        it.sched.wake(lambda on: on is not None and on[0] == 'once' and on[1] == id(r.cell))
    return Ok(UNIT)
