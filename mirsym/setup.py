#!/usr/bin/env python3
"""MANIFEST.setup_cmd: build artefacts for the current tree (MIR dumps, replay binaries), run the
encoder conformance corpus and the must-fail twins.  Exit 0 when the framework is usable."""
import os
import sys
import time
HERE = os.path.dirname(os.path.abspath(__file__))
sys.path.insert(0, HERE)
import buildcache
import conformance

t0 = time.time()
art = buildcache.ensure()
ok = True
for prof in ('dev', 'rel'):
    r = conformance.run_conformance(art, prof)
    print('conformance[%s]: %d inputs, %d disagreements, %d unsupported, %d outside model' % (
        prof, r['inputs'], len(r['disagreements']), len(r['unsupported']), len(r['outside'])))
    if r['disagreements'] or r['unsupported']:
        ok = False
        for s, d in r['disagreements'][:10]:
            print('  DISAGREE %r %s' % (s, d))
        for s, d in r['unsupported'][:10]:
            print('  UNSUPPORTED %r %s' % (s, d))
try:
    import twins
    ok = twins.run(art) and ok
except ImportError:
    pass
print('setup %s in %.1fs' % ('ok' if ok else 'FAILED', time.time() - t0))
sys.exit(0 if ok else 1)
