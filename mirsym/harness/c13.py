"""C13 — concurrent use is safe, including first use and concurrent registration
(also the concurrent half of C16).

Virtual threads (mirsym/sched.py) run API calls concurrently; the scheduler's choice at every
synchronisation point (Mutex::lock, OnceCell get/get_or_init/set, atomics, harness waits) is a
symbolic decision explored like a branch, with a bound on preemptions.  Scenarios (chosen by a
symbolic selector), all with distinct contexts per thread:
  * first engine calls of the process racing with an override of a built-in function / prefix /
    infix / postfix operator; afterwards a probe must see the override
  * two first calls racing (no thread may observe a partially filled built-in table)
  * registration of a new infix operator racing with a parse that uses it
  * two registrations of the same name; two independent evaluations (isolation)
  * a global function whose handler waits for another thread that evaluates a built-in function
Assertions: no panic, no deadlock (all live threads blocked), and the tuple of per-call results
(plus the probe after the join) equals the tuple under one of the sequential orders of the same
calls, computed with the same engine.
"""
import itertools
import json
import z3

from values import *
import api
import render
import explore as ex
import sched as sch
from harness.common import *

ID = 'C13'


def tag_handler(tag):
    return PyFn(lambda it, a: Ok(api.V_str(tag)), tag)


def wait_handler(flag):
    def h(it, a):
        if it.sched is not None:
            it.sched.wait_flag(it, flag)
        elif not WAIT_STATE.get(flag):
            raise SeqBlocked()
        return Ok(api.V_num(7, 0))
    return PyFn(h, 'wait-' + flag)


class SeqBlocked(Exception):
    """a sequential order in which a handler would wait forever"""


WAIT_STATE = {}


def outcome_json(o):
    if o.kind == 'ok':
        v = o.value
        if isinstance(v, Enum) and v.ty == 'Value':
            return {'kind': 'ok', 'value': render.value_json(v)}
        if isinstance(v, Enum) and v.ty == 'ExprAST':
            return {'kind': 'ok', 'ast': render.ast_json(v)}
        return {'kind': 'ok'}
    if o.kind == 'err':
        return {'kind': 'err', 'variant': render.error_variant(o.value)}
    return {'kind': o.kind, 'detail': (o.detail or '')[:80]}


def run_call(it, c):
    k = c[0]
    if k == 'execute':
        ctx = api.new_context(it)
        return outcome_json(api.execute(it, c[1], ctx))
    if k == 'parse':
        return outcome_json(api.parse(it, c[1]))
    if k == 'register_function':
        o = api.guarded(it, it.call, 'register_function', [mkstr(c[1]), ArcV(Cell(c[2], 'h'))])
        return {'kind': 'ok'} if o.kind == 'ret' else {'kind': o.kind, 'detail': o.detail}
    if k == 'register_prefix':
        o = api.guarded(it, it.call, 'register_prefix_op', [mkstr(c[1]), ArcV(Cell(c[2], 'h'))])
        return {'kind': 'ok'} if o.kind == 'ret' else {'kind': o.kind, 'detail': o.detail}
    if k == 'register_postfix':
        o = api.guarded(it, it.call, 'register_postfix_op', [mkstr(c[1]), ArcV(Cell(c[2], 'h'))])
        return {'kind': 'ok'} if o.kind == 'ret' else {'kind': o.kind, 'detail': o.detail}
    if k == 'register_infix':
        o = api.guarded(it, it.call, 'register_infix_op', [mkstr(c[1]), c[2], Enum('InfixOpType', 0, 'CALC'),
                                                            Enum('InfixOpAssociativity', 0 if c[3] == 'LEFT' else 1, c[3]), ArcV(Cell(c[4], 'h'))])
        return {'kind': 'ok'} if o.kind == 'ret' else {'kind': o.kind, 'detail': o.detail}
    if k == 'set_flag':
        if it.sched is not None:
            it.sched.set_flag(it, c[1])
        else:
            WAIT_STATE[c[1]] = True
        return {'kind': 'ok'}
    raise ValueError(k)


def scenarios(tier):
    S = []
    T = tag_handler
    for name, reg, probe in (('mul', ('register_function', 'mul', T('MY-mul')), 'mul ( 2 , 3 )'),
                             ('min', ('register_function', 'min', T('MY-min')), 'min ( 2 , 3 )'),
                             ('!', ('register_prefix', '!', T('MY-not')), '! true'),
                             ('++', ('register_postfix', '++', T('MY-inc')), '1 ++'),
                             ('+', ('register_infix', '+', 110, 'LEFT', T('MY-plus')), '1 + 2')):
        S.append({'id': 'override-%s-vs-first-use' % name, 'init': False, 'setup': [],
                  'threads': [[reg], [('execute', '1 + 2 * 3')]], 'probe': [('execute', probe)]})
    S.append({'id': 'two-first-uses', 'init': False, 'setup': [], 'threads': [[('execute', 'min ( 3 , 1 ) + 1')], [('execute', '! true ; 2 ++')]], 'probe': [('execute', 'sum ( 1 , 2 )')]})
    S.append({'id': 'first-parse-vs-first-execute', 'init': False, 'setup': [], 'threads': [[('parse', 'a in [ 1 ] && b')], [('execute', '7 % 4')]], 'probe': []})
    S.append({'id': 'register-new-infix-vs-parse', 'init': True, 'setup': [], 'threads': [[('register_infix', 'hi', 111, 'LEFT', T('HI'))], [('parse', '1 + 2 hi 3')]],
              'probe': [('parse', '1 + 2 hi 3')]})
    S.append({'id': 'two-registrations-same-name', 'init': True, 'setup': [], 'threads': [[('register_function', 'f', T('F1'))], [('register_function', 'f', T('F2'))]],
              'probe': [('execute', 'f ( )')]})
    S.append({'id': 'isolated-evaluations', 'init': True, 'setup': [], 'threads': [[('execute', 'a = 1 ; a += 1 ; a')], [('execute', 'a = 10 ; a')]], 'probe': []})
    S.append({'id': 'register-vs-execute-two-calls', 'init': True, 'setup': [], 'threads': [[('register_function', 'g', T('G1')), ('execute', 'g ( )')], [('execute', 'max ( 1 , 2 )'), ('register_function', 'g', T('G2'))]],
              'probe': []})
    S.append({'id': 'handler-waits-for-other-thread', 'init': True, 'setup': [('register_function', 'gfw', wait_handler('F'))],
              'threads': [[('execute', 'gfw ( 1 )')], [('execute', 'max ( 4 , 9 )'), ('set_flag', 'F')]], 'probe': []})
    S.append({'id': 'operator-handler-waits', 'init': True, 'setup': [('register_prefix', '+++', wait_handler('G'))],
              'threads': [[('execute', '+++ 1')], [('execute', '- 1 + 2'), ('set_flag', 'G')]], 'probe': []})
    # two registrations of different names in the same registry (no update may be lost)
    S.append({'id': 'two-new-infix-registrations', 'init': True, 'setup': [],
              'threads': [[('register_infix', 'hi', 111, 'LEFT', T('HI'))], [('register_infix', 'lo', 109, 'LEFT', T('LO'))]],
              'probe': [('execute', '1 hi 2'), ('execute', '1 lo 2')]})
    S.append({'id': 'two-new-function-registrations', 'init': True, 'setup': [],
              'threads': [[('register_function', 'f', T('F'))], [('register_function', 'g', T('G'))]], 'probe': [('execute', 'f ( )'), ('execute', 'g ( )')]})
    S.append({'id': 'two-new-prefix-registrations', 'init': True, 'setup': [],
              'threads': [[('register_prefix', '+++', T('PPP'))], [('register_prefix', '!!!', T('NNN'))]], 'probe': [('execute', '+++ 1'), ('execute', '!!! 1')]})
    S.append({'id': 'two-new-postfix-registrations', 'init': True, 'setup': [],
              'threads': [[('register_postfix', '---', T('MMM'))], [('register_postfix', '+++', T('PPP'))]], 'probe': [('execute', '1 ---'), ('execute', '1 +++')]})
    # a thread that has already seen a spelling while it was not an operator; another thread registers it; the first
    # thread looks again (its second look is ordered after the registration by the flag)
    S.append({'id': 'seen-before-registered-elsewhere-infix', 'init': True, 'setup': [('register_function', 'gfw', wait_handler('R'))],
              'threads': [[('parse', '1 zz 2'), ('execute', 'gfw ( 1 )'), ('parse', '1 zz 2')], [('register_infix', 'zz', 100, 'LEFT', T('ZZ')), ('set_flag', 'R')]],
              'probe': [('parse', '1 zz 2')]})
    S.append({'id': 'seen-before-registered-elsewhere-prefix', 'init': True, 'setup': [('register_function', 'gfw', wait_handler('R'))],
              'threads': [[('execute', '+++ 1'), ('execute', 'gfw ( 1 )'), ('execute', '+++ 1')], [('register_prefix', '+++', T('PPP')), ('set_flag', 'R')]],
              'probe': [('execute', '+++ 1')]})
    S.append({'id': 'called-before-reregistered-elsewhere-function', 'init': True,
              'setup': [('register_function', 'f', T('F1')), ('register_prefix', '+++', wait_handler('R'))],
              'threads': [[('execute', 'f ( )'), ('execute', '+++ 1'), ('execute', 'f ( )')], [('register_function', 'f', T('F2')), ('set_flag', 'R')]],
              'probe': [('execute', 'f ( )')]})
    # an operator looked up while an operand that looks up the same registry is being evaluated, racing with a registration
    # in that registry (reader-writer locks that prefer writers deadlock on the nested read)
    S.append({'id': 'nested-postfix-vs-register-postfix', 'init': True, 'setup': [],
              'threads': [[('execute', '( 1 ++ ) ++')], [('register_postfix', '+++', T('PPP'))]], 'probe': [('execute', '1 +++')]})
    S.append({'id': 'nested-prefix-vs-register-prefix', 'init': True, 'setup': [],
              'threads': [[('execute', '- - 1')], [('register_prefix', '+++', T('PPP'))]], 'probe': [('execute', '+++ 1')]})
    S.append({'id': 'nested-call-vs-register-function', 'init': True, 'setup': [],
              'threads': [[('execute', 'max ( min ( 1 , 2 ) , 3 )')], [('register_function', 'f', T('F'))]], 'probe': [('execute', 'f ( )')]})
    if tier == 'thorough':
        S.append({'id': 'three-first-uses', 'init': False, 'setup': [], 'threads': [[('register_function', 'mul', T('MY-mul'))], [('execute', '1 + 2')], [('execute', 'max ( 1 , 2 )')]],
                  'probe': [('execute', 'mul ( 2 , 3 )')]})
    return S


def reset(it, snap):
    for k in list(it.statics):
        if k in snap:
            it.statics[k].v = snap[k]
        else:
            del it.statics[k]


def sequential_results(it, sc, snap):
    """results under every sequential order of the calls that preserves per-thread order"""
    threads = sc['threads']
    idx = []
    for t, calls in enumerate(threads):
        idx += [t] * len(calls)
    allowed = []
    for order in sorted(set(itertools.permutations(idx))):
        reset(it, snap)
        WAIT_STATE.clear()
        if sc['init']:
            it.call('init::init', [])
        for c in sc['setup']:
            run_call(it, c)
        pos = [0] * len(threads)
        res = [[] for _ in threads]
        try:
            for t in order:
                res[t].append(run_call(it, threads[t][pos[t]]))
                pos[t] += 1
            probe = [run_call(it, c) for c in sc['probe']]
        except SeqBlocked:
            continue
        allowed.append((order, json.dumps([res, probe], sort_keys=True)))
    return allowed


SHARED = {}      # set before the worker pool is forked (closures and the engine are not picklable)


def harness(it, px, params):
    S = SHARED['scenarios']
    k = pick_config(px, 'scenario', len(S))
    sc = S[k]
    px.notes.append(sc['id'])
    rec = {'scenario': sc['id']}
    snap = {}        # the exploration starts every path from an unused engine (no statics yet)
    it.sched = None
    it.thread = 0
    allowed = sequential_results(it, sc, snap)
    rec['sequential_orders'] = len(allowed)
    # concurrent run
    reset(it, snap)
    WAIT_STATE.clear()
    if sc['init']:
        it.call('init::init', [])
    for c in sc['setup']:
        run_call(it, c)
    s = sch.Sched(px, SHARED['engine'], it.statics, max_preempt=params['preempt'])
    for calls in sc['threads']:
        s.add_thread(calls, run_call)
    s.run()
    rec['schedule'] = s.trace
    rec['preemptions'] = s.preemptions
    px.cover('scenario-' + sc['id'])
    if s.preemptions:
        px.cover('preempted')
    if s.deadlock:
        rec['outcome'] = 'deadlock'
        px.finding({'key': 'C13|deadlock|%s' % sc['id'], 'desc': 'scenario %s: %s (schedule %s)' % (sc['id'], s.deadlock, s.trace), 'scenario': sc['id'], 'cause': 'deadlock'})
        return rec
    res = [t.results for t in s.threads]
    it.sched = None
    probe = [run_call(it, c) for c in sc['probe']]
    got = json.dumps([res, probe], sort_keys=True)
    rec['outcome'] = 'ok'
    rec['results'] = [res, probe]
    if got not in [a for _, a in allowed]:
        kinds = [r.get('kind') for rs in res for r in rs] + [r.get('kind') for r in probe]
        cause = 'panic' if 'panic' in kinds else ('not-serializable')
        px.finding({'key': 'C13|%s|%s' % (cause, sc['id']), 'desc': 'scenario %s under schedule %s gives %s, which no sequential order of the calls gives' % (sc['id'], s.trace, got[:300]),
                    'scenario': sc['id'], 'cause': cause, 'got': [res, probe]})
    return rec


# ------------------------------------------------------------------ native confirmation

def native_steps(c, ctxname):
    k = c[0]

    def hspec(h):
        tag = h.tag
        if tag.startswith('wait-'):
            return {'h': 'wait_flag', 'flag': tag[5:], 'ms': 1500, 'id': tag}
        return {'h': 'const', 'value': {'t': 'str', 'hex': tag.encode().hex()}, 'id': tag}
    if k == 'execute':
        return [{'op': 'ctx_new', 'ctx': ctxname}, {'op': 'execute', 'hex': c[1].encode().hex(), 'ctx': ctxname}]
    if k == 'parse':
        return [{'op': 'parse', 'hex': c[1].encode().hex(), 'want': ['ast']}]
    if k == 'register_function':
        return [{'op': 'register_function', 'name': c[1].encode().hex(), 'handler': hspec(c[2])}]
    if k == 'register_prefix':
        return [{'op': 'register_prefix', 'name': c[1].encode().hex(), 'handler': hspec(c[2])}]
    if k == 'register_postfix':
        return [{'op': 'register_postfix', 'name': c[1].encode().hex(), 'handler': hspec(c[2])}]
    if k == 'register_infix':
        return [{'op': 'register_infix', 'name': c[1].encode().hex(), 'prec': c[2], 'type': 'CALC', 'assoc': c[3], 'handler': hspec(c[4])}]
    if k == 'set_flag':
        return [{'op': 'set_flag', 'flag': c[1]}]
    raise ValueError(k)


def native_scenario(sc, extra_threads=0):
    steps = []
    if sc['init']:
        steps.append({'op': 'parse', 'hex': b'1'.hex(), 'want': []})
    for c in sc['setup']:
        steps += native_steps(c, 's')
    ths = []
    for t, calls in enumerate(sc['threads']):
        l = []
        for j, c in enumerate(calls):
            l += native_steps(c, 't%d_%d' % (t, j))
        ths.append(l)
    for e in range(extra_threads):
        ths.append([{'op': 'ctx_new', 'ctx': 'x%d' % e}, {'op': 'execute', 'hex': b'1 + 2'.hex(), 'ctx': 'x%d' % e}])
    steps.append({'op': 'threads', 'threads': ths, 'ms': 4000})
    for j, c in enumerate(sc['probe']):
        steps += native_steps(c, 'p%d' % j)
    return steps


def simplify_obs(o):
    if o.get('kind') == 'ok':
        if 'value' in o:
            return {'kind': 'ok', 'value': o['value']}
        if 'ast' in o:
            return {'kind': 'ok', 'ast': o['ast']}
        return {'kind': 'ok'}
    if o.get('kind') == 'err':
        return {'kind': 'err', 'variant': o.get('variant')}
    return {'kind': o.get('kind')}


def native_result(sc, obs):
    """-> comparable JSON of a native run, in the same shape as the model's [thread results, probe]"""
    steps = native_scenario(sc)
    ti = [i for i, s in enumerate(steps) if s['op'] == 'threads'][0]
    tob = obs[ti]
    if tob.get('kind') != 'ok':
        return tob.get('kind'), None
    res = []
    for t, calls in enumerate(sc['threads']):
        r = tob['results'][t]
        out = []
        p = 0
        for c in calls:
            n = len(native_steps(c, 'x'))
            out.append(simplify_obs(r[p + n - 1]) if p + n - 1 < len(r) else {'kind': 'missing'})
            p += n
        res.append(out)
    probe = []
    p = ti + 1
    for c in sc['probe']:
        n = len(native_steps(c, 'x'))
        probe.append(simplify_obs(obs[p + n - 1]))
        p += n
    return 'ok', json.dumps([res, probe], sort_keys=True)


def run(ctx):
    S = scenarios(ctx.tier)
    eng = ctx.engine('dev')
    SHARED['scenarios'] = S
    SHARED['engine'] = eng
    params = {'preempt': 2, 'seed': ctx.seed, 'timeout_ms': 10000, 'step_limit': 5_000_000, 'wall_budget': 900}
    recs, summ = ex.explore(eng, harness, params, prepare=None)
    if ctx.tier == 'thorough':
        # thorough = the complete 2-preemption exploration above, then 3 preemptions for as long as the budget lasts
        recs3, summ3 = ex.explore(eng, harness, dict(params, preempt=3, wall_budget=1500), prepare=None)
        recs += recs3
        for k in ('paths', 'sat', 'unsat', 'unknown', 'solver_s', 'steps', 'decisions'):
            summ[k] += summ3[k]
        summ['truncated'] = summ.get('truncated') or summ3.get('truncated')
        summ['models_used'] = sorted(set(summ['models_used']) | set(summ3['models_used']))
        summ['bodies_used'] = sorted(set(summ['bodies_used']) | set(summ3['bodies_used']))
        params = dict(params, preempt=3)
    inconclusive = []
    by_status = {}
    for r in recs:
        by_status[r['status']] = by_status.get(r['status'], 0) + 1
        if r['status'] in ('unsupported', 'inconclusive'):
            inconclusive.append('%s: %s %s %s' % (r['status'], r.get('detail'), r.get('where', ''), r.get('notes')))
    inconclusive = sorted(set(inconclusive))[:20]
    covers = set()
    for r in recs:
        covers.update(r.get('covers', []))
    for sc in S:
        if 'scenario-' + sc['id'] not in covers:
            inconclusive.append('vacuity: scenario %s never completed' % sc['id'])
    if 'preempted' not in covers:
        inconclusive.append('vacuity: no schedule with a preemption was explored')
    groups = {}
    for r in recs:
        for f in r.get('findings', []):
            groups.setdefault(f['key'], []).append(f)
    findings = []
    validated = 0
    byid = {sc['id']: sc for sc in S}
    it = eng.new_interp()
    for key, fs in sorted(groups.items()):
        f = fs[0]
        sc = byid[f['scenario']]
        allowed = set(a for _, a in sequential_results(it, sc, {}))
        steps = native_scenario(sc, extra_threads=4 if not sc['init'] else 0)
        confirmed = False
        last = None
        trials = 2400
        ti = [j for j, st in enumerate(steps) if st['op'] == 'threads'][0]
        for i in range(trials):
            # sweep the relative start of the threads: 0 .. 30 us in 50 ns steps, either thread first (dev and release alternate)
            off = (i // 4 % 600) * 50
            steps[ti]['stagger_ns'] = [off, 0] if i % 4 < 2 else [0, off]
            obs = ctx.native(steps, 'dev' if i % 2 == 0 else 'release', timeout=30)
            validated += 1
            kind, js = native_result(sc, obs)
            last = (kind, js)
            if kind != 'ok' or js not in allowed:
                confirmed = True
                break
        findings.append({'key': key, 'desc': f['desc'][:300], 'confirmed': confirmed, 'scenario': steps,
                         'expect': {'one_of_sequential_results': sorted(allowed)[:6], 'native_trials': trials},
                         'witness_text': '%s (a schedule-dependent failure: replayed %d fresh processes)' % (f['scenario'], i + 1),
                         'native': {'last': last}, 'id': sid([key]), 'count': len(fs)})
    # sampled native validation: a native run of each scenario gives a serializable result
    for sc in S:
        allowed = set(a for _, a in sequential_results(it, sc, {}))
        obs = ctx.native(native_scenario(sc), 'dev', timeout=30)
        validated += 1
        kind, js = native_result(sc, obs)
        if (kind != 'ok' or js not in allowed) and not any(f['key'].endswith(sc['id']) for f in findings):
            inconclusive.append('native run of scenario %s is not serializable but the model found no bad schedule: %s %s' % (sc['id'], kind, (js or '')[:200]))
    samples = [{'scenario': r['scenario'], 'schedule': r.get('schedule'), 'preemptions': r.get('preemptions'), 'outcome': r.get('outcome')} for r in recs if r['status'] == 'done'][:: max(1, len(recs) // 25)][:30]
    per = {}
    for r in recs:
        if r['status'] == 'done':
            per[r['scenario']] = per.get(r['scenario'], 0) + 1
    ev = {
        'coverage': {
            'states': max(1, summ['paths']), 'transitions': max(1, summ['decisions']),
            'traces_validated_against_impl': validated, 'samples': samples, 'exhaustive': not summ.get('truncated') and not inconclusive,
            'bound': {'threads': 2 if ctx.tier == 'quick' else 3, 'preemptions_max': params['preempt'], 'scenarios': [sc['id'] for sc in S],
                      'schedules_explored_per_scenario': per, 'interleaving_points': 'Mutex::lock, OnceCell get/get_or_init/set, atomics, harness waits'},
            'path_status': by_status,
            'solver': {'engine': 'z3 ' + z3.get_version_string(), 'queries_sat': summ['sat'], 'queries_unsat': summ['unsat'],
                       'queries_unknown': summ['unknown'], 'solver_s': round(summ['solver_s'], 2)},
            'mir_steps': summ['steps'], 'workers': summ['workers'],
            'functions_encoded': summ['bodies_used'], 'library_models_used': summ['models_used'],
            'outside': ['more threads / more preemptions than the bound', 'weak-memory effects (sequential consistency is assumed; the crate has no unsafe code and uses only Mutex / OnceCell)',
                        'scenarios other than those listed'],
        },
        'assumptions': ['once_cell::sync::OnceCell: get_or_init runs the closure exactly once, other callers block while it runs', 'std::sync::Mutex: mutual exclusion, not re-entrant',
                        'interleaving only at synchronisation operations is sufficient for safe Rust (data-race freedom by typing)'],
    }
    return {'findings': findings, 'inconclusive': inconclusive, 'evidence': ev,
            'summary': 'schedules=%d scenarios=%d findings=%d' % (summ['paths'], len(S), len(findings))}
