"""C01 — parsing is total.

Symbolic input: every well-formed UTF-8 string of at most N bytes (all bytes symbolic; one
exploration root per (length, character-width shape)).  Encoded: parse_expression (tokenizer,
parser, registries), then on Ok: ExprAST::expr, ExprAST::describe and ExprAST::exec on an empty
context (= the public execute()).  Assertion: every path ends in Ok/Err — no Panic, Deadlock,
Abort or step-budget exhaustion.
"""
import json
import z3

from values import *
import api
import render
import explore as ex
from harness.common import *

ID = 'C01'
BOUNDS = {'quick': {'N': 3, 'NUM': 5, 'DIGITS': (27, 28, 29, 30, 31)}, 'thorough': {'N': 4, 'NUM': 7, 'DIGITS': tuple(range(8, 42))}}


def configs(N, NUM=0, DIGITS=()):
    cfgs = [(L, sh) for L in range(N + 1) for sh in compositions(L)]
    # number-shaped inputs: longer, every byte symbolic within the number-token alphabet 0-9 . e E + -
    cfgs += [(L, 'num') for L in range(N + 1, NUM + 1)]
    # long literals around the 96-bit mantissa limit: every byte a symbolic digit, optionally one '.' at a symbolic place
    cfgs += [(L, 'digits') for L in DIGITS]
    return cfgs


def digit_constraints(px, bs):
    dot = px.bv('dotpos', 8)        # index of the single '.', or >= len for none
    cs = []
    for i, b in enumerate(bs):
        isd = z3.And(z3.UGE(b, z3.BitVecVal(0x30, 8)), z3.ULE(b, z3.BitVecVal(0x39, 8)))
        cs.append(z3.If(dot == i, b == 0x2E, isd) if 0 < i < len(bs) - 1 else isd)
    cs.append(dot != 0)
    return cs


def numeric_constraints(bs):
    cs = []
    for b in bs:
        cs.append(z3.Or(z3.And(z3.UGE(b, z3.BitVecVal(0x30, 8)), z3.ULE(b, z3.BitVecVal(0x39, 8))),
                        b == 0x2E, b == 0x65, b == 0x45, b == 0x2B, b == 0x2D))
    # starts with a digit, so the whole input is one number token candidate
    if bs:
        cs.append(z3.And(z3.UGE(bs[0], z3.BitVecVal(0x30, 8)), z3.ULE(bs[0], z3.BitVecVal(0x39, 8))))
    return cs


def prepare(it):
    it.call('init::init', [])


def harness(it, px, params):
    cfgs = configs(params['N'], params.get('NUM', 0), params.get('DIGITS', ()))
    k = pick_config(px, 'cfg', len(cfgs))
    L, shape = cfgs[k]
    bs = [px.bv('b%d' % i, 8) for i in range(L)]
    if shape == 'num':
        for c in numeric_constraints(bs):
            px.add(c)
        shape = (1,) * L
        px.cover('numeric-family')
    elif shape == 'digits':
        for c in digit_constraints(px, bs):
            px.add(c)
        shape = (1,) * L
        px.cover('long-literal-family')
    else:
        for c in utf8_constraints(bs, shape):
            px.add(c)
    px.get_model()
    s = Str(tuple(bs))
    rec = {'len': L, 'shape': list(shape)}
    stage = 'parse'
    o = api.parse(it, s)
    outcome = o.kind
    if o.kind == 'ok':
        px.cover('parse-ok')
        ast = o.value
        rec['ast_kind'] = ast.name
        stage = 'expr'
        e = api.expr(it, ast)
        if e.kind == 'ret':
            stage = 'describe'
            e = api.describe(it, ast)
        if e.kind == 'ret':
            stage = 'exec'
            ctx = api.new_context(it)
            e = api.exec_ast(it, ast, ctx)
            if e.kind in ('ok', 'err'):
                rec['exec'] = e.kind if e.kind == 'ok' else render.error_variant(e.value)
                px.cover('exec-' + e.kind)
        if e.kind not in ('ret', 'ok', 'err'):
            o = e
            outcome = e.kind
    elif o.kind == 'err':
        px.cover('parse-err')
        rec['err'] = render.error_variant(o.value)
    if any(w > 1 for w in shape):
        px.cover('multibyte')
    m = px.get_model()
    wit = px.eval_bytes(m, bs)
    rec['witness'] = wit.hex()
    rec['outcome'] = outcome
    rec['stage'] = stage
    if outcome not in ('ok', 'err'):
        rec['detail'] = o.detail
        fn = innermost_crate_fn(o.where)
        cls = panic_class(o.detail) if outcome == 'panic' else outcome
        px.finding({'key': 'C01|%s|%s|%s|%s' % (stage, outcome, fn, cls),
                    'desc': '%s during %s: %s' % (outcome, stage, (o.detail or '')[:120]),
                    'witness': wit.hex(), 'stage': stage, 'outcome': outcome})
    return rec


def scenario_for(w, stage):
    if stage == 'exec':
        return [{'op': 'ctx_new', 'ctx': 'c'}, {'op': 'execute', 'hex': w, 'ctx': 'c'}]
    return [{'op': 'parse', 'hex': w}]


def native_outcome(obs, stage):
    """classify the native observation of one witness"""
    o = obs[-1]
    k = o.get('kind')
    if stage == 'exec':
        return k
    if k == 'ok':
        for fld in ('expr', 'describe'):
            v = o.get(fld)
            if isinstance(v, dict) and v.get('kind') == 'panic':
                return 'panic'
    return k


def run(ctx):
    N = BOUNDS[ctx.tier]['N']
    params = {'N': N, 'NUM': BOUNDS[ctx.tier]['NUM'], 'DIGITS': BOUNDS[ctx.tier]['DIGITS'], 'seed': ctx.seed, 'timeout_ms': 10000 if ctx.tier == 'quick' else 60000,
              'step_limit': 400000}
    eng = ctx.engine('dev')
    recs, summ = ex.explore(eng, harness, params, prepare=prepare)
    res = judge(ctx, recs, summ, params)
    # repetition families: nesting depth, chain length and run time as a function of the input size
    from harness import c01deep
    f2, inc2, ev2, summ2 = c01deep.run(ctx, eng)
    have = set(f['key'] for f in res['findings'])
    res['findings'] += [f for f in f2 if f['key'] not in have]
    res['inconclusive'] += inc2
    cov = res['evidence']['coverage']
    cov['repetition_families'] = ev2
    cov['states'] += summ2['paths']
    cov['transitions'] += summ2['decisions']
    cov['traces_validated_against_impl'] += ev2['native_runs']
    cov['exhaustive'] = cov['exhaustive'] and not inc2 and not ev2['truncated']
    cov['functions_encoded'] = sorted(set(cov['functions_encoded']) | set(summ2['bodies_used']))
    cov['library_models_used'] = sorted(set(cov['library_models_used']) | set(summ2['models_used']))
    res['summary'] = res['summary'].rsplit(' findings=', 1)[0] + ' findings=%d repetition-paths=%d growth-classes=%d' % (
        len(res['findings']), summ2['paths'], ev2['growth_classes_seen'])
    return res


def judge(ctx, recs, summ, params):
    inconclusive = []
    by_status = {}
    for r in recs:
        by_status[r['status']] = by_status.get(r['status'], 0) + 1
    for r in recs:
        if r['status'] in ('unsupported', 'inconclusive'):
            inconclusive.append('%s: %s %s' % (r['status'], r.get('detail'), r.get('where', '')))
    inconclusive = sorted(set(inconclusive))
    covers = set()
    for r in recs:
        covers.update(r.get('covers', []))
    for need in ('parse-ok', 'parse-err', 'multibyte', 'exec-ok', 'exec-err', 'numeric-family'):
        if need not in covers:
            inconclusive.append('vacuity: cover point %s never reached' % need)
    # group findings
    groups = {}
    for r in recs:
        for f in r.get('findings', []):
            groups.setdefault(f['key'], []).append(f)
    findings = []
    steps = []
    index = []
    for key, fs in sorted(groups.items()):
        fs = sorted(fs, key=lambda f: (len(f['witness']), f['witness']))
        for f in fs[:3]:
            sc = scenario_for(f['witness'], f['stage'])
            index.append((key, f, len(steps), len(sc)))
            steps.extend(sc)
    # plus: validate a sample of ordinary paths against the implementation
    done = [r for r in recs if r['status'] == 'done' and r.get('outcome') in ('ok', 'err')]
    done.sort(key=lambda r: r['witness'])
    stride = max(1, len(done) // (300 if ctx.tier == 'quick' else 1500))
    sample = done[::stride]
    sidx = []
    for r in sample:
        sc = [{'op': 'parse', 'hex': r['witness'], 'want': ['expr', 'describe']}]
        sidx.append((r, len(steps)))
        steps.extend(sc)
    validated = 0
    mismatches = []
    if steps:
        obs_dev = ctx.native(steps, 'dev', timeout=300)
        obs_rel = ctx.native(steps, 'release', timeout=300)
        per_key = {}
        for key, f, at, n in index:
            od = native_outcome(obs_dev[at:at + n], f['stage'])
            orl = native_outcome(obs_rel[at:at + n], f['stage'])
            bad = ('panic', 'crash', 'timeout', 'hang')
            confirmed = od in bad or orl in bad
            validated += 1
            cur = per_key.get(key)
            if cur is None or (confirmed and not cur['confirmed']):
                per_key[key] = {'key': key, 'desc': f['desc'], 'confirmed': confirmed,
                                'scenario': scenario_for(f['witness'], f['stage']),
                                'expect': {'step': n - 1, 'kind': 'panic'},
                                'witness_text': repr(bytes.fromhex(f['witness']).decode('utf-8', 'replace')),
                                'native': {'dev': obs_dev[at + n - 1], 'release': obs_rel[at + n - 1]},
                                'id': sid([key, f['witness']]), 'count': len(groups[key])}
        findings = list(per_key.values())
        for r, at in sidx:
            o = obs_dev[at]
            validated += 1
            want = r['outcome']
            got = o.get('kind')
            if got != want or (want == 'err' and o.get('variant') != r.get('err')):
                mismatches.append('input %s: model %s/%s native %s/%s' % (r['witness'], want, r.get('err'), got, o.get('variant')))
    for mm in mismatches[:10]:
        inconclusive.append('encoder mismatch on sampled path: ' + mm)
    outcomes = {}
    for r in recs:
        if r['status'] == 'done':
            k = r['outcome'] + ('/' + r['err'] if r.get('err') else '')
            outcomes[k] = outcomes.get(k, 0) + 1
    samples = []
    seen = set()
    for r in recs:
        if r['status'] == 'done':
            k = (r['outcome'], r.get('err'), r.get('ast_kind'))
            if k not in seen and len(samples) < 40:
                seen.add(k)
                samples.append({'input': bytes.fromhex(r['witness']).decode('utf-8', 'replace'), 'hex': r['witness'],
                                'outcome': r['outcome'], 'err': r.get('err'), 'ast': r.get('ast_kind'),
                                'decisions': r['decisions']})
    ev = {
        'coverage': {
            'states': max(1, summ['paths']), 'transitions': max(1, summ['decisions']),
            'traces_validated_against_impl': validated, 'samples': samples,
            'exhaustive': not summ.get('truncated') and not inconclusive,
            'bound': {'input_bytes_max': params['N'], 'utf8_shapes': len(configs(params['N'])),
                      'number_alphabet_family_bytes_max': params.get('NUM', 0),
                      'step_limit_per_path': params['step_limit']},
            'path_status': by_status, 'path_outcomes': outcomes,
            'solver': {'engine': 'z3 ' + z3.get_version_string(), 'queries_sat': summ['sat'], 'queries_unsat': summ['unsat'],
                       'queries_unknown': summ['unknown'], 'solver_s': round(summ['solver_s'], 2)},
            'mir_steps': summ['steps'], 'max_decision_depth': summ['max_depth'], 'workers': summ['workers'],
            'functions_encoded': summ['bodies_used'], 'library_models_used': summ['models_used'],
            'covers_hit': sorted(covers),
            'outside': ['inputs longer than %d bytes other than the number-shaped, long-literal and repetition families' % params['N'],
                        'stack use in bytes (the encoder counts frames; exhaustion itself is decided by the native replay at scale)',
                        'contexts other than the empty one for execute()'],
        },
        'assumptions': ['input is well-formed UTF-8 (guaranteed by &str)',
                        'library models of std/rust_decimal/once_cell as listed in library_models_used (validated by the conformance corpus and the sampled native replays)',
                        'registries hold exactly what the real init() registered (executed from MIR)'],
    }
    return {'findings': findings, 'inconclusive': inconclusive, 'evidence': ev,
            'summary': 'paths=%d decisions=%d solver=%.1fs findings=%d' % (summ['paths'], summ['decisions'], summ['solver_s'], len(findings))}
