"""C10 — tokens tile the input and carry the exact source text.

The private Tokenizer is driven to EOF from MIR on symbolic inputs:
  (U) every well-formed UTF-8 string of <= N bytes,
  (S) string-literal shaped inputs: quote, <= 2 symbolic characters (1-3 bytes each), quote, then <= 2 more symbolic bytes,
  (R) inputs around a freshly registered two-character symbolic operator whose characters are themselves symbolic
      (first an operator-start character, second any ASCII punctuation), with and without surrounding spaces.
Assertions on every Ok path: spans in bounds, on character boundaries, increasing, gaps are whitespace (z3 validity on the
byte variables), token text = the source slice (strings: between the quotes), and the token sequence equals the one a
reference tokenizer — the documented lexical rules, evaluated under the same path condition — produces.  On an error path
the reference must fail too.
"""
import json
import z3

from values import *
import api
import render
import models
import explore as ex
from harness.common import *
from harness import refparse as rf
from harness import refeval as re_

ID = 'C10'
OPSTART = b"+-*/^%&!=?:><|"
DELIMS = b"()[]{}"
WS = b" \t\r\n"
BOUNDS = {'quick': {'N': 3}, 'thorough': {'N': 4}}


class RefTokErr(Exception):
    pass


def prepare(it):
    it.call('init::init', [])


def ch_in(it, c, chars):
    """is char c (int or BV32) one of the ASCII bytes `chars`"""
    if not is_sym(c):
        return c < 128 and c in chars
    # reuse decisions the interpreted tokenizer already made on this path (its switchInt on the character
    # decided `c == k` terms): no new solver work when the class is already known
    px = it.x
    if px is not None:
        from interp import BVV
        undecided = []
        for k in chars:
            d = px.decided.get((c == BVV(k, 32)).get_id())
            if d is None:
                undecided.append(k)
            elif d[1]:
                return True
        if not undecided:
            return False
        chars = undecided
    return it.truth(z3.Or([c == z3.BitVecVal(k, 32) for k in chars]))


def ch_range(it, c, lo, hi):
    if not is_sym(c):
        return lo <= c <= hi
    return it.truth(z3.And(z3.UGE(c, z3.BitVecVal(lo, 32)), z3.ULE(c, z3.BitVecVal(hi, 32))))


def is_param(it, c):
    return ch_range(it, c, 0x30, 0x39) or ch_range(it, c, 0x61, 0x7A) or ch_range(it, c, 0x41, 0x5A) or ch_in(it, c, b'._')


def is_digitish(it, c):
    return ch_range(it, c, 0x30, 0x39) or ch_in(it, c, b'.-eE+')


def registry_words(extra):
    words = [w.encode() for w in list(rf.BUILTIN_INFIX) + list(rf.BUILTIN_PREFIX) + list(rf.BUILTIN_POSTFIX)] + [b'?', b':']
    return list(dict.fromkeys(words)) + list(extra)


def is_op_text(it, bs, words):
    for w in words:
        if len(w) == len(bs):
            eq = models.str_eq(it, tuple(bs), tuple(w))
            if eq is True or (eq is not False and it.truth(eq)):
                return True
    return False


def ref_tokenize(it, bs, words):
    """reference tokenizer: -> list of (kind, start, end); raises RefTokErr"""
    n = len(bs)
    out = []
    pos = 0

    def at(p):
        return models.decode_char(it, tuple(bs), p)
    while True:
        while pos < n:
            c, w = at(pos)
            if not ch_in(it, c, WS):
                break
            pos += w
        if pos >= n:
            return out
        c, w = at(pos)
        start = pos
        if ch_in(it, c, OPSTART):
            end = pos + w
            while end < n:
                c2, w2 = at(end)
                if is_op_text(it, bs[start:end + w2], words):
                    end += w2
                else:
                    break
            out.append(('Operator', start, end))
            pos = end
        elif ch_in(it, c, DELIMS):
            out.append(('Delim', start, start + 1))
            pos = start + 1
        elif ch_range(it, c, 0x30, 0x39):
            end = pos + w
            prev = c
            while end < n:
                c2, w2 = at(end)
                if ch_in(it, c2, b'+-') and not ch_in(it, prev, b'eE'):
                    break
                if not is_digitish(it, c2):
                    break
                prev = c2
                end += w2
            # must be a decimal literal: digits with at most one point
            seen_point = False
            has = False
            for b in bs[start:end]:
                if (isinstance(b, int) and 0x30 <= b <= 0x39) or (not isinstance(b, int) and it.truth(z3.And(z3.UGE(b, z3.BitVecVal(0x30, 8)), z3.ULE(b, z3.BitVecVal(0x39, 8))))):
                    has = True
                elif not seen_point and ((isinstance(b, int) and b == 0x2E) or (not isinstance(b, int) and it.truth(b == z3.BitVecVal(0x2E, 8)))):
                    seen_point = True
                else:
                    raise RefTokErr('invalid number')
            if not has:
                raise RefTokErr('invalid number')
            out.append(('Number', start, end))
            pos = end
        elif ch_in(it, c, b'"\''):
            end = pos + w
            closed = False
            while end < n:
                c2, w2 = at(end)
                end += w2
                same = (c2 == c) if (not is_sym(c2) and not is_sym(c)) else it.truth(models.to_bv(c2, 32) == models.to_bv(c, 32))
                if same:
                    closed = True
                    break
            if not closed:
                raise RefTokErr('unterminated string')
            out.append(('String', start, end))
            pos = end
        elif ch_in(it, c, b';'):
            out.append(('Semicolon', start, start + 1))
            pos = start + 1
        elif ch_in(it, c, b','):
            out.append(('Comma', start, start + 1))
            pos = start + 1
        else:
            # word-operator probe: up to whitespace / delimiter
            end = pos + w
            while end < n:
                c2, w2 = at(end)
                if ch_in(it, c2, WS) or ch_in(it, c2, DELIMS):
                    break
                end += w2
            if is_op_text(it, bs[start:end], words):
                out.append(('Operator', start, end))
                pos = end
                continue
            end = pos + w
            while end < n:
                c2, w2 = at(end)
                if not is_param(it, c2):
                    break
                end += w2
            text = bs[start:end]
            isbool = False
            for kw in (b'true', b'True', b'false', b'False'):
                if len(kw) == len(text):
                    eq = models.str_eq(it, tuple(text), tuple(kw))
                    if eq is True or (eq is not False and it.truth(eq)):
                        isbool = True
            if isbool:
                out.append(('Bool', start, end))
            else:
                # a name followed (after optional whitespace) by `(` is a function name
                p = end
                while p < n:
                    c2, w2 = at(p)
                    if not ch_in(it, c2, WS):
                        break
                    p += w2
                isfn = False
                if p < n:
                    c2, w2 = at(p)
                    isfn = ch_in(it, c2, b'(')
                out.append(('Function' if isfn else 'Reference', start, end))
            pos = end


def harness(it, px, params):
    N = params['N']
    cfgs = [('U', L, sh) for L in range(N + 1) for sh in compositions(L)]
    if params.get('thorough'):
        inners, tails = compositions(1) + compositions(2) + compositions(3) + [(2, 2), (3, 1), (1, 3)], (0, 1, 2)
    else:
        inners, tails = [(1,), (2,), (3,), (1, 1), (2, 1), (1, 2), (3, 1), (2, 2)], (0, 1)
    for inner in inners:
        for tail in tails:
            cfgs.append(('S', inner, tail))
        if not params.get('thorough') and sum(inner) >= 3:
            cfgs.append(('S', inner, 2))
    # a freshly registered operator: symbolic two-character symbol or two-letter word; registered as infix, prefix or
    # postfix operator; 'pre' = the same text is tokenized once *before* the registration (stale caches)
    for layout in ('a@b', 'a @ b', 'a@@b', '1@2', 'a@=b', '@a'):
        cfgs.append(('R', layout, ('infix', False, 'sym')))
        for kind in ('infix', 'prefix', 'postfix'):
            cfgs.append(('R', layout, (kind, True, 'sym')))
    for layout in ('a @ b', '1 @', '@ a', '1@', 'a @@ b'):
        for kind in ('infix', 'prefix', 'postfix'):
            cfgs.append(('R', layout, (kind, True, 'word')))
    # an operator that is one two-byte character (e.g. a mathematical sign), followed by more input
    for layout in ('a @ bcd', '@ 169', 'a@ b', '1 @ 2 @ 3'):
        for kind in ('infix', 'prefix'):
            cfgs.append(('R', layout, (kind, False, 'mb')))
    # an operator of three symbol characters whose two-character beginning (written '#') occurs in the input without the
    # third character: the beginning alone is or is not an operator of its own (both are explored)
    for layout in ('a#1', 'a # b', 'a#b @ c', '1 #', 'a@b'):
        cfgs.append(('R', layout, ('infix', False, 'sym3')))
    cfgs.append(('R', 'a#1', ('postfix', True, 'sym3')))
    cfgs.append(('R', 'a#b', ('prefix', False, 'sym3')))
    # a word operator of four three-byte characters (12 bytes, 4 characters: longer in bytes than any built-in operator
    # is in characters) and one of two (6 bytes), as written by users of non-Latin scripts
    for layout in ('a @ b', '1 @', '@ a'):
        for kind in ('infix', 'prefix', 'postfix'):
            cfgs.append(('R', layout, (kind, False, 'cjk4')))
    cfgs.append(('R', 'a @ b', ('infix', True, 'cjk2')))
    k = pick_config(px, 'cfg', len(cfgs))
    fam, p1, p2 = cfgs[k]
    px.notes.append('%s %s %s' % (fam, p1, p2))
    extra_words = []
    if fam == 'U':
        L, shape = p1, p2
        bs = [px.bv('b%d' % i, 8) for i in range(L)]
        for c in utf8_constraints(bs, shape):
            px.add(c)
    elif fam == 'S':
        q = px.bv('q', 8)
        px.add(z3.Or(q == 0x22, q == 0x27))
        inner = [px.bv('s%d' % i, 8) for i in range(sum(p1))]
        for c in utf8_constraints(inner, p1):
            px.add(c)
        tail = [px.bv('t%d' % i, 8) for i in range(p2)]
        for b in tail:
            px.add(z3.ULE(b, z3.BitVecVal(0x7F, 8)))
        bs = [q] + inner + [q] + tail
    else:
        kind, pre, alpha = p2
        c1 = px.bv('op1', 8)
        c2 = px.bv('op2', 8)
        if alpha in ('cjk4', 'cjk2'):
            pass
        elif alpha in ('sym', 'sym3'):
            px.add(z3.Or([c1 == z3.BitVecVal(x, 8) for x in OPSTART]))
            # second character: ASCII punctuation that is not a delimiter, quote, comma or semicolon
            punct = [x for x in range(0x21, 0x7F) if not chr(x).isalnum() and x not in DELIMS and x not in b'"\',;_.']
            px.add(z3.Or([c2 == z3.BitVecVal(x, 8) for x in punct]))
            if alpha == 'sym3':
                c3 = px.bv('op3', 8)
                px.add(z3.Or([c3 == z3.BitVecVal(x, 8) for x in punct]))
        elif alpha == 'mb':
            c3 = px.bv('op3', 8)
            for c in utf8_constraints([c1, c2, c3], (3,)):
                px.add(c)
        else:
            for c in (c1, c2):
                px.add(z3.Or(z3.And(z3.UGE(c, z3.BitVecVal(0x61, 8)), z3.ULE(c, z3.BitVecVal(0x7A, 8))),
                             z3.And(z3.UGE(c, z3.BitVecVal(0x41, 8)), z3.ULE(c, z3.BitVecVal(0x5A, 8)))))
        px.get_model()
        opb = (c1, c2, c3) if alpha in ('mb', 'sym3') else (c1, c2)
        if alpha in ('cjk4', 'cjk2'):
            opb = tuple('\u5927\u4e8e\u7b49\u4e8e'.encode() if alpha == 'cjk4' else '\u4e0d\u5c0f'.encode())
        opname = Str(opb)
        # the operator must not already be a built-in one (we want a *new* registration)
        for wd in registry_words([]):
            if len(wd) == len(opb):
                px.add(z3.Not(z3.And([c == w for c, w in zip(opb, wd)])))
        px.get_model()
        bs = []
        for ch in p1:
            if ch == '@':
                bs += list(opb)
            elif ch == '#':
                bs += list(opb[:2])
            else:
                bs.append(ord(ch))
        if pre:
            api.tokenize(it, Str(tuple(bs)))
            px.cover('tokenized-before-registration')
        H = ArcV(Cell(PyFn(lambda i, a: Ok(api.V_num(1, 0)), 'h'), 'h'))
        if kind == 'infix':
            it.call('register_infix_op', [opname, 100, Enum('InfixOpType', 0, 'CALC'), Enum('InfixOpAssociativity', 0, 'LEFT'), H])
        elif kind == 'prefix':
            it.call('register_prefix_op', [opname, H])
        else:
            it.call('register_postfix_op', [opname, H])
        px.cover('registered-' + kind)
        extra_words = [opb]
    px.get_model()
    words = registry_words(extra_words)
    rec = {'family': fam, 'len': len(bs)}
    t = api.tokenize(it, Str(tuple(bs)))
    rec['outcome'] = t.kind
    want = None
    want_err = None
    try:
        want = ref_tokenize(it, bs, words)
    except RefTokErr as e:
        want_err = str(e)
    m = px.get_model()
    wit = px.eval_bytes(m, bs)
    rec['witness'] = wit.hex()
    if fam == 'R':
        rec['op'] = px.eval_bytes(m, list(extra_words[0])).hex()
        rec['reg'] = [p2[0], p2[1]]
    px.cover('fam-' + fam)
    problems = []
    if t.kind not in ('ok', 'err'):
        problems.append(('tokenizer-%s' % t.kind, '%s: %s' % (t.kind, t.detail)))
    elif t.kind == 'err':
        px.cover('err')
        if want is not None:
            problems.append(('rejects-tokenizable', 'the tokenizer fails (%s) on an input the lexical rules tokenize as %s' % (render.error_variant(t.value), [w[0] for w in want])))
    else:
        px.cover('ok')
        got = []
        prev_end = 0
        n = len(bs)
        for tok in t.value:
            kind, payload, a, b = api.token_tuple(tok)
            a, b = px.eval_int(m, a), px.eval_int(m, b)
            got.append((kind, a, b))
            if not (0 <= a < b <= n):
                problems.append(('span-out-of-bounds', 'token %s spans %d..%d of %d bytes' % (kind, a, b, n)))
                break
            if a < prev_end:
                problems.append(('span-overlap', 'token %s starts at %d before the previous end %d' % (kind, a, prev_end)))
                break
            for pos_ in (a, b):
                if 0 < pos_ < n:
                    x = bs[pos_]
                    okb, _ = px.check(z3.Or(z3.ULT(x, z3.BitVecVal(0x80, 8)), z3.UGT(x, z3.BitVecVal(0xBF, 8))) if not isinstance(x, int) else not (0x80 <= x <= 0xBF))
                    if not okb:
                        problems.append(('span-not-char-boundary', 'token %s boundary %d is inside a character' % (kind, pos_)))
            gap = bs[prev_end:a]
            for x in gap:
                okb, cm = px.check(z3.Or([x == z3.BitVecVal(wc, 8) for wc in WS]) if not isinstance(x, int) else x in WS)
                if not okb:
                    problems.append(('byte-lost', 'a non-whitespace byte between tokens (before %s at %d) belongs to no token' % (kind, a)))
                    m = cm or m
                    break
            # text = source slice
            if kind in ('Operator', 'Reference', 'Function', 'Comma', 'Semicolon', 'String'):
                src = bs[a + 1:b - 1] if kind == 'String' else bs[a:b]
                tb = render.deref(payload).b
                eq = re_.bytes_eq(tuple(tb), tuple(src))
                okb, cm = px.check(eq)
                if not okb:
                    problems.append(('text-not-slice', 'the text of token %s is not the source slice %d..%d' % (kind, a, b)))
                    m = cm or m
            prev_end = b
        for x in bs[prev_end:]:
            okb, cm = px.check(z3.Or([x == z3.BitVecVal(wc, 8) for wc in WS]) if not isinstance(x, int) else x in WS)
            if not okb:
                problems.append(('byte-lost', 'a non-whitespace byte after the last token belongs to no token'))
                m = cm or m
                break
        if want is None:
            problems.append(('accepts-untokenizable', 'the tokenizer succeeds on an input the lexical rules reject (%s)' % want_err))
        elif got != want:
            problems.append(('classification', 'tokens %s, the lexical rules give %s' % (got, want)))
        rec['tokens'] = got
    wit = px.eval_bytes(m, bs)
    rec['witness'] = wit.hex()
    for cause, desc in problems[:2]:
        px.finding({'key': 'C10|%s|%s' % (cause, fam if fam != 'R' else 'R:' + p1 + ':' + p2[0] + (':after-first-use' if p2[1] else '')),
                    'desc': '%r%s: %s' % (wit.decode('utf-8', 'replace'), (' with %s registered as %s operator%s' % (
                        bytes.fromhex(rec['op']).decode(), p2[0], ' after the text was tokenized once' if p2[1] else '')) if fam == 'R' else '', desc),
                    'witness': wit.hex(), 'op': rec.get('op'), 'reg': rec.get('reg'), 'cause': cause, 'family': fam})
    return rec


def concrete_ref(text, op):
    """reference tokens of a concrete input (no exploration context needed)"""
    class _It:
        x = None

        def truth(self, c):
            c = z3.simplify(c) if is_sym(c) else c
            return c if isinstance(c, bool) else z3.is_true(c)
    words = registry_words([tuple(op)] if op else [])
    try:
        return [list(x) for x in ref_tokenize(_It(), list(text), words)]
    except RefTokErr as e:
        return 'err'


def scenario(wit, op, reg=None):
    steps = []
    if op:
        kind, pre = reg or ('infix', False)
        if pre:
            steps.append({'op': 'tokenize', 'hex': wit})
        hs = {'h': 'const', 'value': {'t': 'num', 'm': '1', 's': 0}}
        if kind == 'infix':
            steps.append({'op': 'register_infix', 'name': op, 'prec': 100, 'type': 'CALC', 'assoc': 'LEFT', 'handler': hs})
        else:
            steps.append({'op': 'register_' + kind, 'name': op, 'handler': hs})
    steps.append({'op': 'tokenize', 'hex': wit})
    return steps


def native_tokens(o):
    if o.get('kind') != 'ok':
        return 'err' if o.get('kind') == 'err' else o.get('kind')
    return [[t['kind'], t['start'], t['end']] for t in o['tokens']]


def run(ctx):
    N = BOUNDS[ctx.tier]['N']
    params = {'N': N, 'thorough': ctx.tier == 'thorough', 'seed': ctx.seed, 'timeout_ms': 10000 if ctx.tier == 'quick' else 60000, 'step_limit': 400000}
    eng = ctx.engine('dev')
    recs, summ = ex.explore(eng, harness, params, prepare=prepare)
    inconclusive = []
    by_status = {}
    for r in recs:
        by_status[r['status']] = by_status.get(r['status'], 0) + 1
        if r['status'] in ('unsupported', 'inconclusive'):
            inconclusive.append('%s: %s %s %s' % (r['status'], r.get('detail'), r.get('where', ''), r.get('notes')))
    inconclusive = sorted(set(inconclusive))[:20]
    covers = set()
    for r in recs:
        covers.update(r.get('covers', []))
    for need in ('fam-U', 'fam-S', 'fam-R', 'ok', 'err', 'tokenized-before-registration', 'registered-infix', 'registered-prefix', 'registered-postfix'):
        if need not in covers:
            inconclusive.append('vacuity: cover %s not reached' % need)
    groups = {}
    for r in recs:
        for f in r.get('findings', []):
            groups.setdefault(f['key'], []).append(f)
    findings = []
    validated = 0
    for key, fs in sorted(groups.items()):
        conf = None
        for f in sorted(fs, key=lambda f: (len(f['witness']), f['witness']))[:4]:
            sc = scenario(f['witness'], f.get('op'), f.get('reg'))
            od = ctx.native(sc, 'dev')[-1]
            validated += 1
            want = concrete_ref(bytes.fromhex(f['witness']), bytes.fromhex(f['op']) if f.get('op') else None)
            got = native_tokens(od)
            bad = got != want
            if od.get('kind') == 'ok' and not bad:
                # spans agree with the reference: check the texts too
                raw = bytes.fromhex(f['witness'])
                for t in od['tokens']:
                    sl = raw[t['start']:t['end']]
                    if t['kind'] == 'String':
                        sl = sl[1:-1]
                    if t['kind'] != 'Delim' and bytes.fromhex(t['hex']) != sl:
                        bad = True
            conf = (f, sc, od, want, bad)
            if bad:
                break
        f, sc, od, want, bad = conf
        findings.append({'key': key, 'desc': f['desc'][:300], 'confirmed': bool(bad), 'scenario': sc, 'expect': {'tokens': want},
                         'witness_text': repr(bytes.fromhex(f['witness']).decode('utf-8', 'replace')) + (' op=' + bytes.fromhex(f['op']).decode() if f.get('op') else ''),
                         'native': {'dev': od}, 'id': sid([key, f['witness']]), 'count': len(fs)})
    done = [r for r in recs if r['status'] == 'done' and not r.get('findings') and r['family'] != 'R']
    sample = done[:: max(1, len(done) // (200 if ctx.tier == 'quick' else 1000))]
    if sample:
        obs = ctx.native([{'op': 'tokenize', 'hex': r['witness']} for r in sample], 'dev', timeout=200)
        for r, o in zip(sample, obs):
            validated += 1
            nt = native_tokens(o)
            if (r['outcome'] == 'ok') != (o.get('kind') == 'ok') or (r['outcome'] == 'ok' and nt != [list(x) for x in r['tokens']]):
                inconclusive.append('encoder mismatch on sampled input %s: model %s native %s' % (r['witness'], r.get('tokens') or r['outcome'], nt))
    samples = []
    seen = set()
    for r in recs:
        if r['status'] == 'done' and r.get('tokens') and (r['family'], len(r['tokens'])) not in seen:
            seen.add((r['family'], len(r['tokens'])))
            samples.append({'family': r['family'], 'input': bytes.fromhex(r['witness']).decode('utf-8', 'replace'), 'tokens': r['tokens']})
    ev = {
        'coverage': {
            'states': max(1, summ['paths']), 'transitions': max(1, summ['decisions']),
            'traces_validated_against_impl': validated, 'samples': samples[:30], 'exhaustive': not summ.get('truncated') and not inconclusive,
            'bound': {'utf8_input_bytes_max': N, 'string_family': 'quote + <=2 characters (1-3 bytes each, symbolic) + quote + <=2 ASCII bytes',
                      'registered_operator_family': 'two symbolic characters (operator-start char + ASCII punctuation; or two letters = a word operator) registered as infix / prefix / postfix operator, before first use and after the text was tokenized once, in layouts a@b, a @ b, a@@b, 1@2, a@=b, @a, 1 @, @ a, 1@, a @@ b; three symbolic symbol characters (# = the first two of them) in layouts a#1, a # b, a#b @ c, 1 #, a@b, a#b; the concrete word operators \u5927\u4e8e\u7b49\u4e8e (12 bytes) and \u4e0d\u5c0f in layouts a @ b, 1 @, @ a'},
            'path_status': by_status,
            'solver': {'engine': 'z3 ' + z3.get_version_string(), 'queries_sat': summ['sat'], 'queries_unsat': summ['unsat'],
                       'queries_unknown': summ['unknown'], 'solver_s': round(summ['solver_s'], 2)},
            'mir_steps': summ['steps'], 'workers': summ['workers'],
            'functions_encoded': summ['bodies_used'], 'library_models_used': summ['models_used'], 'covers_hit': sorted(covers),
            'outside': ['inputs longer than the bounds', 'registered operators longer than three characters'],
        },
        'assumptions': ['reference tokenizer = the documented lexical rules as written in this file (probe for word operators up to whitespace or a delimiter ()[]{}; identifier characters [0-9A-Za-z._] after an arbitrary first character; number run 0-9 . e E and +/- only after e/E)',
                        'library models validated by the conformance corpus and sampled native replays'],
    }
    return {'findings': findings, 'inconclusive': inconclusive, 'evidence': ev,
            'summary': 'paths=%d findings=%d' % (summ['paths'], len(findings))}
