"""C07 — each subexpression runs once, left to right; conditionals are lazy; evaluation stops at
the first error (see harness/evalsem.py).

Leaves are observable context functions (called as `f()` or through the bare name `g`) that log
their invocation; an error is injected at the e-th invocation (e symbolic over 0..n, 0 = none).
The model's call log must equal the reference interpreter's log exactly; result and final Context
are compared too (nothing to the right of the failure is evaluated, called or assigned).
"""
import z3
from values import *
import api
import explore as ex
from harness.common import *
from harness import evalsem as es
from harness import symval as sv
from harness import opsem
from harness import c06

ID = 'C07'
T = es.T


def templates(tier):
    sp = opsem.spec
    num = sp(['num'], (0,))
    boo = sp(['bool'])
    out = []

    def add(tid, text, funcs, vars_=None, n=None):
        out.append((tid, T(text), vars_ or {}, funcs, n if n is not None else len(funcs)))
    F = lambda k: {('f%d' % i): num for i in range(1, k + 1)}
    add('binary', 'f1 ( ) + f2 ( )', F(2))
    add('binary3', 'f1 ( ) - f2 ( ) * f3 ( )', F(3))
    add('binary-paren', '( f1 ( ) + f2 ( ) ) * ( f3 ( ) - f4 ( ) )', F(4))
    add('bare', 'g1 + g2 * g3', {'g1': num, 'g2': num, 'g3': num})
    add('mixed', 'f1 ( ) + g1', {'f1': num, 'g1': num})
    add('logic', 'f1 ( ) && f2 ( ) || f3 ( )', {'f1': boo, 'f2': boo, 'f3': boo})
    add('cmp', 'f1 ( ) < f2 ( ) == f3 ( )', {'f1': num, 'f2': num, 'f3': boo})
    add('unary', '- f1 ( ) + ! f2 ( )', {'f1': num, 'f2': boo})
    add('postfix', 'f1 ( ) ++ - f2 ( ) --', F(2))
    add('call-ctx', 'h ( f1 ( ) , f2 ( ) , f3 ( ) )', dict(F(3), h=num), n=4)
    add('call-global', 'max ( f1 ( ) , f2 ( ) , f3 ( ) )', F(3))
    add('call-nested', 'h ( f1 ( ) , h ( f2 ( ) ) , f3 ( ) )', dict(F(3), h=num), n=5)
    add('list', '[ f1 ( ) , f2 ( ) , f3 ( ) ]', F(3))
    add('map', '{ f1 ( ) : f2 ( ) , f3 ( ) : f4 ( ) }', F(4))
    add('chain', 'f1 ( ) ; f2 ( ) ; f3 ( )', F(3))
    add('cond-var', 'b ? f1 ( ) : f2 ( )', F(2), {'b': sp(['bool', 'num'], (0,))})
    add('cond-fn', 'f1 ( ) ? f2 ( ) : f3 ( )', {'f1': sp(['bool', 'none']), 'f2': num, 'f3': num})
    add('cond-bare', 'b ? g1 : g2', {'g1': num, 'g2': num}, {'b': sp(['bool', 'num'], (0,))})
    add('cond-bare-literal', 'b ? 7 : g1', {'g1': num}, {'b': boo})
    add('cond-bare-var', 'b ? x : g1', {'g1': num}, {'b': boo, 'x': num})
    add('list-bare', '[ g1 , g2 , 1 ]', {'g1': num, 'g2': num})
    add('map-bare', '{ g1 : g2 }', {'g1': num, 'g2': num})
    add('chain-bare', 'g1 ; g2', {'g1': num, 'g2': num})
    add('unary-bare', '- g1 + g2 ++', {'g1': num, 'g2': num})
    add('call-bare-args', 'h ( g1 , g2 )', {'g1': num, 'g2': num, 'h': num})
    add('in-bare', 'g1 in [ g2 , g3 ]', {'g1': num, 'g2': num, 'g3': num})
    add('logic-bare', 'g1 && g2', {'g1': boo, 'g2': boo})
    add('cond-nested', 'b ? f1 ( ) : c ? f2 ( ) : f3 ( )', F(3), {'b': boo, 'c': boo})
    add('cond-in-operand', '( b ? f1 ( ) : f2 ( ) ) + f3 ( )', F(3), {'b': boo})
    add('assign', 'x = f1 ( ) + f2 ( ) ; x', F(2))
    add('assign-compound', 'x += f1 ( ) ; y = f2 ( ) ; x', F(2), {'x': num})
    add('assign-target-fn', 'g1 = f1 ( ) ; g1', {'g1': num, 'f1': num})
    add('assign-after-fail', 'x = f1 ( ) ; y = f2 ( ) ; z = f3 ( )', F(3))
    add('in', 'f1 ( ) in [ f2 ( ) , f3 ( ) ]', F(3))
    add('deep', 'h ( f1 ( ) + f2 ( ) , [ f3 ( ) , b ? f4 ( ) : f5 ( ) ] , { f6 ( ) : g1 } )', dict(F(6), h=num, g1=num), {'b': boo}, n=8)
    add('same-fn-twice', 'f1 ( ) + f1 ( ) * f1 ( )', F(1), n=3)
    add('same-bare-twice', 'g1 + g1 * g1', {'g1': num}, n=3)
    add('same-bare-chain', 'g1 ; g1 ; g1 ( )', {'g1': num}, n=3)
    add('same-bare-cond', 'g1 ? g1 : g1', {'g1': boo}, n=2)
    add('same-bare-list', '[ g1 , g1 ] ; x = g1 ; g1', {'g1': num}, n=4)
    add('shadow-builtin', 'min ( f1 ( ) , 2 ) + max ( 1 )', {'min': num, 'f1': num}, n=2)
    add('type-error-mid', 'f1 ( ) + s + f2 ( )', F(2), {'s': sp(['str', 'num'], (0,), strshapes=[(1,)])})
    add('unknown-fn', 'f1 ( ) + nosuch ( f2 ( ) ) + f3 ( )', F(3))
    if tier == 'thorough':
        add('deep2', '[ h ( f1 ( ) ) , - f2 ( ) ++ , f3 ( ) ? f4 ( ) : f5 ( ) , x = f6 ( ) ] ; x', dict(F(6), h=num, f3=boo), n=7)
        add('chain-long', 'f1 ( ) ; f2 ( ) ; f3 ( ) ; f4 ( ) ; f5 ( )', F(5))
    return out


def prepare(it):
    it.call('init::init', [])


def harness(it, px, params):
    tpls = params['templates']
    k = pick_config(px, 'tpl', len(tpls))
    tid, toks, vspecs, fspecs, n = tpls[k]
    px.notes.append(tid)
    fault = pick_config(px, 'fault', n + 1)
    vars_ = {nm: sv.sym_value(it, px, nm, s) for nm, s in sorted(vspecs.items())}
    frets = {nm: sv.sym_value(it, px, 'ret_' + nm, s) for nm, s in sorted(fspecs.items())}
    px.get_model()
    res = es.run_template(it, px, toks, vars_, frets, fault_at=fault, fault_kind=params.get('fault_kind', 'err'))
    rec = {'tpl': tid, 'text': res['text'], 'fault_at': fault, 'outcome': res['got'].kind, 'want': res['want_kind'], 'log': res['log_m']}
    px.cover('tpl-' + tid)
    if fault and res['got'].kind == 'err' and len(res['log_m']) == fault:
        px.cover('fault-hit')
    probs = es.compare(px, res)
    m = res.get('cex_model') or px.get_model()
    rec['witness'] = {'vars': {nm: sv.concrete(v, m) for nm, v in vars_.items()}, 'funcs': {nm: sv.concrete(v, m) for nm, v in frets.items()},
                      'fault_at': fault, 'fault_kind': params.get('fault_kind', 'err')}
    for cause, desc in probs:
        px.finding({'key': '%s|%s|%s' % (params.get('pid', 'C07'), cause, tid), 'desc': '`%s` (fault at invocation %d): %s' % (res['text'], fault, desc),
                    'text': res['text'], 'tpl': tid, 'witness': rec['witness'], 'cause': cause})
    return rec


def scenario(text, witness):
    steps = [{'op': 'reset_counter'}, {'op': 'ctx_new', 'ctx': 'c'}]
    for n, v in sorted(witness['vars'].items()):
        steps.append({'op': 'ctx_set_var', 'ctx': 'c', 'name': n.encode().hex(), 'value': v})
    for n, v in sorted(witness['funcs'].items()):
        h = {'h': 'const', 'value': v, 'id': n}
        if witness.get('fault_at'):
            h['fail_at'] = witness['fault_at']
            h['fail'] = witness.get('fault_kind', 'err')
        steps.append({'op': 'ctx_set_func', 'ctx': 'c', 'name': n.encode().hex(), 'handler': h})
    steps.append({'op': 'execute', 'hex': text.encode().hex(), 'ctx': 'c'})
    steps.append({'op': 'ctx_dump', 'ctx': 'c'})
    return steps


def concrete_reference(text, witness):
    import render
    from harness import refparse as rf, refeval as re_
    toks = text.split()
    cnt = {'n': 0}
    fa = witness.get('fault_at', 0)
    fk = witness.get('fault_kind', 'err')

    def mk(n, v):
        def h(args):
            cnt['n'] += 1
            if fa and cnt['n'] == fa:
                if fk == 'panic':
                    raise es.Fault(n)
                raise re_.RefErr('injected')
            return render.value_from_json(v)
        return h
    env = re_.Env(dict([(n, ('var', render.value_from_json(v))) for n, v in witness['vars'].items()] +
                       [(n, ('func', mk(n, v))) for n, v in witness['funcs'].items()]))

    def truth(c):
        c = z3.simplify(c) if is_sym(c) else c
        return c if isinstance(c, bool) else z3.is_true(c)
    try:
        v = re_.RefEval(truth).eval(rf.ref_parse(toks, rf.BUILTIN_INFIX), env)
        kind, val = 'ok', render.value_json(v, opsem._EmptyModel())
    except re_.RefErr:
        kind, val = 'err', None
    except es.Fault:
        kind, val = 'panic', None
    except re_.Outside:
        kind, val = 'outside', None
    ents = []
    for n in env.b:
        b = env.b[n]
        if b[0] == 'var':
            ents.append({'name': n.encode().hex(), 'var': render.value_json(b[1], opsem._EmptyModel())})
        else:
            ents.append({'name': n.encode().hex(), 'func': True})
    ents.sort(key=lambda e: bytes.fromhex(e['name']))
    return kind, val, ents, env.log


def native_disagrees(obs_exec, obs_ctx, ref):
    import render
    kind, val, ents, log = ref
    k = obs_exec.get('kind')
    if k in ('crash', 'timeout', 'hang'):
        return True
    if kind == 'outside':
        return None
    if k != kind:
        return True
    if kind == 'ok' and render.norm_num(obs_exec.get('value')) != render.norm_num(val):
        return True
    if obs_exec.get('log') is not None and obs_exec.get('log') != log:
        return True
    if obs_ctx.get('kind') != 'ok':
        return True
    return render.norm_num(obs_ctx.get('entries')) != render.norm_num(ents)


def run(ctx):
    tpls = templates(ctx.tier)
    params = {'templates': tpls, 'seed': ctx.seed, 'timeout_ms': 10000 if ctx.tier == 'quick' else 60000, 'step_limit': 400000, 'pid': 'C07'}
    eng = ctx.engine('dev')
    recs, summ = ex.explore(eng, harness, params, prepare=prepare)
    res = c06.judge(ctx, 'C07', tpls, recs, summ, scenario, concrete_reference, native_disagrees,
                    extra_outside=['more than one injected error per evaluation', 'handlers other than context functions (operators and global functions are covered by C15)'])
    covers = set()
    for r in recs:
        covers.update(r.get('covers', []))
    if 'fault-hit' not in covers:
        res['inconclusive'].append('vacuity: no injected error was ever reached')
    return res
