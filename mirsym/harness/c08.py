"""C08 — names and operators dispatch to the handler and binding last registered.

(a) E2 Kani kernel K1: InfixOpManager::get_precidence with symbolic precedence in [1,10^9] and
    symbolic associativity: the parser's recursion gates order operators exactly by the registered
    attributes (adjacent precedences included), no arithmetic overflow.
(b) E1: the C02 chain / mixed templates over operators registered through the real
    register_infix_op with symbolic attributes (end-to-end "parses with exactly the registered
    precedence relative to every other operator").
(c) E1 histories: every sequence of <= L steps (L=3 quick, 4 thorough; chosen by symbolic selectors)
    from { register_function f, re-register f, override built-in function min, override prefix `!`,
    override infix `+`, override postfix `++`, register new infix `hi`, register_function g } starting
    from a process in which the engine has NOT been used yet (the init once-cell is Empty, so the
    lazy registration of built-ins is part of the history), followed by a probe evaluation of every
    name under three contexts (empty; `f` bound to a context function; `f` bound to a variable).
    Handlers are tagged closures; the tag observed must be the tag of the last registration, a
    context function shadows a global one, a variable does not.
"""
import itertools
import json
import z3

from values import *
import api
import render
import explore as ex
import kani_adapter
from harness.common import *
from harness import refparse as rf
from harness import c02

ID = 'C08'
STEPS = ['reg_f', 'reg_f_again', 'reg_g', 'ovr_min', 'ovr_not', 'ovr_plus', 'ovr_inc', 'reg_hi', 'probe']
PROBES = [('f', 'f ( 1 )'), ('g', 'g ( 1 )'), ('min', 'min ( 1 , 2 )'), ('!', '! true'), ('+', '1 + 2'), ('++', '3 ++'), ('hi', '1 + 2 hi 3'),
          # the same operators over other operand shapes (dispatch must not depend on what the operand is)
          ('not', 'not true'), ('not-bin', 'not ( 1 == 1 )'), ('not-in', '2 not in [ 1 , 2 ]'), ('!-bin', '! ( 1 == 2 )'),
          ('++-bin', '( 1 - 2 ) ++'), ('+-shapes', '[ 1 ] + max ( 1 )')]


def tag_value(tag):
    return api.V_str(tag)


def handler(tag):
    return PyFn(lambda it, a: Ok(tag_value(tag)), tag)


def do_step(it, step, idx, state):
    """perform one history step on the model and on the reference state"""
    tag = '%s#%d' % (step, idx)
    H = ArcV(Cell(handler(tag), 'h'))
    if step in ('reg_f', 'reg_f_again'):
        it.call('register_function', [mkstr('f'), H])
        state['f'] = tag
    elif step == 'reg_g':
        it.call('register_function', [mkstr('g'), H])
        state['g'] = tag
    elif step == 'ovr_min':
        it.call('register_function', [mkstr('min'), H])
        state['min'] = tag
    elif step == 'ovr_not':
        it.call('register_prefix_op', [mkstr('!'), H])
        it.call('register_prefix_op', [mkstr('not'), H])
        state['!'] = tag
    elif step == 'ovr_plus':
        it.call('register_infix_op', [mkstr('+'), 110, Enum('InfixOpType', 0, 'CALC'), Enum('InfixOpAssociativity', 0, 'LEFT'), H])
        state['+'] = tag
    elif step == 'ovr_inc':
        it.call('register_postfix_op', [mkstr('++'), H])
        state['++'] = tag
    elif step == 'reg_hi':
        # adjacent to `+` (110): must bind tighter than +
        it.call('register_infix_op', [mkstr('hi'), 111, Enum('InfixOpType', 0, 'CALC'), Enum('InfixOpAssociativity', 0, 'LEFT'), H])
        state['hi'] = tag


def expected_probe(name, state, ctxkind):
    """what the probe of `name` must yield given the registrations so far"""
    if name == 'f':
        if ctxkind == 'func':
            return ('str', 'ctx-f')
        return ('str', state['f']) if 'f' in state else ('err',)
    if name == 'g':
        return ('str', state['g']) if 'g' in state else ('err',)
    if name == 'min':
        return ('str', state['min']) if 'min' in state else ('num', 1)
    if name == '!':
        return ('str', state['!']) if '!' in state else ('bool', False)
    if name in ('not', 'not-bin', 'not-in'):
        return ('str', state['!']) if '!' in state else ('bool', False)
    if name == '!-bin':
        return ('str', state['!']) if '!' in state else ('bool', True)
    if name == '++-bin':
        return ('str', state['++']) if '++' in state else ('num', 0)
    if name == '+-shapes':
        return ('str', state['+']) if '+' in state else ('err',)
    if name == '+':
        return ('str', state['+']) if '+' in state else ('num', 3)
    if name == '++':
        return ('str', state['++']) if '++' in state else ('num', 4)
    if name == 'hi':
        if 'hi' not in state:
            return ('num', 3)      # `hi` is then a plain name: three statements `1 + 2`, `hi`, `3`
        # 1 + (2 hi 3): hi binds tighter than +; the + handler then sees (1, tag)
        if '+' in state:
            return ('str', state['+'])
        return ('err',)      # built-in + on (1, "tag") is a type error
    raise KeyError(name)


def observe(o):
    if o.kind == 'err':
        return ('err',)
    if o.kind != 'ok':
        return (o.kind, o.detail)
    v = o.value
    if v.name == 'String':
        return ('str', bytes(render.deref(v.f[0]).b).decode())
    if v.name == 'Number':
        d = v.f[0]
        return ('num', d.m // (10 ** d.s) if d.m % (10 ** d.s) == 0 else (d.m, d.s))
    if v.name == 'Bool':
        return ('bool', bool(v.f[0]))
    return (v.name,)


def run_probes(it, state):
    out = []
    for ctxkind in ('empty', 'func', 'var'):
        for name, text in PROBES:
            if ctxkind != 'empty' and name != 'f':
                continue
            binds = []
            if ctxkind == 'func':
                binds = [('f', ('func', handler('ctx-f')))]
            elif ctxkind == 'var':
                binds = [('f', ('var', api.V_num(5, 0)))]
            ctx = api.new_context(it, binds)
            o = api.execute(it, text, ctx)
            out.append((ctxkind, name, observe(o), expected_probe(name, state, ctxkind)))
    return out


def harness_hist(it, px, params):
    L = params['L']
    n = pick_config(px, 'len', L + 1)
    seq = []
    for i in range(n):
        seq.append(STEPS[pick_config(px, 'step%d' % i, len(STEPS))])
    px.notes.append(' '.join(seq))
    state = {}
    rec = {'family': 'history', 'history': seq}
    bad = []
    for i, st in enumerate(seq):
        if st == 'probe':
            for ctxkind, name, got, want in run_probes(it, state):
                if got != want:
                    bad.append((i, ctxkind, name, got, want))
        else:
            do_step(it, st, i, state)
    for ctxkind, name, got, want in run_probes(it, state):
        if got != want:
            bad.append((len(seq), ctxkind, name, got, want))
    px.cover('history-len-%d' % n)
    if seq and seq[0] != 'probe':
        px.cover('register-before-first-use')
    rec['outcome'] = 'ok' if not bad else 'mismatch'
    for (i, ctxkind, name, got, want) in bad[:3]:
        px.finding({'key': 'C08|dispatch|%s|ctx-%s|%s' % (name, ctxkind, '-'.join(seq)), 'kind': 'history', 'history': seq, 'probe': name, 'ctx': ctxkind,
                    'desc': 'after %s, probe `%s` (context: %s) yields %s, expected %s' % (seq, name, ctxkind, got, want), 'at': i})
    return rec


def prepare_none(it):
    pass


def scenario_hist(seq, probe_name, ctxkind):
    steps = []
    names = {'reg_f': ('register_function', 'f'), 'reg_f_again': ('register_function', 'f'), 'reg_g': ('register_function', 'g'),
             'ovr_min': ('register_function', 'min'), 'ovr_not': ('register_prefix', '!'), 'ovr_inc': ('register_postfix', '++')}
    text = dict(PROBES)[probe_name]

    def probe(j):
        c = 'c%d' % j
        out = [{'op': 'ctx_new', 'ctx': c}]
        if ctxkind == 'func':
            out.append({'op': 'ctx_set_func', 'ctx': c, 'name': b'f'.hex(), 'handler': {'h': 'const', 'value': {'t': 'str', 'hex': b'ctx-f'.hex()}, 'id': 'ctxf'}})
        elif ctxkind == 'var':
            out.append({'op': 'ctx_set_var', 'ctx': c, 'name': b'f'.hex(), 'value': {'t': 'num', 'm': '5', 's': 0}})
        out.append({'op': 'execute', 'hex': text.encode().hex(), 'ctx': c})
        return out
    for i, st in enumerate(seq):
        tag = '%s#%d' % (st, i)
        hs = {'h': 'const', 'value': {'t': 'str', 'hex': tag.encode().hex()}, 'id': tag}
        if st == 'probe':
            steps += probe(i)
        elif st in names:
            steps.append({'op': names[st][0], 'name': names[st][1].encode().hex(), 'handler': hs})
            if st == 'ovr_not':
                steps.append({'op': names[st][0], 'name': b'not'.hex(), 'handler': hs})
        elif st == 'ovr_plus':
            steps.append({'op': 'register_infix', 'name': b'+'.hex(), 'prec': 110, 'type': 'CALC', 'assoc': 'LEFT', 'handler': hs})
        elif st == 'reg_hi':
            steps.append({'op': 'register_infix', 'name': b'hi'.hex(), 'prec': 111, 'type': 'CALC', 'assoc': 'LEFT', 'handler': hs})
    steps += probe(len(seq))
    return steps


def native_observe(o):
    if o.get('kind') == 'err':
        return ('err',)
    if o.get('kind') != 'ok':
        return (o.get('kind'), o.get('msg'))
    v = o['value']
    if v['t'] == 'str':
        return ('str', bytes.fromhex(v['hex']).decode())
    if v['t'] == 'num':
        m, s = int(v['m']), v['s']
        return ('num', m // (10 ** s) if m % (10 ** s) == 0 else (m, s))
    if v['t'] == 'bool':
        return ('bool', v['v'])
    return (v['t'],)


def run(ctx):
    L = 3 if ctx.tier == 'quick' else 4
    eng = ctx.engine('dev')
    # (c) histories, starting from an unused engine
    recs_h, summ_h = ex.explore(eng, harness_hist, {'L': L, 'seed': ctx.seed, 'timeout_ms': 10000, 'step_limit': 2000000}, prepare=prepare_none)
    # (b) symbolic tables
    tpls = [t for t in c02.templates(ctx.tier) if t[0] in ('F1-chain', 'F2-mixed')]
    recs_t, summ_t = ex.explore(eng, c02.harness, {'templates': tpls, 'seed': ctx.seed, 'timeout_ms': 10000, 'step_limit': 400000, 'rereg': ('F1-chain',)}, prepare=c02.prepare)
    # (a) kani
    kres = kani_adapter.run_group('C08', ctx.tier)
    inconclusive = []
    by_status = {}
    for r in recs_h + recs_t:
        by_status[r['status']] = by_status.get(r['status'], 0) + 1
        if r['status'] in ('unsupported', 'inconclusive'):
            inconclusive.append('%s: %s %s %s' % (r['status'], r.get('detail'), r.get('where', ''), r.get('notes')))
    inconclusive = sorted(set(inconclusive))[:20]
    covers = set()
    for r in recs_h + recs_t:
        covers.update(r.get('covers', []))
    for need in ['history-len-%d' % k for k in range(L + 1)] + ['register-before-first-use', 'parsed-F1-chain', 'parsed-F2-mixed']:
        if need not in covers:
            inconclusive.append('vacuity: cover %s not reached' % need)
    findings = []
    validated = 0
    groups = {}
    for r in recs_h:
        for f in r.get('findings', []):
            groups.setdefault(f['key'], []).append(f)
    # keep the shortest history per (probe, ctx)
    best = {}
    for key, fs in groups.items():
        f = fs[0]
        k2 = (f['probe'], f['ctx'])
        if k2 not in best or len(f['history']) < len(best[k2]['history']):
            best[k2] = f
    for k2, f in sorted(best.items()):
        sc = scenario_hist(f['history'], f['probe'], f['ctx'])
        od = ctx.native(sc, 'dev')
        validated += 1
        # reference state
        state = {}
        for i, st in enumerate(f['history']):
            if st != 'probe':
                class _It:      # state update only
                    def call(self, *a):
                        pass
                do_step(_It(), st, i, state)
        want = expected_probe(f['probe'], state, f['ctx'])
        got = native_observe(od[-1])
        findings.append({'key': 'C08|dispatch|%s|ctx-%s' % k2, 'desc': f['desc'][:300], 'confirmed': got != want, 'scenario': sc,
                         'expect': {'last_step': list(want)}, 'witness_text': ' '.join(f['history']) + ' ; probe ' + f['probe'],
                         'native': {'dev': od[-1]}, 'id': sid([k2, f['history']]), 'count': len(groups)})
    # symbolic-table findings: reuse the C02 judge logic (native confirmation included)
    j2 = c02.judge(ctx, recs_t, summ_t, {'templates': tpls}, [], 0)
    for f in j2['findings']:
        f['key'] = f['key'].replace('C02|', 'C08|')
        findings.append(f)
    inconclusive += [x for x in j2['inconclusive'] if not x.startswith('vacuity: family')]
    validated += j2['evidence']['coverage']['traces_validated_against_impl']
    if kres.get('ok'):
        for h in kres['harnesses']:
            if h['verdict'] == 'FAILED':
                if not findings:
                    inconclusive.append('kani kernel %s FAILED (%s, cex %s) but no violation was reproduced through the public API' % (
                        h['name'], [c.get('desc') for c in h.get('failed_checks', [])][:2], h.get('cex')))
            elif h['verdict'] != 'SUCCESS':
                inconclusive.append('kani harness %s: %s' % (h['name'], h['verdict']))
    else:
        inconclusive.append('kani runner failed: %s' % kres.get('detail', '')[-300:])
    # sampled native validation of histories
    okh = [r for r in recs_h if r['status'] == 'done' and not r.get('findings')]
    for r in okh[:: max(1, len(okh) // 40)]:
        state = {}
        for i, st in enumerate(r['history']):
            if st != 'probe':
                class _It2:
                    def call(self, *a):
                        pass
                do_step(_It2(), st, i, state)
        for name, _ in PROBES[:3]:
            od = ctx.native(scenario_hist(r['history'], name, 'empty'), 'dev')
            validated += 1
            if native_observe(od[-1]) != expected_probe(name, state, 'empty'):
                inconclusive.append('sampled history disagrees natively: %s probe %s native %s' % (r['history'], name, od[-1]))
    samples = [{'history': r['history'], 'outcome': r['outcome']} for r in recs_h if r['status'] == 'done'][:: max(1, len(recs_h) // 15)][:20]
    samples += [{'text': r['text'], 'table': r['table']} for r in recs_t if r['status'] == 'done'][:5]
    ev = {
        'coverage': {
            'states': max(1, summ_h['paths'] + summ_t['paths']), 'transitions': max(1, summ_h['decisions'] + summ_t['decisions']),
            'traces_validated_against_impl': validated, 'samples': samples, 'exhaustive': not inconclusive,
            'bound': {'history_length_max': L, 'step_kinds': STEPS, 'probes': [p[1] for p in PROBES], 'contexts': ['empty', 'f as context function', 'f as variable'],
                      'symbolic_table_templates': len(tpls), 'precedence_range': [1, 10 ** 9]},
            'path_status': by_status,
            'solver': {'engine': 'z3 ' + z3.get_version_string() + ' / CBMC via Kani', 'queries_sat': summ_h['sat'] + summ_t['sat'], 'queries_unsat': summ_h['unsat'] + summ_t['unsat'],
                       'queries_unknown': summ_h['unknown'] + summ_t['unknown'], 'solver_s': round(summ_h['solver_s'] + summ_t['solver_s'], 2)},
            'kani': kani_adapter.summarize(kres) if kres.get('ok') else {'error': kres.get('detail', '')[-500:]},
            'functions_encoded': sorted(set(summ_h['bodies_used']) | set(summ_t['bodies_used'])),
            'library_models_used': sorted(set(summ_h['models_used']) | set(summ_t['models_used'])),
            'covers_hit': sorted(covers),
            'outside': ['histories longer than %d steps' % L, 'names other than those probed', 'concurrent registration (C13)'],
        },
        'assumptions': ['once_cell::sync::OnceCell modelled as run-once (Empty -> Running -> Full); histories start from Empty',
                        'HashMap insert replaces the value of an equal key'],
    }
    return {'findings': findings, 'inconclusive': inconclusive, 'evidence': ev,
            'summary': 'histories=%d table-paths=%d kani=%s findings=%d' % (summ_h['paths'], summ_t['paths'], kres.get('summary'), len(findings))}
