"""C04 — runtime faults surface as Err: no panic, no silently wrapped number; dev and release MIR
(see harness/opsem.py)."""
from harness import opsem

ID = 'C04'


def run(ctx):
    return opsem.run_mode(ctx, 'C04')
