"""C11 — whitespace and redundant parentheses never change the parse.

Relational harness.  (A) For every accepted input s of the symbolic domains (all UTF-8 strings of
<= N bytes; structural-alphabet inputs of <= T slots) the token spans observed at Tokenizer::next
give the token boundaries; for each boundary and each w in {space, tab, CR, LF} the text with w
inserted (and, where whitespace already exists, doubled or replaced) is parsed *under the same
path condition* and the two ASTs must be equal (z3 validity over the shared byte variables).
(B) For template programs over operators with symbolic precedence/associativity every complete
subexpression (token range taken from the reference parser under the same path condition) is
wrapped in one and in two pairs of parentheses; the AST must not change.
"""
import json
import z3

from values import *
import api
import render
import explore as ex
from harness.common import *
from harness import refparse as rf
from harness import refeval as re_
from harness import c02, c05, c01

ID = 'C11'
WS = (0x20, 0x09, 0x0D, 0x0A)
BOUNDS = {'quick': {'N': 3, 'T': 3}, 'thorough': {'N': 4, 'T': 4}}


def ast_eq(a, b):
    """structural equality of two ExprAST values as bool / z3 Bool (string slices by content)"""
    a, b = render.deref(a), render.deref(b)
    if isinstance(a, Enum) and isinstance(b, Enum):
        if a.ty != b.ty or a.idx != b.idx or len(a.f) != len(b.f):
            return False
        return re_.vand([ast_eq(x, y) for x, y in zip(a.f, b.f)])
    if isinstance(a, Str) and isinstance(b, Str):
        return re_.bytes_eq(a.b, b.b)
    if isinstance(a, Arr) and isinstance(b, Arr):
        if len(a.items) != len(b.items):
            return False
        return re_.vand([ast_eq(x, y) for x, y in zip(a.items, b.items)])
    if isinstance(a, Agg) and isinstance(b, Agg):
        return re_.vand([ast_eq(x, y) for x, y in zip(a.f, b.f)])
    if isinstance(a, Dec) and isinstance(b, Dec):
        return re_.num_eq(a, b)
    if isinstance(a, (bool, int)) and isinstance(b, (bool, int)):
        return a == b
    if is_sym(a) or is_sym(b):
        return a == b
    return False


def prepare(it):
    it.call('init::init', [])


def observe_tokens(it, s):
    toks = []
    name = it.resolve("Tokenizer::<'_>::next")[1].name

    def on_next(args, rv):
        if isinstance(rv, Enum) and rv.name == 'Ok' and rv.f[0].name != 'EOF':
            toks.append(rv.f[0])
    it.watch = {name: on_next}
    try:
        o = api.parse(it, s)
    finally:
        it.watch = {}
    return o, toks


def harness_ws(it, px, params):
    """family A: whitespace insertion / variation on symbolic inputs"""
    N, T = params['N'], params['T']
    cfgs = [('utf8', L, sh) for (L, sh) in c01.configs(N)] + [('alpha', L, None) for L in range(1, T + 1)]
    k = pick_config(px, 'cfg', len(cfgs))
    fam, L, shape = cfgs[k]
    bs = [px.bv('b%d' % i, 8) for i in range(L)]
    if fam == 'utf8':
        for c in utf8_constraints(bs, shape):
            px.add(c)
    else:
        alpha = list(c05.ALPHABET) + [0x09, 0x0A, 0x0D]
        for b in bs:
            px.add(z3.Or([b == z3.BitVecVal(c, 8) for c in alpha]))
        px.pin_probe = True
    px.get_model()
    rec = {'family': 'ws-' + fam, 'len': L}
    o, toks = observe_tokens(it, Str(tuple(bs)))
    rec['outcome'] = o.kind
    m0 = px.get_model()
    rec['witness'] = px.eval_bytes(m0, bs).hex()
    if o.kind != 'ok':
        return rec
    # the property is about programs whose names are not operator words: assume it
    words = [w.encode() for w in list(rf.BUILTIN_INFIX) + list(rf.BUILTIN_PREFIX) + list(rf.BUILTIN_POSTFIX) if w[0].isalpha()]
    for t in toks:
        kind, payload, a_, b_ = api.token_tuple(t)
        if kind in ('Reference', 'Function'):
            pb = render.deref(payload).b
            for wd in words:
                if len(wd) == len(pb):
                    eq = re_.bytes_eq(pb, tuple(wd))
                    if eq is True:
                        rec['skipped'] = 'name is an operator word'
                        return rec
                    if eq is not False:
                        px.assume(z3.Not(eq))
    m0 = px.get_model()
    rec['witness'] = px.eval_bytes(m0, bs).hex()
    px.cover('accepted-' + fam)
    base = o.value
    spans = sorted(set((px.eval_int(m0, api.token_tuple(t)[2]), px.eval_int(m0, api.token_tuple(t)[3])) for t in toks))
    # boundaries: before the first token, between tokens, after the last
    cuts = sorted(set([0, L] + [a for a, b in spans] + [b for a, b in spans]))
    variants = []
    for c in cuts:
        for w in WS:
            variants.append(('insert', c, w, tuple(bs[:c]) + (w,) + tuple(bs[c:])))
    # existing whitespace between tokens: double it / replace it
    covered = set()
    for a, b in spans:
        covered.update(range(a, b))
    for i in range(L):
        if i in covered:
            continue
        # byte i lies between tokens, so it is whitespace on this path
        variants.append(('double', i, None, tuple(bs[:i]) + (bs[i], bs[i]) + tuple(bs[i + 1:])))
        for w in WS:
            variants.append(('replace', i, w, tuple(bs[:i]) + (w,) + tuple(bs[i + 1:])))
    rec['variants'] = len(variants)
    for (kind, pos, w, nb) in variants:
        o2 = api.parse(it, Str(nb))
        bad = None
        model = None
        if o2.kind != 'ok':
            bad = 'relayout-%s' % o2.kind
            model = px.get_model()
        else:
            okv, mod = px.check(ast_eq(base, o2.value))
            if not okv:
                bad = 'ast-changed'
                model = mod
        if bad:
            wit = px.eval_bytes(model, bs)
            wit2 = px.eval_bytes(model, nb)
            px.finding({'key': 'C11|ws|%s|%s-%s' % (bad, kind, 'x%02x' % w if w is not None else 'same'),
                        'desc': '%s whitespace %s at byte %d of %r changes the parse (%s)' % (kind, ('0x%02x' % w) if w is not None else '', pos, wit.decode('utf-8', 'replace'), bad),
                        'a': wit.hex(), 'b': wit2.hex(), 'kind': 'ws'})
            px.cover('finding')
            break
    px.cover('relayout-checked')
    return rec


LAYOUT_PROGRAMS = [
    '1 in [ 1 , 2 ]', 'a not in [ 1 ]', "'x' beginWith 'y'", "'xy' endWith 'y'", 'AND [ true , b ]', 'OR [ a ]', 'not true', '! true',
    '- 2 ++', '3 * - 2 -- + 1', '[ 1 , - 2 ++ ]', 'x = - 4 ++', 'f ( 1 , - 2 )', 'a ? - 1 : + 2', '1 - - 1', 'a += 1 ; a',
    '{ 1 : - 2 , "k" : [ ] }', 'true && ! false || b', '1 < 2 == true', 'f ( ) ++', 'a ; b ; c', '1.5 * 2 % 3', 'a = b = 3', 'x -= - 1',
]


# programs around a symbol that is registered both as postfix and as infix operator
LAYOUT_DOUBLE = ['100 --- - 1', 'n --- - 1', '( n ) --- 2', '1 --- --- 2']


def layout_gaps(toks, op=None):
    """-> for every gap between adjacent tokens: may the whitespace be dropped without changing the token sequence
    (decided by the reference tokenizer of C10 on the glued text)"""
    from harness import c10
    want = None
    out = []
    base = c10.concrete_ref(' '.join(toks).encode(), op)
    nb = len(base) if base != 'err' else None
    for i in range(len(toks) - 1):
        glued = ' '.join(toks[:i + 1]) + ' '.join([''] + toks[i + 1:])[1:] if False else (' '.join(toks[:i + 1]) + ' '.join(toks[i + 1:]))
        r = c10.concrete_ref(glued.encode(), op)
        ok = r != 'err' and nb is not None and len(r) == nb and [k for k, _, _ in r] == [k for k, _, _ in base]
        if ok:
            # same kinds and count: also the same texts
            tx = [glued.encode()[a:b] for _, a, b in r]
            tb = [' '.join(toks).encode()[a:b] for _, a, b in base]
            ok = tx == tb
        out.append(ok)
    return out


def harness_layout(it, px, params):
    """family C: template programs re-laid-out — every gap between tokens holds one or two symbolic whitespace bytes
    (space, tab, CR, LF), or nothing where the tokens stay separate without it; the AST must equal the one of the
    single-space layout"""
    progs = params['programs']
    k = pick_config(px, 'prog', len(progs))
    toks = progs[k].split()
    if progs[k] in LAYOUT_DOUBLE:
        H = ArcV(Cell(PyFn(lambda i, a: Ok(api.V_num(1, 0)), 'h'), 'h'))
        it.call('register_postfix_op', [mkstr('---'), H])
        it.call('register_infix_op', [mkstr('---'), 100, Enum('InfixOpType', 0, 'CALC'), Enum('InfixOpAssociativity', 0, 'LEFT'), H])
        gaps = layout_gaps(toks, b'---')
        px.cover('layout-double-registration')
    else:
        gaps = layout_gaps(toks)
    removable = [i for i, g in enumerate(gaps) if g]
    # variants, one gap at a time (the others hold one space): one symbolic whitespace byte | two symbolic bytes | dropped
    # (where the tokens stay separate without it); plus all droppable gaps dropped at once
    variants = []
    for i in range(len(toks) - 1):
        variants += [('ws1', (i,)), ('ws2', (i,))]
        if gaps[i]:
            variants.append(('drop-one', (i,)))
    if len(removable) > 1:
        variants.append(('drop-all', tuple(removable)))
    vi = pick_config(px, 'variant', len(variants))
    vname, where = variants[vi]
    px.notes.append('%s/%s%s' % (progs[k], vname, list(where)))
    dropped = where if vname.startswith('drop') else ()
    text = []
    for i, t in enumerate(toks):
        text += list(t.encode())
        if i < len(toks) - 1 and i not in dropped:
            if vname in ('ws1', 'ws2') and i in where:
                for j in range(2 if vname == 'ws2' else 1):
                    w = px.bv('w%d_%d' % (i, j), 8)
                    px.add(z3.Or([w == z3.BitVecVal(c, 8) for c in WS]))
                    text.append(w)
            else:
                text.append(0x20)
    px.get_model()
    rec = {'family': 'layout', 'program': progs[k], 'variant': vname}
    b = api.parse(it, ' '.join(toks))
    if b.kind != 'ok':
        raise ModelError('layout program does not parse: %s' % progs[k])
    o2 = api.parse(it, Str(tuple(text)))
    px.cover('layout-checked')
    if dropped:
        px.cover('layout-dropped-gap')
    bad = None
    model = None
    if o2.kind != 'ok':
        bad = 'relayout-%s' % o2.kind
        model = px.get_model()
    else:
        okv, mod = px.check(ast_eq(b.value, o2.value))
        if not okv:
            bad = 'ast-changed'
            model = mod
    rec['outcome'] = bad or 'same'
    if bad:
        wit2 = px.eval_bytes(model, text)
        px.finding({'key': 'C11|layout|%s|%s|%s' % (bad, progs[k], vname),
                    'desc': 'the layout %r of `%s` changes the parse (%s)' % (wit2.decode('utf-8', 'replace'), progs[k], bad),
                    'a': ' '.join(toks).encode().hex(), 'b': wit2.hex(), 'kind': 'ws', 'double': progs[k] in LAYOUT_DOUBLE})
    return rec


def wrap_variants(toks, node_ranges):
    out = []
    for (a, b) in sorted(node_ranges):
        for k in (1, 2):
            out.append(((a, b, k), toks[:a] + ['('] * k + toks[a:b] + [')'] * k + toks[b:]))
    return out


def collect_ranges(j, acc, top=True):
    if isinstance(j, dict):
        if '_r' in j and j.get('k') not in ('stmt', 'none'):
            acc.add(tuple(j['_r']))
        for k, v in j.items():
            if k not in ('_r', '_notform'):
                if j.get('_notform') and k == 'a':
                    # the inner binary of `x not OP y` is not a contiguous token range of its own
                    for kk, vv in v.items():
                        if kk in ('l', 'r'):
                            collect_ranges(vv, acc, False)
                    continue
                collect_ranges(v, acc, False)
    elif isinstance(j, list):
        for x in j:
            collect_ranges(x, acc, False)


def collect_atom_ranges(j, acc):
    if isinstance(j, dict):
        if '_r' in j and j.get('k') in ('num', 'bool', 'str', 'ref', 'call', 'list', 'map'):
            acc.add(tuple(j['_r']))
        for k, v in j.items():
            if k not in ('_r', '_notform'):
                collect_atom_ranges(v, acc)
    elif isinstance(j, list):
        for x in j:
            collect_atom_ranges(x, acc)


def harness_paren(it, px, params):
    """family B: redundant parentheses on template programs with symbolic operator tables"""
    tpls = params['templates']
    k = pick_config(px, 'tpl', len(tpls))
    fam, toks = tpls[k]
    used = [o for o in c02.SYM_OPS if o in toks]
    infix = dict(rf.BUILTIN_INFIX)
    P, A = {}, {}
    import itertools
    for o in used:
        p = px.bv('p_' + o, 32)
        px.add(z3.And(p >= 1, p <= c02.PMAX))
        left = it.truth(px.bool('left_' + o))
        P[o], A[o] = p, left
        infix[o] = (p, 'LEFT' if left else 'RIGHT', 'CALC')
    for a, b in itertools.combinations(used, 2):
        if A[a] != A[b]:
            px.add(P[a] != P[b])
    for o in used:
        for name in set(toks):
            if name in rf.BUILTIN_INFIX:
                bp, bassoc, _ = rf.BUILTIN_INFIX[name]
                if (bassoc == 'LEFT') != A[o]:
                    px.add(P[o] != bp)
    px.get_model()
    for o in used:
        it.call('register_infix_op', [mkstr(o), P[o], Enum('InfixOpType', 0, 'CALC'), c02.assoc_enum(A[o]), ArcV(Cell(c02.echo_handler(o), 'h'))])
    text = ' '.join(toks)
    rec = {'family': 'paren-' + fam, 'text': text}
    o = api.parse(it, text)
    rec['outcome'] = o.kind
    if o.kind != 'ok':
        raise ModelError('template `%s` did not parse' % text)
    base = render.ast_json(o.value)

    def val(x):
        return x if is_sym(x) else z3.BitVecVal(x, 32)
    want = rf.ref_parse(toks, infix, lambda a, b: it.truth(val(a) > val(b)), lambda a, b: it.truth(val(a) >= val(b)), spans=True)
    ranges = set()
    collect_ranges(want, ranges)
    m = px.get_model()
    table = {o_: (m.eval(P[o_], model_completion=True).as_signed_long(), 'LEFT' if A[o_] else 'RIGHT') for o_ in used}
    rec['table'] = table
    rec['wrapped'] = 0
    px.cover('paren-' + fam)
    if rf.strip_spans(want) != base:
        # grouping differs from the reference (that is C02's finding): only atoms are then known to be
        # complete subexpressions in the crate's own reading, so only they are wrapped
        ranges = set()
        collect_atom_ranges(want, ranges)
        rec['atoms_only'] = True
    for (a, b, kk), toks2 in wrap_variants(toks, ranges):
        text2 = ' '.join(toks2)
        o2 = api.parse(it, text2)
        rec['wrapped'] += 1
        bad = None
        if o2.kind != 'ok':
            bad = 'wrapped-%s' % o2.kind
        elif render.ast_json(o2.value) != base:
            bad = 'ast-changed'
        if bad:
            px.finding({'key': 'C11|paren|%s|%s' % (bad, text2), 'desc': 'wrapping tokens %d..%d of `%s` in %d pair(s) of parentheses changes the parse (%s)' % (a, b, text, kk, bad),
                        'a': text, 'b': text2, 'table': table, 'kind': 'paren'})
            break
    return rec


def run(ctx):
    N, T = BOUNDS[ctx.tier]['N'], BOUNDS[ctx.tier]['T']
    eng = ctx.engine('dev')
    pw = {'N': N, 'T': T, 'seed': ctx.seed, 'timeout_ms': 10000 if ctx.tier == 'quick' else 60000, 'step_limit': 2000000}
    recs_w, summ_w = ex.explore(eng, harness_ws, pw, prepare=prepare)
    tpls = [t for t in c02.templates(ctx.tier) if t[0] != 'F1-chain' or len(t[1]) <= 7]
    tpls += [('extra', x.split()) for x in ('f ( a , b ) + [ c , d ] * { e : g }', 'a = b ; c = d + 1', '- a ++ * ! b', 'a ? b : c', 'x not in [ 1 , 2 ]', '1.5 + "s" == true')]
    pp = {'templates': tpls, 'seed': ctx.seed, 'timeout_ms': 10000, 'step_limit': 2000000}
    recs_p, summ_p = ex.explore(eng, harness_paren, pp, prepare=prepare)
    recs_l, summ_l = ex.explore(eng, harness_layout, {'programs': LAYOUT_PROGRAMS + LAYOUT_DOUBLE, 'seed': ctx.seed, 'timeout_ms': 10000, 'step_limit': 2000000}, prepare=prepare)
    recs_p = recs_p + recs_l
    for k_ in ('paths', 'decisions', 'sat', 'unsat', 'unknown', 'solver_s', 'steps'):
        summ_p[k_] += summ_l[k_]
    summ_p['bodies_used'] = sorted(set(summ_p['bodies_used']) | set(summ_l['bodies_used']))
    summ_p['models_used'] = sorted(set(summ_p['models_used']) | set(summ_l['models_used']))
    inconclusive = []
    by_status = {}
    for r in recs_w + recs_p:
        by_status[r['status']] = by_status.get(r['status'], 0) + 1
        if r['status'] in ('unsupported', 'inconclusive'):
            inconclusive.append('%s: %s %s' % (r['status'], r.get('detail'), r.get('where', '')))
    inconclusive = sorted(set(inconclusive))[:20]
    covers = set()
    for r in recs_w + recs_p:
        covers.update(r.get('covers', []))
    for need in ('accepted-utf8', 'accepted-alpha', 'relayout-checked', 'layout-checked', 'layout-dropped-gap', 'layout-double-registration'):
        if need not in covers:
            inconclusive.append('vacuity: cover %s not reached' % need)
    groups = {}
    for r in recs_w + recs_p:
        for f in r.get('findings', []):
            groups.setdefault(f['key'], []).append(f)
    findings = []
    validated = 0
    for key, fs in sorted(groups.items()):
        f = fs[0]
        if f['kind'] == 'ws':
            sc = [{'op': 'parse', 'hex': f['a'], 'want': ['ast']}, {'op': 'parse', 'hex': f['b'], 'want': ['ast']}]
            if f.get('double'):
                hs = {'h': 'const', 'value': {'t': 'num', 'm': '1', 's': 0}}
                sc = [{'op': 'register_postfix', 'name': b'---'.hex(), 'handler': hs},
                      {'op': 'register_infix', 'name': b'---'.hex(), 'prec': 100, 'type': 'CALC', 'assoc': 'LEFT', 'handler': hs}] + sc
            wt = '%r vs %r' % (bytes.fromhex(f['a']).decode('utf-8', 'replace'), bytes.fromhex(f['b']).decode('utf-8', 'replace'))
        else:
            sc = c02.scenario(f['a'], {o: (int(p), a) for o, (p, a) in f['table'].items()})
            sc.append({'op': 'parse', 'hex': f['b'].encode().hex(), 'want': ['ast']})
            wt = '%s vs %s with %s' % (f['a'], f['b'], json.dumps(f['table']))
        od = ctx.native(sc, 'dev')
        validated += 1
        x, y = od[-2], od[-1]
        confirmed = x.get('kind') == 'ok' and (y.get('kind') != 'ok' or y.get('ast') != x.get('ast'))
        findings.append({'key': key, 'desc': f['desc'][:300], 'confirmed': confirmed, 'scenario': sc, 'expect': {'same_ast': True},
                         'witness_text': wt, 'native': {'dev': [x, y]}, 'id': sid([key, f['a'], f['b']]), 'count': len(fs)})
    # sampled native validation of relational pairs (accepted witnesses + a space inserted at every boundary is too many: sample)
    okw = [r for r in recs_w if r['status'] == 'done' and r.get('outcome') == 'ok' and not r.get('findings')]
    steps = []
    for r in okw[:: max(1, len(okw) // 100)]:
        w = bytes.fromhex(r['witness'])
        steps.append({'op': 'parse', 'hex': w.hex(), 'want': ['ast']})
        steps.append({'op': 'parse', 'hex': (b' ' + w + b'\n').hex(), 'want': ['ast']})
    if steps:
        obs = ctx.native(steps, 'dev', timeout=120)
        for i in range(0, len(obs), 2):
            validated += 1
            if obs[i].get('kind') != 'ok' or obs[i + 1].get('kind') != 'ok' or obs[i].get('ast') != obs[i + 1].get('ast'):
                inconclusive.append('sampled accepted input is not accepted natively or changes with outer whitespace: %s' % steps[i]['hex'])
    nvar = sum(r.get('variants', 0) for r in recs_w)
    nwrap = sum(r.get('wrapped', 0) for r in recs_p)
    samples = [{'input': bytes.fromhex(r['witness']).decode('utf-8', 'replace'), 'relayouts_checked': r.get('variants')} for r in okw[:8]]
    samples += [{'template': r['text'], 'table': r.get('table'), 'parenthesisations_checked': r.get('wrapped')} for r in recs_p if r['status'] == 'done' and 'text' in r][:8]
    summ = {k: summ_w[k] + summ_p[k] for k in ('paths', 'decisions', 'sat', 'unsat', 'unknown', 'solver_s', 'steps')}
    ev = {
        'coverage': {
            'states': max(1, summ['paths']), 'transitions': max(1, summ['decisions']),
            'traces_validated_against_impl': validated, 'samples': samples, 'exhaustive': not inconclusive,
            'bound': {'utf8_input_bytes_max': N, 'structural_alphabet_slots_max': T, 'whitespace_set': ['space', 'tab', 'CR', 'LF'],
                      'relayouts_checked': nvar, 'layout_programs': LAYOUT_PROGRAMS, 'layout_variants': 'one gap at a time: one / two symbolic whitespace bytes, or dropped where the tokens stay separate; all droppable gaps dropped',
                      'paren_templates': len(tpls), 'parenthesisations_checked': nwrap, 'paren_multiplicity': [1, 2]},
            'path_status': by_status,
            'solver': {'engine': 'z3 ' + z3.get_version_string(), 'queries_sat': summ['sat'], 'queries_unsat': summ['unsat'],
                       'queries_unknown': summ['unknown'], 'solver_s': round(summ['solver_s'], 2)},
            'mir_steps': summ['steps'], 'workers': summ_w['workers'],
            'functions_encoded': sorted(set(summ_w['bodies_used']) | set(summ_p['bodies_used'])),
            'library_models_used': sorted(set(summ_w['models_used']) | set(summ_p['models_used'])), 'covers_hit': sorted(covers),
            'outside': ['programs longer than the bounds', 'more than one insertion at a time (k insertions follow from single steps because every intermediate text is itself checked as an accepted program of the domain only up to the length bound)',
                        'parenthesis multiplicity > 2'],
        },
        'assumptions': ['token boundaries = spans observed at Tokenizer::next on the same path', 'library models validated by the conformance corpus and sampled native replays'],
    }
    return {'findings': findings, 'inconclusive': inconclusive, 'evidence': ev,
            'summary': 'paths=%d relayouts=%d parenthesisations=%d findings=%d' % (summ['paths'], nvar, nwrap, len(findings))}
