"""C12 — expr() output re-parses to the same AST (and rendering is idempotent).

ASTs are produced by the real parser from fully parenthesised texts of a tree family (every
operator nested under every other on either side, prefix/postfix over compound operands,
conditionals in every operand position, `not OP` forms, containers, strings with either quote),
over operators o1,o2 with *symbolic* precedence/associativity plus built-ins.  For each AST t:
parse_expression(t.expr()) must be Ok(t') with t' == t and t'.expr() == t.expr().
"""
import itertools
import json
import z3

from values import *
import api
import render
import explore as ex
from harness.common import *
from harness import refparse as rf
from harness import c02

ID = 'C12'
SYM_OPS = ('o1', 'o2')
PMAX = 10 ** 9


# tree DSL -> fully parenthesised text
def B(op, l, r):
    return '(%s %s %s)' % (l, op, r)


def NB(op, l, r):
    return '(%s not %s %s)' % (l, op, r)


def U(op, a):
    return '(%s %s)' % (op, a)


def P(op, a):
    return '(%s %s)' % (a, op)


def Tn(c, a, b):
    return '(%s ? %s : %s)' % (c, a, b)


def trees(tier):
    out = []
    ops = ['o1', 'o2', '-', '*', '=', '==', '&&', 'in']
    # binary under binary, both sides
    for x in ops:
        for y in ops:
            if tier == 'quick' and x not in SYM_OPS and y not in SYM_OPS and (x, y) not in (
                    ('-', '-'), ('-', '*'), ('*', '-'), ('=', '='), ('==', '&&'), ('&&', '=='), ('=', '-'), ('in', '-')):
                continue
            out.append(('bin-left', B(x, B(y, 'a', 'b'), 'c')))
            out.append(('bin-right', B(x, 'a', B(y, 'b', 'c'))))
    for x, y, z in itertools.product(SYM_OPS, repeat=3):
        out.append(('bin-deep', B(x, B(y, 'a', B(z, 'b', 'c')), 'd')))
        out.append(('bin-deep', B(x, 'a', B(y, B(z, 'b', 'c'), 'd'))))
        if tier == 'thorough':
            out.append(('bin-deep', B(x, B(y, B(z, 'a', 'b'), 'c'), 'd')))
            out.append(('bin-deep', B(x, 'a', B(y, 'b', B(z, 'c', 'd')))))
            out.append(('bin-deep', B(x, B(y, 'a', 'b'), B(z, 'c', 'd'))))
    # prefix / postfix over compound operands
    for u in ('-', '!', 'not'):
        out += [('unary', U(u, 'a')), ('unary', U(u, B('o1', 'a', 'b'))), ('unary', U(u, Tn('a', 'b', 'c'))),
                ('unary', U(u, P('++', 'a'))), ('unary', U(u, U('-', 'a'))), ('unary', B('o1', U(u, 'a'), 'b')),
                ('unary', B('o1', 'a', U(u, 'b'))), ('unary', U(u, 'f(a)')), ('unary', U(u, '[a]'))]
    out += [('postfix', P('++', 'a')), ('postfix', P('++', B('o1', 'a', 'b'))), ('postfix', P('--', U('-', 'a'))),
            ('postfix', P('++', Tn('a', 'b', 'c'))), ('postfix', P('++', P('--', 'a'))), ('postfix', B('o1', P('++', 'a'), 'b')),
            ('postfix', B('o1', 'a', P('++', 'b'))), ('postfix', P('++', 'f(a)')), ('postfix', P('++', '1')),
            # negated number literals in every position a negative literal could be mistaken for an atom
            ('postfix', P('++', U('-', '5'))), ('postfix', P('--', U('-', '0.25'))), ('postfix', B('*', '3', P('++', U('-', '5')))),
            ('unary', U('-', '5')), ('unary', U('-', U('-', '5'))), ('unary', B('-', '2', U('-', '5'))), ('unary', B('o1', U('-', '5'), '2')),
            ('unary', U('-', P('++', '5'))), ('unary', U('!', U('-', '1'))), ('unary', '[' + U('-', '1') + ',{' + U('-', '2') + ':' + U('-', '3') + '}]')]
    # conditionals everywhere
    out += [('cond', Tn('a', 'b', 'c')), ('cond', Tn(Tn('a', 'b', 'c'), 'd', 'e')), ('cond', Tn('a', Tn('b', 'c', 'd'), 'e')),
            ('cond', Tn('a', 'b', Tn('c', 'd', 'e'))), ('cond', Tn(B('o1', 'a', 'b'), B('o2', 'c', 'd'), B('o1', 'e', 'f'))),
            ('cond', B('o1', Tn('a', 'b', 'c'), 'd')), ('cond', B('o1', 'a', Tn('b', 'c', 'd'))),
            ('cond', B('=', 'a', Tn('b', 'c', 'd'))), ('cond', Tn(B('=', 'a', 'b'), 'c', 'd')),
            ('cond', Tn(U('!', 'a'), 'b', 'c')), ('cond', Tn(P('++', 'a'), 'b', 'c')),
            ('cond', Tn(NB('o1', 'a', 'b'), 'c', 'd')), ('cond', Tn('a', NB('o1', 'b', 'c'), NB('o2', 'd', 'e')))]
    # not OP forms
    out += [('not', NB('o1', 'a', 'b')), ('not', NB('in', '2', '[2]')), ('not', B('o2', NB('o1', 'a', 'b'), 'c')),
            ('not', B('o2', 'a', NB('o1', 'b', 'c'))), ('not', NB('o2', NB('o1', 'a', 'b'), 'c')),
            ('not', NB('o2', 'a', NB('o1', 'b', 'c'))), ('not', NB('o1', B('o2', 'a', 'b'), 'c')),
            ('not', NB('o1', 'a', B('o2', 'b', 'c'))), ('not', U('not', NB('o1', 'a', 'b'))), ('not', U('-', NB('o1', 'a', 'b'))),
            ('not', P('++', NB('o1', 'a', 'b'))), ('not', NB('==', B('-', 'a', 'b'), 'c'))]
    # containers and statements
    out += [('container', 'f()'), ('container', 'f(a)'), ('container', 'f(' + B('o1', 'a', 'b') + ',' + Tn('c', 'd', 'e') + ')'),
            ('container', '[]'), ('container', '[a]'), ('container', '[' + B('o1', 'a', 'b') + ',' + Tn('c', 'd', 'e') + ',[f]]'),
            ('container', '{}'), ('container', '{a:b}'), ('container', '{' + Tn('a', 'b', 'c') + ':' + Tn('d', 'e', 'f') + ',' + B('o1', 'g', 'h') + ':1}'),
            ('container', 'a;b'), ('container', B('=', 'a', '1') + ';' + B('o1', 'a', 'b') + ';' + Tn('c', 'd', 'e')),
            ('container', B('o1', 'f(a)', '[b]')), ('container', '(a)'), ('container', '((a))'), ('container', ''),
            ('container', 'f(g(a,[b,{c:d}]))')]
    # literals
    out += [('literal', "'a\"b'"), ('literal', '"a\'b"'), ('literal', "''"), ('literal', '"x y"'), ('literal', "'é'"),
            ('literal', '1.50'), ('literal', '007'), ('literal', '0.0'), ('literal', '1.'), ('literal', 'true'),
            ('literal', 'False'), ('literal', B('o1', "'a\"b'", '"c"')), ('literal', 'f("a", \'b"\')'),
            ('literal', B('-', '1.10', '2'))]
    # string literals: either quote around every content of <= 3 characters over {a ' " \ blank-free}; texts the parser
    # rejects are skipped (the property speaks about ASTs that were returned)
    for q in ("'", '"'):
        for n in (1, 2, 3):
            for content in itertools.product("a'\"\\", repeat=n):
                out.append(('string-enum', q + ''.join(content) + q))
    return out


def prepare(it):
    it.call('init::init', [])


def harness(it, px, params):
    tpls = params['trees']
    k = pick_config(px, 'tree', len(tpls))
    fam, text = tpls[k]
    toks = text.replace('(', ' ( ').replace(')', ' ) ').split()
    used = [o for o in SYM_OPS if o in toks]
    P_, A = {}, {}
    for o in used:
        p = px.bv('p_' + o, 32)
        px.add(z3.And(p >= 1, p <= PMAX))
        left = it.truth(px.bool('left_' + o))
        P_[o] = p
        A[o] = left
    for a, b in itertools.combinations(used, 2):
        if A[a] != A[b]:
            px.add(P_[a] != P_[b])
    for o in used:
        for name in set(toks):
            if name in rf.BUILTIN_INFIX:
                bp, bassoc, _ = rf.BUILTIN_INFIX[name]
                if (bassoc == 'LEFT') != A[o]:
                    px.add(P_[o] != bp)
    px.get_model()
    for o in used:
        it.call('register_infix_op', [mkstr(o), P_[o], Enum('InfixOpType', 0, 'CALC'), c02.assoc_enum(A[o]),
                                      ArcV(Cell(c02.echo_handler(o), 'h'))])
    rec = {'family': fam, 'text': text}
    if fam == 'string-enum':
        if api.parse(it, text).kind != 'ok':
            rec['outcome'] = 'source-rejected'
            rec['table'] = {}
            px.cover('string-enum-rejected')
            return rec
        px.cover('string-enum-accepted')
    cause, detail, tj = roundtrip(it, text, rec)
    m = px.get_model()
    table = {o: (m.eval(P_[o], model_completion=True).as_signed_long(), 'LEFT' if A[o] else 'RIGHT') for o in used}
    rec['table'] = table
    rec['outcome'] = cause or 'roundtrip'
    px.cover('tree-' + fam)
    if cause:
        px.finding({'key': 'C12|%s|%s' % (cause, text), 'desc': 'expr() of the AST of `%s` renders `%s`: %s %s' % (text, rec.get('expr'), cause, detail or ''),
                    'text': text, 'table': table, 'family': fam, 'cause': cause})
        return rec
    if used and fam in params.get('rereg', ()):
        # history sensitivity: re-register the operators with fresh symbolic attributes, render and re-parse again
        P2, A2 = {}, {}
        for o in used:
            p2 = px.bv('q_' + o, 32)
            px.add(z3.And(p2 >= 1, p2 <= PMAX))
            left2 = it.truth(px.bool('left2_' + o))
            P2[o], A2[o] = p2, left2
        for a, b in itertools.combinations(used, 2):
            if A2[a] != A2[b]:
                px.add(P2[a] != P2[b])
        for o in used:
            for name in set(toks):
                if name in rf.BUILTIN_INFIX:
                    bp, bassoc, _ = rf.BUILTIN_INFIX[name]
                    if (bassoc == 'LEFT') != A2[o]:
                        px.add(P2[o] != bp)
        px.get_model()
        for o in used:
            it.call('register_infix_op', [mkstr(o), P2[o], Enum('InfixOpType', 0, 'CALC'), c02.assoc_enum(A2[o]),
                                          ArcV(Cell(c02.echo_handler(o), 'h'))])
        rec2 = {}
        cause2, detail2, _ = roundtrip(it, text, rec2)
        px.cover('reregistered-' + fam)
        if cause2:
            m = px.get_model()
            t2 = {o: (m.eval(P2[o], model_completion=True).as_signed_long(), 'LEFT' if A2[o] else 'RIGHT') for o in used}
            t1 = {o: (m.eval(P_[o], model_completion=True).as_signed_long(), 'LEFT' if A[o] else 'RIGHT') for o in used}
            px.finding({'key': 'C12|%s-after-reregistration|%s' % (cause2, text), 'desc': 'after re-registering the operators with %s (before: %s) expr() of the AST of `%s` renders `%s`: %s' % (t2, t1, text, rec2.get('expr'), cause2),
                        'text': text, 'table': t2, 'table_before': t1, 'family': fam, 'cause': cause2})
    return rec


def roundtrip(it, text, rec):
    """parse `text`, render it, re-parse: -> (cause|None, detail, ast json)"""
    r = api.parse(it, text)
    if r.kind != 'ok':
        rec['outcome'] = 'source-' + r.kind
        raise ModelError('tree text `%s` did not parse: %s %s' % (text, r.kind, r.detail or render.error_variant(r.value)))
    t = r.value
    tj = render.ast_json(t)
    rec['ast'] = tj['k']
    cause = None
    detail = None
    e = api.expr(it, t)
    if e.kind != 'ret':
        cause, detail = 'expr-' + e.kind, e.detail
    else:
        es = render.hexs(e.value)
        rec['expr'] = bytes.fromhex(es).decode('utf-8', 'replace')
        r2 = api.parse(it, e.value)
        if r2.kind != 'ok':
            cause = 'reparse-' + r2.kind
            detail = r2.detail if r2.kind != 'err' else render.error_variant(r2.value)
        else:
            tj2 = render.ast_json(r2.value)
            if tj2 != tj:
                cause = 'ast-differs'
            else:
                e2 = api.expr(it, r2.value)
                if e2.kind != 'ret' or render.hexs(e2.value) != es:
                    cause = 'not-idempotent'
    return cause, detail, tj


def native_roundtrip_broken(o):
    if o.get('kind') != 'ok':
        return None      # source did not parse natively: not a confirmation
    if isinstance(o.get('expr'), dict):
        return True
    rp = o.get('reparse', {})
    if rp.get('kind') != 'ok':
        return True
    return rp.get('ast') != o.get('ast') or rp.get('expr') != o.get('expr')


def scenario(text, table, before=None):
    steps = c02.scenario(text, table, before)
    steps[-1]['want'] = ['ast', 'expr', 'reparse']
    return steps


def run(ctx):
    tpls = trees(ctx.tier)
    params = {'trees': tpls, 'rereg': ('bin-left', 'bin-right') if ctx.tier == 'quick' else ('bin-left', 'bin-right', 'bin-deep', 'not', 'cond'), 'seed': ctx.seed, 'timeout_ms': 10000 if ctx.tier == 'quick' else 60000, 'step_limit': 400000}
    eng = ctx.engine('dev')
    recs, summ = ex.explore(eng, harness, params, prepare=prepare)
    inconclusive = []
    by_status = {}
    for r in recs:
        by_status[r['status']] = by_status.get(r['status'], 0) + 1
        if r['status'] in ('unsupported', 'inconclusive'):
            inconclusive.append('%s: %s %s' % (r['status'], r.get('detail'), r.get('where', '')))
    inconclusive = sorted(set(inconclusive))
    covers = set()
    for r in recs:
        covers.update(r.get('covers', []))
    fams = sorted(set(f for f, _ in tpls))
    for f in fams:
        if 'tree-' + f not in covers:
            inconclusive.append('vacuity: family %s never reached' % f)
    groups = {}
    for r in recs:
        for f in r.get('findings', []):
            groups.setdefault(f['key'], []).append(f)
    findings = []
    validated = 0
    for key, fs in sorted(groups.items()):
        f = fs[0]
        table = {o: (int(p), a) for o, (p, a) in f['table'].items()}
        before = {o: (int(p), a) for o, (p, a) in f['table_before'].items()} if f.get('table_before') else None
        sc = scenario(f['text'], table, before)
        od = ctx.native(sc, 'dev')[-1]
        orl = ctx.native(sc, 'release')[-1]
        validated += 1
        findings.append({'key': key, 'desc': f['desc'][:300], 'confirmed': bool(native_roundtrip_broken(od)), 'scenario': sc,
                         'expect': {'step': len(sc) - 1, 'reparse': 'must be ok with the same ast and expr'},
                         'witness_text': '%s with %s' % (f['text'], json.dumps(table)),
                         'native': {'dev': od, 'release': orl}, 'id': sid([key, table]), 'count': len(fs)})
    okrecs = [r for r in recs if r['status'] == 'done' and not r.get('findings')]
    stride = max(1, len(okrecs) // (60 if ctx.tier == 'quick' else 300))
    for r in okrecs[::stride]:
        table = {o: (int(p), a) for o, (p, a) in r['table'].items()}
        o = ctx.native(scenario(r['text'], table), 'dev')[-1]
        validated += 1
        if r.get('outcome') == 'source-rejected':
            if o.get('kind') == 'ok':
                inconclusive.append('encoder mismatch on sampled path: %s is rejected by the model, accepted natively' % r['text'])
            continue
        if native_roundtrip_broken(o) is not False or bytes.fromhex(o['expr']).decode('utf-8', 'replace') != r.get('expr'):
            inconclusive.append('encoder mismatch on sampled path: %s %s' % (r['text'], table))
    samples = []
    seen = set()
    for r in recs:
        if r['status'] == 'done' and r['family'] not in seen:
            seen.add(r['family'])
            samples.append({'family': r['family'], 'source': r['text'], 'expr': r.get('expr'), 'table': r['table'], 'outcome': r['outcome']})
    ev = {
        'coverage': {
            'states': max(1, summ['paths']), 'transitions': max(1, summ['decisions']),
            'traces_validated_against_impl': validated, 'samples': samples,
            'exhaustive': not summ.get('truncated') and not inconclusive,
            'bound': {'trees': len(tpls), 'families': fams, 'symbolic_operators': list(SYM_OPS), 'precedence_range': [1, PMAX],
                      'max_depth': 3},
            'path_status': by_status,
            'solver': {'engine': 'z3 ' + z3.get_version_string(), 'queries_sat': summ['sat'], 'queries_unsat': summ['unsat'],
                       'queries_unknown': summ['unknown'], 'solver_s': round(summ['solver_s'], 2)},
            'mir_steps': summ['steps'], 'workers': summ['workers'],
            'functions_encoded': summ['bodies_used'], 'library_models_used': summ['models_used'], 'covers_hit': sorted(covers),
            'outside': ['ASTs that are not instances of the listed tree family (depth > 3, other operator mixes)',
                        'names that are operator words', 'ASTs constructed by hand (not produced by the parser)'],
        },
        'assumptions': ['equal precedence implies equal associativity', 'ASTs come from parse_expression on fully parenthesised text',
                        'library models validated by the conformance corpus and sampled native replays'],
    }
    return {'findings': findings, 'inconclusive': inconclusive, 'evidence': ev,
            'summary': 'paths=%d trees=%d findings=%d' % (summ['paths'], len(tpls), len(findings))}
