"""C02 — operators group exactly by the documented precedence and associativity.

Operator *names* are concrete, their *attributes* are symbolic: the harness registers fresh word
operators o1..o3 through the real register_infix_op MIR with symbolic precedence in [1, 10^9] and
symbolic associativity, then parses a template text over these operators, the built-in operators,
`not`, prefix/postfix operators, `?:`, parentheses, calls, lists and maps.  The parser's own
comparisons fork on the order type of the precedences, so each path stands for a class of operator
tables.  Oracle: harness/refparse.py (documented rules), evaluated under the same path condition.
"""
import itertools
import json
import z3

from values import *
import api
import render
import explore as ex
from harness.common import *
from harness import refparse as rf

ID = 'C02'
SYM_OPS = ('o1', 'o2', 'o3')
PMAX = 10 ** 9


def T(s):
    return s.split()


def templates(tier):
    """list of (family, tokens).  Symbolic operators: o1 o2 o3."""
    out = []
    # F1: plain chains over symbolic operators (with repetition: associativity)
    for k in (1, 2, 3):
        for ops in itertools.product(SYM_OPS[:k], repeat=k):
            if sorted(set(ops)) != list(SYM_OPS[:len(set(ops))]):
                continue
            toks = ['a0']
            for i, o in enumerate(ops):
                toks += [o, 'a%d' % (i + 1)]
            out.append(('F1-chain', toks))
    if tier == 'thorough':
        for ops in itertools.product(SYM_OPS, repeat=4):
            if sorted(set(ops)) != list(SYM_OPS[:len(set(ops))]):
                continue
            toks = ['a0']
            for i, o in enumerate(ops):
                toks += [o, 'a%d' % (i + 1)]
            out.append(('F1-chain', toks))
    # F2: symbolic operators mixed with built-ins
    reps = ['=', '+=', '||', '&&', '==', '<', '|', '^', '&', '<<', '+', '-', '*', '%', 'in', 'beginWith']
    for b in reps:
        out.append(('F2-mixed', T('a %s b o1 c' % b)))
        out.append(('F2-mixed', T('a o1 b %s c' % b)))
    for b1, b2 in (('+', '*'), ('*', '+'), ('=', '+'), ('&&', '||'), ('<', '+'), ('==', '&&')):
        out.append(('F2-mixed', T('a %s b o1 c %s d' % (b1, b2))))
        out.append(('F2-mixed', T('a o1 b %s c o2 d' % b1)))
        if tier == 'thorough':
            out.append(('F2-mixed', T('a o1 b %s c %s d o2 e' % (b1, b2))))
    # F4: not
    out += [('F4-not', T('a not o1 b')), ('F4-not', T('a o1 b not o2 c')), ('F4-not', T('a not o1 b o2 c')),
            ('F4-not', T('a o1 b not o2 c o3 d')), ('F4-not', T('a not o1 b not o1 c')),
            ('F4-not', T('true && 3 not in [ 3 ]')), ('F4-not', T('1 + 2 * 3 not == 7')),
            ('F4-not', T('a + b not == c')), ('F4-not', T('a not == b + c')), ('F4-not', T('2 not in [ 2 ]')),
            ('F4-not', T('a || b not && c')), ('F4-not', T('not a o1 b')), ('F4-not', T('a o1 not b'))]
    # F5: prefix / postfix
    # the same token sequences written without optional spaces (fam|text): a sign next to a digit is still a prefix operator
    out += [('F5-unary|-5++', T('- 5 ++')), ('F5-unary|10 - -2++', T('10 - - 2 ++')), ('F5-unary|-2 o1 b', T('- 2 o1 b')), ('F5-unary|a o1 -2--', T('a o1 - 2 --')),
            ('F5-unary|+1.5++*2', T('+ 1.5 ++ * 2')), ('F5-unary|!a o1 -3', T('! a o1 - 3'))]
    out += [('F5-unary', T('- a o1 b')), ('F5-unary', T('a o1 - b')), ('F5-unary', T('a o1 b ++')),
            ('F5-unary', T('a ++ o1 b')), ('F5-unary', T('- a ++')), ('F5-unary', T('! a o1 b o2 c')),
            ('F5-unary', T('- a ++ o1 - b --')), ('F5-unary', T('a o1 ! b o2 c')), ('F5-unary', T('- ( a o1 b )')),
            ('F5-unary', T('( a o1 b ) ++')), ('F5-unary', T('- 5')), ('F5-unary', T('+ 5 - 2 * 4')), ('F5-unary', T('- 5 o1 b')),
            ('F5-unary', T('a o1 - 1.5')), ('F5-unary', T('- 0')), ('F5-unary', T('! true')), ('F5-unary', T('- 5 ++')), ('F5-unary', T('- "s"'))]
    # F6: conditional
    out += [('F6-cond', T('a ? b : c')), ('F6-cond', T('a o1 b ? c : d')), ('F6-cond', T('a ? b o1 c : d')),
            ('F6-cond', T('a ? b : c o1 d')), ('F6-cond', T('a o1 b ? c o2 d : e o3 f')),
            ('F6-cond', T('a ? b : c ? d : e')), ('F6-cond', T('a ? b ? c : d : e')),
            ('F6-cond', T('a o1 b o2 c ? d : e')), ('F6-cond', T('5 < 2 + 3 ? 4 : 2')),
            ('F6-cond', T('a = b ? c : d')), ('F6-cond', T('a + b * c ? d : e')), ('F6-cond', T('a && b || c ? d : e')),
            ('F6-cond', T('( a ? b : c ) o1 d')), ('F6-cond', T('a o1 ( b ? c : d )')), ('F6-cond', T('- a ? b : c')),
            ('F6-cond', T('a ++ ? b : c')), ('F6-cond', T('a not o1 b ? c : d'))]
    # F7: parentheses
    out += [('F7-paren', T('a o1 ( b o2 c ) o3 d')), ('F7-paren', T('( a o1 b ) o2 c')), ('F7-paren', T('a o1 ( b o2 c )')),
            ('F7-paren', T('( ( a ) )')), ('F7-paren', T('( a o1 b ) o1 ( c o1 d )')), ('F7-paren', T('( ( a o1 b ) o2 c ) o3 d'))]
    # F8: containers
    out += [('F8-container', T('f ( a o1 b , c ) o2 d')), ('F8-container', T('[ a o1 b , c o2 d ] o3 e')),
            ('F8-container', T('{ a o1 b : c o2 d } o3 e')), ('F8-container', T('a o1 f ( b o2 c ) o3 [ d ]')),
            ('F8-container', T('a o1 b ; c o2 d')), ('F8-container', T('f ( a ? b : c , d o1 e )'))]
    return out


def builtin_sweep():
    """concrete side check: every ordered pair of built-in infix operators, `a OP1 b OP2 c`"""
    ops = list(rf.BUILTIN_INFIX)
    return [('F3-builtin-pairs', ['a', x, 'b', y, 'c']) for x in ops for y in ops]


def prepare(it):
    it.call('init::init', [])


def echo_handler(tag):
    def h(it, args):
        return Ok(api.V_str(tag))
    return PyFn(h, tag)


def assoc_enum(left):
    return Enum('InfixOpAssociativity', 0 if left else 1, 'LEFT' if left else 'RIGHT')


def harness(it, px, params):
    tpls = params['templates']
    k = pick_config(px, 'tpl', len(tpls))
    fam, toks = tpls[k]
    used = [o for o in SYM_OPS if o in toks]
    infix = dict(rf.BUILTIN_INFIX)
    P = {}
    A = {}
    for o in used:
        p = px.bv('p_' + o, 32)
        px.add(z3.And(p >= 1, p <= PMAX))
        left = it.truth(px.bool('left_' + o))
        P[o] = p
        A[o] = left
        infix[o] = (p, 'LEFT' if left else 'RIGHT', 'CALC')
    # equal precedence => equal associativity (as for the built-ins)
    for a, b in itertools.combinations(used, 2):
        if A[a] != A[b]:
            px.add(P[a] != P[b])
    for o in used:
        for name in set(toks):
            if name in rf.BUILTIN_INFIX:
                bp, bassoc, _ = rf.BUILTIN_INFIX[name]
                if (bassoc == 'LEFT') != A[o]:
                    px.add(P[o] != bp)
    px.get_model()
    for o in used:
        it.call('register_infix_op', [mkstr(o), P[o], Enum('InfixOpType', 0, 'CALC'), assoc_enum(A[o]),
                                      ArcV(Cell(echo_handler(o), 'h'))])
    text = ' '.join(toks)
    if '|' in fam:
        fam, text = fam.split('|', 1)
    rec = {'family': fam, 'text': text, 'toks': list(toks)}
    r = api.parse(it, text)
    rec['outcome'] = r.kind
    got = None
    if r.kind == 'ok':
        got = render.ast_json(r.value)
    elif r.kind == 'err':
        rec['err'] = render.error_variant(r.value)

    def val(x):
        return x if is_sym(x) else z3.BitVecVal(x, 32)

    def gt(a, b):
        return it.truth(simp_gt(val(a), val(b)))

    def ge(a, b):
        return it.truth(simp_ge(val(a), val(b)))
    want = rf.ref_parse(toks, infix, gt, ge)
    m = px.get_model()
    table = {o: (m.eval(P[o], model_completion=True).as_signed_long(), 'LEFT' if A[o] else 'RIGHT') for o in used}
    rec['table'] = table
    px.cover('parsed-' + fam)
    if got == want and used and params.get('rereg') and fam in params['rereg']:
        # history sensitivity: re-register every symbolic operator with fresh symbolic attributes and parse again
        P2, A2 = {}, {}
        infix2 = dict(rf.BUILTIN_INFIX)
        for o in used:
            p2 = px.bv('q_' + o, 32)
            px.add(z3.And(p2 >= 1, p2 <= PMAX))
            left2 = it.truth(px.bool('left2_' + o))
            P2[o], A2[o] = p2, left2
            infix2[o] = (p2, 'LEFT' if left2 else 'RIGHT', 'CALC')
        for a, b in itertools.combinations(used, 2):
            if A2[a] != A2[b]:
                px.add(P2[a] != P2[b])
        for o in used:
            for name in set(toks):
                if name in rf.BUILTIN_INFIX:
                    bp, bassoc, _ = rf.BUILTIN_INFIX[name]
                    if (bassoc == 'LEFT') != A2[o]:
                        px.add(P2[o] != bp)
        px.get_model()
        for o in used:
            it.call('register_infix_op', [mkstr(o), P2[o], Enum('InfixOpType', 0, 'CALC'), assoc_enum(A2[o]), ArcV(Cell(echo_handler(o), 'h'))])
        r2 = api.parse(it, text)
        got2 = render.ast_json(r2.value) if r2.kind == 'ok' else {'outcome': r2.kind}
        want2 = rf.ref_parse(toks, infix2, gt, ge)
        px.cover('reregistered-' + fam)
        if got2 != want2:
            m = px.get_model()
            t1 = {o: (m.eval(P[o], model_completion=True).as_signed_long(), 'LEFT' if A[o] else 'RIGHT') for o in used}
            t2 = {o: (m.eval(P2[o], model_completion=True).as_signed_long(), 'LEFT' if A2[o] else 'RIGHT') for o in used}
            px.finding({'key': 'C02|misparse|after-reregistration|%s' % text, 'desc': 'after re-registering the operators with %s, `%s` still groups as under the old table %s' % (t2, text, t1),
                        'text': text, 'toks': list(toks), 'table': t2, 'table_before': t1, 'family': fam, 'got': got2, 'want': want2, 'outcome': r2.kind, 'detail': None})
        return rec
    if got != want:
        # does the mismatch need adjacent precedences?  ask for a witness without any
        cause = 'grouping'
        vals = [P[o] for o in used] + [z3.BitVecVal(rf.BUILTIN_INFIX[t][0], 32) for t in set(toks) if t in rf.BUILTIN_INFIX]
        nonadj = [z3.And(x - y != 1, y - x != 1) for x, y in itertools.combinations(vals, 2)]
        if nonadj:
            m2 = px.feasible(z3.And(nonadj))
            if m2 is None:
                cause = 'adjacent-precedence'
            else:
                table = {o: (m2.eval(P[o], model_completion=True).as_signed_long(), 'LEFT' if A[o] else 'RIGHT') for o in used}
        if '?' in toks:
            cause = 'conditional' if cause == 'grouping' else cause
        elif 'not' in toks:
            cause = 'not' if cause == 'grouping' else cause
        px.finding({'key': 'C02|misparse|%s|%s' % (cause, text), 'desc': 'parse of `%s` does not group as documented (%s)' % (text, cause),
                    'text': text, 'toks': list(toks), 'table': table, 'family': fam, 'got': got, 'want': want, 'outcome': r.kind,
                    'detail': r.detail if r.kind not in ('ok', 'err') else rec.get('err')})
    return rec


def simp_gt(a, b):
    return a > b


def simp_ge(a, b):
    return a >= b


def concrete_expect(toks, table):
    infix = dict(rf.BUILTIN_INFIX)
    for o, (p, a) in table.items():
        infix[o] = (p, a, 'CALC')
    return rf.ref_parse(toks, infix)


def scenario(text, table, before=None):
    steps = []
    if before:
        for o, (p, a) in sorted(before.items()):
            steps.append({'op': 'register_infix', 'name': o.encode().hex(), 'prec': int(p), 'type': 'CALC', 'assoc': a,
                          'handler': {'h': 'echo', 'id': o}})
        steps.append({'op': 'parse', 'hex': text.encode().hex(), 'want': ['ast', 'expr']})
    for o, (p, a) in sorted(table.items()):
        steps.append({'op': 'register_infix', 'name': o.encode().hex(), 'prec': int(p), 'type': 'CALC', 'assoc': a,
                      'handler': {'h': 'echo', 'id': o}})
    steps.append({'op': 'parse', 'hex': text.encode().hex(), 'want': ['ast']})
    return steps


def run(ctx):
    tpls = templates(ctx.tier)
    params = {'templates': tpls, 'seed': ctx.seed, 'timeout_ms': 10000 if ctx.tier == 'quick' else 60000,
              'step_limit': 400000, 'rereg': ('F1-chain',) if ctx.tier == 'quick' else ('F1-chain', 'F2-mixed', 'F4-not')}
    eng = ctx.engine('dev')
    recs, summ = ex.explore(eng, harness, params, prepare=prepare)
    # concrete built-in sweep (side check: registry contents == documented table)
    sweep = builtin_sweep()
    it = eng.new_interp()
    prepare(it)
    sweep_bad = []
    for fam, toks in sweep:
        text = ' '.join(toks)
        r = api.parse(it, text)
        got = render.ast_json(r.value) if r.kind == 'ok' else {'outcome': r.kind}
        want = rf.ref_parse(toks, rf.BUILTIN_INFIX)
        if got != want:
            sweep_bad.append({'key': 'C02|misparse|builtin-table|%s' % text, 'desc': 'built-in operators in `%s` do not group as the documented table says' % text,
                              'text': text, 'toks': list(toks), 'table': {}, 'family': fam, 'got': got, 'want': want})
    return judge(ctx, recs, summ, params, sweep_bad, len(sweep))


def judge(ctx, recs, summ, params, extra_findings, n_sweep):
    inconclusive = []
    by_status = {}
    for r in recs:
        by_status[r['status']] = by_status.get(r['status'], 0) + 1
        if r['status'] in ('unsupported', 'inconclusive'):
            inconclusive.append('%s: %s %s' % (r['status'], r.get('detail'), r.get('where', '')))
    inconclusive = sorted(set(inconclusive))
    covers = set()
    for r in recs:
        covers.update(r.get('covers', []))
    fams = sorted(set(f.split('|')[0] for f, _ in params['templates']))
    for f in fams:
        if 'parsed-' + f not in covers:
            inconclusive.append('vacuity: family %s never parsed' % f)
    groups = {}
    for r in recs:
        for f in r.get('findings', []):
            groups.setdefault(f['key'], []).append(f)
    for f in extra_findings:
        groups.setdefault(f['key'], []).append(f)
    findings = []
    validated = 0
    for key, fs in sorted(groups.items()):
        f = fs[0]
        toks = f.get('toks') or f['text'].split()
        table = {o: (int(p), a) for o, (p, a) in f['table'].items()}
        before = {o: (int(p), a) for o, (p, a) in f['table_before'].items()} if f.get('table_before') else None
        sc = scenario(f['text'], table, before)
        want = concrete_expect(toks, table)
        obs = ctx.native(sc, 'dev')
        obs_r = ctx.native(sc, 'release')
        validated += 1
        o = obs[-1]
        native_ast = o.get('ast') if o.get('kind') == 'ok' else {'outcome': o.get('kind'), 'variant': o.get('variant')}
        confirmed = native_ast != want
        findings.append({'key': key, 'desc': f['desc'], 'confirmed': confirmed, 'scenario': sc,
                         'expect': {'step': len(sc) - 1, 'ast_should_be': want},
                         'witness_text': '%s with %s' % (f['text'], json.dumps(table)),
                         'native': {'dev': o, 'release': obs_r[-1]}, 'id': sid([key, table]), 'count': len(fs)})
    # validate a sample of agreeing paths natively
    okrecs = [r for r in recs if r['status'] == 'done' and not r.get('findings') and r.get('outcome') == 'ok']
    stride = max(1, len(okrecs) // (60 if ctx.tier == 'quick' else 400))
    mism = []
    for r in okrecs[::stride]:
        table = {o: (int(p), a) for o, (p, a) in r['table'].items()}
        sc = scenario(r['text'], table)
        o = ctx.native(sc, 'dev')[-1]
        validated += 1
        want = concrete_expect(r.get('toks') or r['text'].split(), table)
        if o.get('kind') != 'ok' or o.get('ast') != want:
            mism.append('%s %s' % (r['text'], table))
    for mm in mism[:5]:
        inconclusive.append('encoder mismatch on sampled path: ' + mm)
    samples = []
    seen = set()
    for r in recs:
        if r['status'] == 'done' and r['family'] not in seen:
            seen.add(r['family'])
            samples.append({'family': r['family'], 'text': r['text'], 'table': r['table'], 'outcome': r['outcome']})
    ev = {
        'coverage': {
            'states': max(1, summ['paths']), 'transitions': max(1, summ['decisions']),
            'traces_validated_against_impl': validated, 'samples': samples,
            'exhaustive': not summ.get('truncated') and not inconclusive,
            'bound': {'templates': len(params['templates']), 'families': fams, 'symbolic_operators': len(SYM_OPS),
                      'precedence_range': [1, PMAX], 'associativity': 'symbolic', 'builtin_pair_sweep_concrete': n_sweep},
            'path_status': by_status,
            'solver': {'engine': 'z3 ' + z3.get_version_string(), 'queries_sat': summ['sat'], 'queries_unsat': summ['unsat'],
                       'queries_unknown': summ['unknown'], 'solver_s': round(summ['solver_s'], 2)},
            'mir_steps': summ['steps'], 'workers': summ['workers'],
            'functions_encoded': summ['bodies_used'], 'library_models_used': summ['models_used'],
            'covers_hit': sorted(covers),
            'outside': ['expressions that are not instances of the %d templates (longer chains, several `not`/`?:` per chain beyond those listed)' % len(params['templates']),
                        'operator tables in which equal precedences carry different associativities'],
        },
        'assumptions': ['equal precedence implies equal associativity (as in the built-in table)',
                        'oracle = harness/refparse.py, the documented grammar and binding rules',
                        'library models validated by the conformance corpus and sampled native replays'],
    }
    return {'findings': findings, 'inconclusive': inconclusive, 'evidence': ev,
            'summary': 'paths=%d templates=%d findings=%d' % (summ['paths'], len(params['templates']), len(findings))}
