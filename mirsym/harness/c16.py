"""C16 — evaluations are deterministic and isolated from one another (sequential part).

For ordered pairs (A, B) of programs from a fixed list — assignments, failures midway, same names,
operators of equal length at the same offset, nested expressions, calls — chosen by symbolic
selectors, with symbolic numbers in the contexts:
  alone   : B evaluated on a fresh context in a fresh post-init engine state
  history : A parsed only / evaluated once / evaluated R=130 times on its own context (to amplify
            any per-evaluation leak), then B evaluated on a fresh context
Assertions (z3 validity on the symbolic context values): B's outcome, value and final context are
the same in both runs; A's context is not touched by B; the same AST evaluated twice on equal
contexts gives equal outcomes; parsing alone changes no registry / global cell.
Global cells (statics, thread-locals) that differ after a call are reported in the evidence; they are
a violation only through an observable difference (a correct cache is allowed).
Buffer addresses are symbolic (std::str::as_ptr): the solver may identify the addresses of two
buffers that are never alive together, as an allocator may; realisability is settled natively.
"""
import json
import z3

from values import *
import api
import render
import explore as ex
from harness.common import *
from harness import evalsem as es
from harness import refeval as re_
from harness import symval as sv
from harness import opsem

ID = 'C16'
R = 130
# in-flight mode: a shallow expression around the context function p (what one evaluation holds is small, so the total
# held by k of them can be adjusted finely); at most MAX_INFLIGHT evaluations of it in flight at once
INFLIGHT_PROGRAM = '1 + ( p ( ) )'
MAX_INFLIGHT = 300
PROGRAMS = [
    'x + y', 'x - y', 'x * 2 ; x', 'a = x ; a', 'a = x ; a < y ; a', 'a < y ; a', 'a = 4 ; a', 'a < 4 ; a',
    '7 - 2', '7 + 2', 'x / 0', '1 + ( 2 + ( 3 / 0 ) )', 'a = x ; b = a / 0 ; c = 1', 'q', 'q + 1',
    'min ( x , y )', 'max ( x , y ) ; nosuch ( 1 )', '[ x , y , "s" ]', 'x == y ? "eq" : "ne"', '! ( x < y )',
    'a = 1 ; a += x ; a', 'a = 1 ; a -= x ; a', 'x in [ y , 1 ]', '( ( ( ( x ) ) ) )', '- x ++',
    'max ( [ 1 , { 2 : ( 3',          # rejected by the parser with four groups open
]


# programs around four names that are registered (postfix pct, prefix twice, infix plus, function q) *after* program A was
# parsed: "the registrations made so far" are the same in both runs, only the earlier parse differs
REG_PROGRAMS = ['x pct', 'pct + 1', 'twice x', 'x plus y', 'q', 'q ( x )', 'x pct plus twice y', '[ pct , twice , plus ]']


def do_registrations(it):
    first = PyFn(lambda i, a: Ok(a[0] if a else api.V_NONE), 'first')
    firstv = PyFn(lambda i, a: Ok(a[0].items[0] if (a and isinstance(a[0], Arr) and a[0].items) else api.V_NONE), 'firstv')
    it.call('register_postfix_op', [mkstr('pct'), ArcV(Cell(first, 'h'))])
    it.call('register_prefix_op', [mkstr('twice'), ArcV(Cell(first, 'h'))])
    it.call('register_infix_op', [mkstr('plus'), 100, Enum('InfixOpType', 0, 'CALC'), Enum('InfixOpAssociativity', 0, 'LEFT'), ArcV(Cell(first, 'h'))])
    it.call('register_function', [mkstr('q'), ArcV(Cell(firstv, 'h'))])


def prepare(it):
    it.call('init::init', [])


def registries_snapshot(it):
    snap = {}
    for name, cell in it.statics.items():
        snap[name] = cell.v
    return snap


def changed_cells(before, it):
    out = []
    for name, cell in it.statics.items():
        if name not in before:
            out.append(name + ' (created)')
        elif before[name] is not cell.v:
            out.append(name)
    return out


def ctx_of(it, x, y):
    return api.new_context(it, [('x', ('var', x)), ('y', ('var', y))])


def outcome_triple(it, o, ctx):
    ents = None
    try:
        ents = api.ctx_entries(ctx)
    except Exception:
        pass
    return o, ents


def same_outcome(px, o1, e1, o2, e2):
    """-> (ok, description, model)"""
    if o1.kind != o2.kind:
        return False, 'outcome %s vs %s (%s / %s)' % (o1.kind, o2.kind, o1.detail if o1.kind not in ('ok', 'err') else '', o2.detail if o2.kind not in ('ok', 'err') else ''), None
    if o1.kind == 'ok':
        ok, m = px.check(re_.value_eq(o1.value, o2.value))
        if not ok:
            return False, 'values differ', m
    if o1.kind == 'err' and render.error_variant(o1.value) != render.error_variant(o2.value):
        return False, 'error %s vs %s' % (render.error_variant(o1.value), render.error_variant(o2.value)), None
    if (e1 is None) != (e2 is None):
        return False, 'context readable in one run only', None
    if e1 is not None:
        n1 = sorted(bytes(k.b).decode() for k, _ in e1)
        n2 = sorted(bytes(k.b).decode() for k, _ in e2)
        if n1 != n2:
            return False, 'context names %s vs %s' % (n1, n2), None
        d2 = {bytes(k.b).decode(): b for k, b in e2}
        for k, b in e1:
            b2 = d2[bytes(k.b).decode()]
            if b[0] != b2[0]:
                return False, 'binding kind of %s differs' % bytes(k.b).decode(), None
            if b[0] == 'var':
                ok, m = px.check(re_.value_eq(b[1], b2[1]))
                if not ok:
                    return False, 'context value of %s differs' % bytes(k.b).decode(), m
    return True, '', None


def harness(it, px, params):
    progs = params['programs']
    progsA = params.get('programs_A', progs)
    ia = pick_config(px, 'A', len(progsA))
    ib = pick_config(px, 'B', len(progs))
    modes = params['modes']
    mode = modes[pick_config(px, 'mode', len(modes))]
    A, B = progsA[ia], progs[ib]
    px.notes.append('%s | %s | %s' % (A, B, mode))
    S = [0, 1]
    xs = {}
    for nm in ('x', 'y', 'x2', 'y2'):
        m = px.int(nm)
        px.add(z3.And(m >= -10 ** 12, m <= 10 ** 12))
        xs[nm] = api.V_num(m, 0)
    px.get_model()
    rec = {'A': A, 'B': B, 'mode': mode}
    accel_k = None
    snap0 = registries_snapshot(it)
    # ---- alone
    if mode == 'parse-then-register':
        do_registrations(it)
    ctxB = ctx_of(it, xs['x2'], xs['y2'])
    oB = api.execute(it, B, ctxB)
    oB, eB = outcome_triple(it, oB, ctxB)
    leak_alone = changed_cells(snap0, it)
    # restore the global state for the history run
    for name in list(it.statics):
        if name in snap0:
            it.statics[name].v = snap0[name]
        else:
            del it.statics[name]
    if hasattr(px, 'ptrs'):
        pass
    # ---- history
    ctxA = ctx_of(it, xs['x'], xs['y'])
    problems = []
    if mode == 'parse-then-register':
        pa = api.parse(it, A)
        if pa.kind not in ('ok', 'err'):
            problems.append(('parse-%s' % pa.kind, 'parse of A ends with %s' % pa.kind, None))
        do_registrations(it)
    elif mode == 'parse-only':
        before = registries_snapshot(it)
        pa = api.parse(it, A)
        ch = changed_cells(before, it)
        rec['cells_changed_by_parse'] = ch
        if pa.kind not in ('ok', 'err'):
            problems.append(('parse-%s' % pa.kind, 'parse of A ends with %s' % pa.kind, None))
    elif mode == 'in-flight':
        # A is being evaluated on k other threads, each paused inside the context function p, while B runs here.
        # What one in-flight evaluation holds in process-wide integers (value inside p minus value after it returned) is
        # multiplied by a solver variable k (evalsem leak acceleration, applied to concurrency instead of history).
        inside = {}

        def pause(it_, args):
            inside['s'] = es.static_ints(it_)
            return Ok(api.V_num(7, 0))
        ctxA = api.new_context(it, [('p', ('func', PyFn(pause, 'p')))])
        oA = api.execute(it, A, ctxA)
        after = es.static_ints(it)
        held = [(key, after[key], v - after[key]) for key, v in sorted(inside.get('s', {}).items())
                if not key[0].startswith('tls[') and key in after and v != after[key]]
        if oA.kind == 'ok' and held:
            accel_k = px.bv('inflight_k', 64)
            px.add(z3.ULE(accel_k, z3.BitVecVal(MAX_INFLIGHT, 64)))
            px.get_model()
            for (name, pth), base, d in held:
                cell = it.statics[name]
                cell.v = es._replace_leaf(cell.v, pth, z3.BitVecVal(base % (1 << 64), 64) + accel_k * z3.BitVecVal(d % (1 << 64), 64))
            rec['held_in_flight'] = ['%s%s: %+d' % (n_, list(p_), d_) for (n_, p_), _, d_ in held]
            px.cover('in-flight-accelerated')
    elif mode == 'twice-same-ast':
        pa = api.parse(it, A)
        if pa.kind == 'ok':
            c1 = ctx_of(it, xs['x'], xs['y'])
            c2 = ctx_of(it, xs['x'], xs['y'])
            r1 = api.exec_ast(it, pa.value, c1)
            r2 = api.exec_ast(it, pa.value, c2)
            ok, why, m = same_outcome(px, r1, api.ctx_entries(c1), r2, api.ctx_entries(c2))
            if not ok:
                problems.append(('same-ast-twice', 'the same AST evaluated twice on equal contexts: ' + why, m))
    else:
        n = 1 if mode == 'once' else R
        before = registries_snapshot(it)
        ints = [es.static_ints(it)]
        for i in range(n):
            ctxA = ctx_of(it, xs['x'], xs['y'])
            oA = api.execute(it, A, ctxA)
            if oA.kind not in ('ok', 'err'):
                break
            if i < 2:
                ints.append(es.static_ints(it))
        rec['cells_changed_by_exec'] = changed_cells(before, it)
        if n == R and len(ints) == 3 and oA.kind in ('ok', 'err'):
            # leak acceleration (evalsem.accelerate_leaks): an integer static that moved by the same d in each of the R
            # evaluations of A stands for "R + k evaluations" with k a solver variable; B is then explored under it
            end = es.static_ints(it)
            lin = {key: v for key, v in end.items() if key in ints[1] and key in ints[2] and ints[2][key] - ints[1][key] != 0
                   and v == ints[1][key] + (R - 1) * (ints[2][key] - ints[1][key])}
            if lin:
                s0 = {key: v for key, v in ints[0].items() if key in lin}
                accel_k, cells = es.accelerate_leaks(it, px, s0, {k_: ints[1][k_] for k_ in lin}, {k_: ints[2][k_] for k_ in lin}, base=end)
                rec['accelerated'] = cells
                px.cover('leak-accelerated')
    ctxB2 = ctx_of(it, xs['x2'], xs['y2'])
    entsA_before = api.ctx_entries(ctxA)
    oB2 = api.execute(it, B, ctxB2)
    oB2, eB2 = outcome_triple(it, oB2, ctxB2)
    ok, why, m = same_outcome(px, oB, eB, oB2, eB2)
    if not ok:
        problems.append(('history-changes-result', 'B after the history differs from B alone: ' + why, m))
    entsA_after = api.ctx_entries(ctxA)
    if [(bytes(k.b), b[0]) for k, b in entsA_before] != [(bytes(k.b), b[0]) for k, b in entsA_after]:
        problems.append(('other-context-touched', 'evaluating B changed the context of A', None))
    px.cover('mode-' + mode)
    rec['outcome'] = oB2.kind
    mdl = None
    for p in problems:
        mdl = mdl or p[2]
    mdl = mdl or px.get_model()
    rec['witness'] = {k: str(mdl.eval(v.f[0].m, model_completion=True).as_long()) for k, v in xs.items()}
    if accel_k is not None and mode == 'in-flight':
        kv = mdl.eval(accel_k, model_completion=True).as_long()
        if problems:
            # the least k on this path: with fewer evaluations in flight each of them still gets in
            lo, hi = 0, kv
            while lo < hi:
                mid = (lo + hi) // 2
                px.solver.push()
                px.solver.add(z3.ULE(accel_k, z3.BitVecVal(mid, 64)))
                r = px.solver.check()
                px.solver.pop()
                if r == z3.sat:
                    hi = mid
                else:
                    lo = mid + 1
            kv = lo
        rec['witness']['inflight'] = kv
    elif accel_k is not None:
        rec['witness']['reps'] = R + mdl.eval(accel_k, model_completion=True).as_long()
    ptrs = getattr(px, 'ptrs', {})
    if ptrs:
        rec['addresses'] = {str(sym): mdl.eval(sym, model_completion=True).as_long() for (_, sym) in ptrs.values()}
    for cause, desc, _ in problems:
        px.finding({'key': 'C16|%s|%s|%s|%s' % (cause, mode, A, B), 'desc': 'A=`%s` (%s) then B=`%s`: %s' % (A, mode, B, desc),
                    'A': A, 'B': B, 'mode': mode, 'witness': rec['witness'], 'cause': cause})
    return rec


def scenario(A, B, mode, w):
    def ctx(name, x, y):
        return [{'op': 'ctx_new', 'ctx': name},
                {'op': 'ctx_set_var', 'ctx': name, 'name': b'x'.hex(), 'value': {'t': 'num', 'm': x, 's': 0}},
                {'op': 'ctx_set_var', 'ctx': name, 'name': b'y'.hex(), 'value': {'t': 'num', 'm': y, 's': 0}}]
    steps = []
    if mode == 'parse-then-register':
        steps.append({'op': 'parse', 'hex': A.encode().hex(), 'want': []})
        steps += REG_STEPS
    elif mode == 'parse-only':
        steps.append({'op': 'parse', 'hex': A.encode().hex(), 'want': []})
    elif mode == 'in-flight':
        k = int(w.get('inflight', 0))
        lists = []
        for i in range(k):
            lists.append([{'op': 'ctx_new', 'ctx': 'p%d' % i},
                          {'op': 'ctx_set_func', 'ctx': 'p%d' % i, 'name': b'p'.hex(), 'handler': {'h': 'arrive_wait', 'flag': 'go', 'ms': 6000, 'id': 'p'}},
                          {'op': 'execute', 'hex': A.encode().hex(), 'ctx': 'p%d' % i}])
        main = [{'op': 'wait_arrived', 'n': k, 'ms': 5000}] + ctx('b', w['x2'], w['y2']) + [
            {'op': 'execute', 'hex': B.encode().hex(), 'ctx': 'b'}, {'op': 'ctx_dump', 'ctx': 'b'}, {'op': 'set_flag', 'flag': 'go'}]
        return [{'op': 'threads', 'threads': lists + [main], 'ms': 15000}]
    elif mode == 'twice-same-ast':
        steps += ctx('a1', w['x'], w['y']) + [{'op': 'execute', 'hex': A.encode().hex(), 'ctx': 'a1'}]
        steps += ctx('a2', w['x'], w['y']) + [{'op': 'execute', 'hex': A.encode().hex(), 'ctx': 'a2'}]
    else:
        n = 1 if mode == 'once' else int(w.get('reps', R))
        for i in range(n):
            # each context of the history is dropped before the next one is created (one context per request):
            # address-keyed state in the crate then meets a reused address
            steps += ctx('a%d' % i, w['x'], w['y']) + [{'op': 'execute', 'hex': A.encode().hex(), 'ctx': 'a%d' % i}, {'op': 'ctx_drop', 'ctx': 'a%d' % i}]
    steps += ctx('b', w['x2'], w['y2']) + [{'op': 'execute', 'hex': B.encode().hex(), 'ctx': 'b'}, {'op': 'ctx_dump', 'ctx': 'b'}]
    return steps


REG_STEPS = [{'op': 'register_postfix', 'name': b'pct'.hex(), 'handler': {'h': 'first', 'id': 'pct'}},
             {'op': 'register_prefix', 'name': b'twice'.hex(), 'handler': {'h': 'first', 'id': 'twice'}},
             {'op': 'register_infix', 'name': b'plus'.hex(), 'prec': 100, 'type': 'CALC', 'assoc': 'LEFT', 'handler': {'h': 'first', 'id': 'plus'}},
             {'op': 'register_function', 'name': b'q'.hex(), 'handler': {'h': 'first', 'id': 'q'}}]


def scenario_alone(B, w, mode=None):
    return (REG_STEPS if mode == 'parse-then-register' else []) + [{'op': 'ctx_new', 'ctx': 'b'},
            {'op': 'ctx_set_var', 'ctx': 'b', 'name': b'x'.hex(), 'value': {'t': 'num', 'm': w['x2'], 's': 0}},
            {'op': 'ctx_set_var', 'ctx': 'b', 'name': b'y'.hex(), 'value': {'t': 'num', 'm': w['y2'], 's': 0}},
            {'op': 'execute', 'hex': B.encode().hex(), 'ctx': 'b'}, {'op': 'ctx_dump', 'ctx': 'b'}]


def obs_key(o):
    return json.dumps({k: v for k, v in o.items() if k not in ('log', 'loc', 'msg', 'text')}, sort_keys=True)


def run(ctx):
    progs = PROGRAMS if ctx.tier == 'thorough' else PROGRAMS
    params = {'programs': progs, 'seed': ctx.seed, 'timeout_ms': 10000, 'step_limit': 20_000_000}
    eng = ctx.engine('dev')
    recs, summ = ex.explore(eng, harness, dict(params, modes=['parse-only', 'once', 'twice-same-ast'], wall_budget=500 if ctx.tier == 'quick' else 900), prepare=prepare)
    recs2, summ2 = ex.explore(eng, harness, dict(params, modes=['repeat'], wall_budget=500 if ctx.tier == 'quick' else 900), prepare=prepare)
    recs3, summ3 = ex.explore(eng, harness, dict(params, programs=REG_PROGRAMS, modes=['parse-then-register'], wall_budget=300 if ctx.tier == 'quick' else 400), prepare=prepare)
    recs4, summ4 = ex.explore(eng, harness, dict(params, programs_A=[INFLIGHT_PROGRAM], modes=['in-flight'], wall_budget=200 if ctx.tier == 'quick' else 400), prepare=prepare)
    recs += recs2 + recs3 + recs4
    for s_ in (summ2, summ3, summ4):
        for k in ('paths', 'sat', 'unsat', 'unknown', 'solver_s', 'steps', 'decisions'):
            summ[k] += s_[k]
        summ['truncated'] = summ['truncated'] or s_['truncated']
        summ['models_used'] = sorted(set(summ['models_used']) | set(s_['models_used']))
        summ['bodies_used'] = sorted(set(summ['bodies_used']) | set(s_['bodies_used']))
    inconclusive = []
    by_status = {}
    for r in recs:
        by_status[r['status']] = by_status.get(r['status'], 0) + 1
        if r['status'] in ('unsupported', 'inconclusive'):
            inconclusive.append('%s: %s %s %s' % (r['status'], r.get('detail'), r.get('where', ''), r.get('notes')))
    inconclusive = sorted(set(inconclusive))[:20]
    covers = set()
    for r in recs:
        covers.update(r.get('covers', []))
    for need in ('mode-parse-only', 'mode-once', 'mode-repeat', 'mode-twice-same-ast', 'mode-parse-then-register', 'mode-in-flight'):
        if need not in covers:
            inconclusive.append('vacuity: %s never reached' % need)
    groups = {}
    for r in recs:
        for f in r.get('findings', []):
            groups.setdefault((f['cause'], f['mode'], f['B']), []).append(f)
    findings = []
    validated = 0
    nonrepro = 0
    for gk, fs in sorted(groups.items()):
        confirmed_f = None
        tried = []
        for f in fs[:6]:
            sc = scenario(f['A'], f['B'], f['mode'], f['witness'])
            od = ctx.native(sc, 'dev', timeout=120)
            oa = ctx.native(scenario_alone(f['B'], f['witness'], f['mode']), 'dev')
            validated += 1
            if f['mode'] == 'in-flight':
                res_main = (od[-1].get('results') or [[]])[-1]
                od = list(od) + (res_main[-3:-1] if len(res_main) >= 3 else [{'kind': 'missing'}, {'kind': 'missing'}])
            bad = obs_key(od[-2]) != obs_key(oa[-2]) or obs_key(od[-1]) != obs_key(oa[-1])
            if f['mode'] == 'twice-same-ast':
                execs = [o for o, s in zip(od, sc) if s['op'] == 'execute']
                bad = obs_key(execs[0]) != obs_key(execs[1])
            tried.append((f, sc, od, oa, bad))
            if bad:
                confirmed_f = tried[-1]
                break
        f, sc, od, oa, bad = confirmed_f or tried[0]
        findings.append({'key': 'C16|%s|%s|B=%s' % gk, 'desc': f['desc'][:300], 'confirmed': bool(bad), 'scenario': sc,
                         'expect': {'same_as_alone': oa[-2:]}, 'witness_text': 'A=`%s` B=`%s` %s' % (f['A'], f['B'], json.dumps(f['witness'])),
                         'native': {'dev': od[-2:]}, 'id': sid([gk, f['A']]), 'count': len(fs)})
    changed = {}
    for r in recs:
        for k in ('cells_changed_by_parse', 'cells_changed_by_exec'):
            for c in r.get(k, []) or []:
                changed[c] = changed.get(c, 0) + 1
    # sampled native validation: B after A equals B alone natively
    done = [r for r in recs if r['status'] == 'done' and not r.get('findings') and r['mode'] in ('once', 'parse-only')]
    for r in done[:: max(1, len(done) // 40)]:
        od = ctx.native(scenario(r['A'], r['B'], r['mode'], r['witness']), 'dev')
        oa = ctx.native(scenario_alone(r['B'], r['witness']), 'dev')
        validated += 1
        if obs_key(od[-2]) != obs_key(oa[-2]):
            inconclusive.append('native history-dependence on a path the model says is fine: A=`%s` B=`%s`' % (r['A'], r['B']))
        elif od[-2].get('kind') != r['outcome']:
            inconclusive.append('encoder mismatch: B=`%s` model %s native %s' % (r['B'], r['outcome'], od[-2].get('kind')))
    samples = [{'A': r['A'], 'B': r['B'], 'mode': r['mode'], 'B_outcome': r.get('outcome'), 'context_numbers': r.get('witness')} for r in recs if r['status'] == 'done'][:: max(1, len(recs) // 20)][:25]
    ev = {
        'coverage': {
            'states': max(1, summ['paths']), 'transitions': max(1, summ['decisions']),
            'traces_validated_against_impl': validated, 'samples': samples, 'exhaustive': not summ.get('truncated') and not inconclusive, 'truncated_by_budget': bool(summ.get('truncated')),
            'bound': {'programs': len(progs), 'ordered_pairs': len(progs) ** 2, 'history_modes': ['parse-only', 'once', 'repeat x%d' % R, 'same AST twice', 'A parsed, then postfix/prefix/infix/function registrations, then B (programs: %s)' % REG_PROGRAMS,
                                                     'in-flight: k <= %d evaluations of `%s` paused inside a context function on other threads while B runs (k symbolic; what one of them holds in process-wide integers is multiplied by k; the least k is reported)' % (MAX_INFLIGHT, INFLIGHT_PROGRAM),
                                                     'repeat: integers in statics / thread-locals that move linearly per evaluation are extrapolated by a symbolic k <= %d further evaluations' % es.ACCEL_MAX],
                      'context_values': 'four symbolic integers |n| <= 10^12'},
            'path_status': by_status, 'global_cells_changed_by_a_call': changed,
            'solver': {'engine': 'z3 ' + z3.get_version_string(), 'queries_sat': summ['sat'], 'queries_unsat': summ['unsat'],
                       'queries_unknown': summ['unknown'], 'solver_s': round(summ['solver_s'], 2)},
            'mir_steps': summ['steps'], 'workers': summ['workers'],
            'functions_encoded': summ['bodies_used'], 'library_models_used': summ['models_used'],
            'outside': ['thread interleavings (C13)', 'registration histories (C08)', 'histories longer than A^%d ; B' % R, 'programs outside the list'],
        },
        'assumptions': ['an allocator may give two buffers that are never alive together the same address (addresses are unconstrained symbols); candidate counterexamples are replayed natively',
                        'library models validated by the conformance corpus and sampled native replays'],
    }
    return {'findings': findings, 'inconclusive': inconclusive, 'evidence': ev,
            'summary': 'paths=%d pairs=%d findings=%d' % (summ['paths'], len(progs) ** 2, len(findings))}
