"""C14 — handlers may re-enter the engine without deadlock.

Every handler kind (context function by call and by bare name, global function, prefix / infix /
postfix operator) performs a re-entrant action chosen by a symbolic selector: parse_expression,
execute on a fresh context, register_function / _prefix_op / _infix_op / _postfix_op of a fresh
name, or locking the evaluating context's own Arc<Mutex<..>> handle.  The Mutex model tracks the
holder: locking a mutex already held by the same thread is the Deadlock outcome (std's Mutex is
not re-entrant).  Assertion: no Deadlock, and the evaluation completes with the normal result.
"""
import json
import z3
from values import *
import api
import render
import models
import explore as ex
from harness.common import *
from harness import evalsem as es
from harness import symval as sv
from harness import opsem
from harness import c06, c15

ID = 'C14'
T = es.T
ACTIONS = ['parse', 'execute', 'register_function', 'register_prefix', 'register_infix', 'register_postfix', 'lock_ctx', 'execute_self', 'set_var',
           'execute_then_register', 'parse_then_register', 'execute_twice', 'register_then_execute']
# (the last four: two actions in a row inside one handler invocation)
SEQ = {'execute_then_register': ('execute', 'register_function'), 'parse_then_register': ('parse', 'register_infix'),
       'execute_twice': ('execute', 'execute'), 'register_then_execute': ('register_postfix', 'execute')}
# set_var: the handler binds x = 41 in the very context it is being evaluated in (through its shared handle)
FORTY_ONE = api.V_num(41, 0)
# execute_self: the handler evaluates a program that invokes the same handler again (two levels deep)
SELF_PROGRAMS = {'gf': 'gf(1)', '+++': '+++ 1', '---': '1 ---', 'hi': '1 hi 2'}
SEVEN = api.V_num(7, 0)
# what a re-entering handler parses / evaluates: goes through the function, prefix, infix and postfix registries
REENTRANT_PROGRAM = 'max(1,-2)+3++'


def templates(tier):
    out = []

    def add(tid, text, funcs):
        out.append((tid, T(text), {}, funcs, 0))
    add('ctx-call', 'f1 ( )', {'f1': 1})
    add('ctx-bare', 'g1', {'g1': 1})
    add('ctx-bare-in-expr', 'g1 + 1', {'g1': 1})
    add('global-fn', 'gf ( 1 )', {})
    add('prefix', '+++ 1', {})
    add('postfix', '1 ---', {})
    add('infix', '1 hi 2', {})
    add('nested', 'f1 ( g1 , +++ gf ( 1 hi 2 ) --- )', {'f1': 1, 'g1': 1})
    add('assign', 'x = g1 ; y = f1 ( ) ; x + y', {'f1': 1, 'g1': 1})
    # the same handler resolved twice in a row (memoised look-ups), directly and nested
    add('global-fn-twice', 'gf ( 1 ) + gf ( 2 )', {})
    add('global-fn-nested', 'gf ( gf ( 1 ) )', {})
    add('ctx-call-twice', 'f1 ( ) + f1 ( )', {'f1': 1})
    add('ctx-bare-twice', 'g1 + g1', {'g1': 1})
    add('prefix-twice', '+++ +++ 1', {})
    add('postfix-twice', '( 1 --- ) ---', {})
    add('infix-twice', '1 hi 2 hi 3', {})
    # assignment whose target is bound to a re-entering context function
    add('assign-target-fn', 'g1 = 2 ; g1', {'g1': 1})
    add('compound-target-fn', 'g1 += 10 ; g1', {'g1': 1})
    add('assign-chain-target-fn', 'x = g1 += 1 ; x', {'g1': 1})
    add('setter-op', 'g1 becomes 1 ; g1', {'g1': 1})
    # the right side of an assignment runs a handler while the target's old value has been read already
    add('compound-rhs-handler', 'x = 1 ; x += f1 ( ) ; x', {'f1': 1})
    add('compound-rhs-bare', 'x = 1 ; x *= g1 ; x', {'g1': 1})
    add('assign-rhs-handler', 'x = 1 ; x = x + f1 ( ) ; x', {'f1': 1})
    add('setter-rhs-handler', 'x = 1 ; x becomes gf ( 2 ) ; x', {})
    return out


def prepare(it):
    it.call('init::init', [])


def make_reenter(action, depth2):
    if action in SEQ:
        first, second = (make_reenter(a, depth2) for a in SEQ[action])

        def both(it_, ctx_cell, name):
            first(it_, ctx_cell, name)
            second(it_, ctx_cell, name)
        return both

    def act(it_, ctx_cell, name):
        if action == 'parse':
            r = it_.call('parse_expression', [mkstr(REENTRANT_PROGRAM)])
            if r.name != 'Ok':
                raise ModelError('re-entrant parse failed')
        elif action == 'execute':
            c = api.new_context(it_)
            r = it_.call('execute', [mkstr(REENTRANT_PROGRAM), c.v])
            if r.name != 'Ok':
                raise ModelError('re-entrant execute failed')
        elif action == 'register_function':
            it_.call('register_function', [mkstr('reent_' + name), ArcV(Cell(PyFn(lambda i, a: Ok(api.V_num(1, 0)), 'k'), 'h'))])
        elif action == 'register_prefix':
            it_.call('register_prefix_op', [mkstr('reent_' + name), ArcV(Cell(PyFn(lambda i, a: Ok(api.V_num(1, 0)), 'k'), 'h'))])
        elif action == 'register_postfix':
            it_.call('register_postfix_op', [mkstr('reent_' + name), ArcV(Cell(PyFn(lambda i, a: Ok(api.V_num(1, 0)), 'k'), 'h'))])
        elif action == 'register_infix':
            it_.call('register_infix_op', [mkstr('reent_' + name), 100, Enum('InfixOpType', 0, 'CALC'), Enum('InfixOpAssociativity', 0, 'LEFT'),
                                           ArcV(Cell(PyFn(lambda i, a: Ok(api.V_num(1, 0)), 'k'), 'h'))])
        elif action == 'execute_self':
            if es.NESTED['d'] < 2:
                es.NESTED['d'] += 1
                try:
                    c = api.new_context(it_)
                    r = it_.call('execute', [mkstr(SELF_PROGRAMS.get(name, REENTRANT_PROGRAM)), c.v])
                finally:
                    es.NESTED['d'] -= 1
                if r.name != 'Ok':
                    raise ModelError('re-entrant execute of the same handler failed')
        elif action == 'set_var':
            it_.call('context::Context::set_variable', [Ref(ctx_cell, ()), mkstr('x'), FORTY_ONE])
        elif action == 'lock_ctx':
            arc = ctx_cell.v.f[0]
            g = models.mutex_lock(it_, [Ref(arc.cell, ())], 'std::sync::Mutex::<..>::lock')
            guard = g.f[0]
            _ = len(rd(Ref(guard.ref.cell, guard.ref.path + (('mx',),))).items)
            it_.release_guard(guard, False)
    return act


def ref_reenter(action):
    if action != 'set_var':
        return None
    return lambda env, name: env.set_var('x', FORTY_ONE)


def harness(it, px, params):
    tpls = params['templates']
    k = pick_config(px, 'tpl', len(tpls))
    tid, toks, vspecs, fspecs, _ = tpls[k]
    ai = pick_config(px, 'action', len(ACTIONS))
    action = ACTIONS[ai]
    px.notes.append(tid + '/' + action)
    frets = {nm: SEVEN for nm in fspecs}
    res = es.run_template(it, px, toks, {}, frets, reenter=make_reenter(action, False), use_globals=True, const_ret=SEVEN,
                          followup=c15.followup, ref_reenter=ref_reenter(action))
    rec = {'tpl': tid, 'text': res['text'], 'action': action, 'outcome': res['got'].kind, 'want': res['want_kind'], 'log': res['log_m']}
    px.cover('tpl-' + tid)
    px.cover('action-' + action)
    probs = es.compare(px, res)
    fo = res['follow']
    for b in fo['locks']:
        probs.append(('lock-state', b))
    if fo['exec'] != 'ok':
        probs.append(('followup-exec-' + fo['exec'], 'a follow-up evaluation on the same context does not work'))
    rec['witness'] = {'vars': {}, 'funcs': sorted(fspecs), 'action': action}
    for cause, desc in probs:
        px.finding({'key': 'C14|%s|%s|%s' % (cause, tid, action), 'desc': '`%s` with handlers doing `%s`: %s' % (res['text'], action, desc),
                    'text': res['text'], 'tpl': tid, 'witness': rec['witness'], 'cause': cause})
    return rec


def scenario(text, witness):
    a = witness['action']

    def h(id_):
        return {'h': 'reenter', 'action': a, 'ctx': 'c', 'id': id_}
    steps = [{'op': 'reset_counter'},
             {'op': 'register_function', 'name': b'gf'.hex(), 'handler': h('gf')},
             {'op': 'register_prefix', 'name': b'+++'.hex(), 'handler': h('+++')},
             {'op': 'register_postfix', 'name': b'---'.hex(), 'handler': h('---')},
             {'op': 'register_infix', 'name': b'hi'.hex(), 'prec': es.HI_PREC, 'type': 'CALC', 'assoc': 'LEFT', 'handler': h('hi')},
             {'op': 'register_infix', 'name': b'becomes'.hex(), 'prec': es.BECOMES_PREC, 'type': 'SETTER', 'assoc': 'RIGHT', 'handler': h('becomes')},
             {'op': 'ctx_new', 'ctx': 'c'}]
    for n in witness['funcs']:
        steps.append({'op': 'ctx_set_func', 'ctx': 'c', 'name': n.encode().hex(), 'handler': h(n)})
    steps.append({'op': 'execute_timeout', 'hex': text.encode().hex(), 'ctx': 'c', 'ms': 3000})
    return steps


def concrete_reference(text, witness):
    from harness import refparse as rf, refeval as re_
    toks = text.split()
    box = {}

    def wrap(name, log_it=False):
        def h(*args):
            if log_it:
                box['e'].log.append(name)
            if witness['action'] == 'set_var':
                box['e'].set_var('x', FORTY_ONE)
            return SEVEN
        return h
    env = re_.Env(dict([(n, ('func', wrap(n))) for n in witness['funcs']]))
    box['e'] = env
    env.globals['gf'] = wrap('gf')
    infix = es.infix_table_with_hi()
    ev = re_.RefEval(lambda c: bool(c) if isinstance(c, bool) else z3.is_true(z3.simplify(c)), infix)
    ev.prefix_extra['+++'] = wrap('+++', True)
    ev.postfix_extra['---'] = wrap('---', True)
    ev.infix_handlers['hi'] = wrap('hi', True)
    ev.infix_handlers['becomes'] = wrap('becomes', True)
    try:
        v = ev.eval(rf.ref_parse(toks, infix, prefix=rf.BUILTIN_PREFIX + ('+++',), postfix=rf.BUILTIN_POSTFIX + ('---',)), env)
        return 'ok', render.value_json(v, opsem._EmptyModel()), env.log
    except re_.RefErr:
        return 'err', None, env.log


def native_bad(o, ref):
    if o.get('kind') in ('hang', 'panic', 'crash', 'timeout'):
        return True
    if o.get('kind') != ref[0]:
        return True
    if ref[0] == 'ok' and render.norm_num(o.get('value')) != render.norm_num(ref[1]):
        return True
    return o.get('log') is not None and o.get('log') != ref[2]


def run(ctx):
    tpls = templates(ctx.tier)
    params = {'templates': tpls, 'seed': ctx.seed, 'timeout_ms': 10000, 'step_limit': 400000}
    eng = ctx.engine('dev')
    recs, summ = ex.explore(eng, harness, params, prepare=prepare)
    res = c06.judge(ctx, 'C14', tpls, recs, summ, scenario, concrete_reference, lambda a, b, ref: None, native=False,
                    extra_outside=['re-entrant nesting deeper than one level', 'actions other than the thirteen listed'])
    res['findings'] = []
    groups = {}
    for r in recs:
        for f in r.get('findings', []):
            groups.setdefault(f['key'], []).append(f)
    validated = 0
    for key, fs in sorted(groups.items()):
        f = fs[0]
        sc = scenario(f['text'], f['witness'])
        ref = concrete_reference(f['text'], f['witness'])
        od = ctx.native(sc, 'dev', timeout=30)[-1]
        orl = ctx.native(sc, 'release', timeout=30)[-1]
        validated += 1
        res['findings'].append({'key': key, 'desc': f['desc'][:300], 'confirmed': bool(native_bad(od, ref)) or bool(native_bad(orl, ref)), 'scenario': sc,
                                'expect': {'kind': ref[0], 'value': ref[1], 'log': ref[2], 'no': 'hang'},
                                'witness_text': '%s / %s' % (f['text'], f['witness']['action']),
                                'native': {'dev': od, 'release': orl}, 'id': sid([key]), 'count': len(fs)})
    okrecs = [r for r in recs if r['status'] == 'done' and not r.get('findings')]
    for r in okrecs[:: max(1, len(okrecs) // 40)]:
        o = ctx.native(scenario(r['text'], r['witness']), 'dev', timeout=30)[-1]
        validated += 1
        if native_bad(o, concrete_reference(r['text'], r['witness'])):
            res['inconclusive'].append('sampled path disagrees natively: `%s`/%s native=%s' % (r['text'], r['action'], json.dumps(o)[:300]))
    covers = set()
    for r in recs:
        covers.update(r.get('covers', []))
    for a in ACTIONS:
        if 'action-' + a not in covers:
            res['inconclusive'].append('vacuity: action %s never performed' % a)
    res['evidence']['coverage']['traces_validated_against_impl'] = validated
    res['evidence']['coverage']['bound']['actions'] = ACTIONS
    res['evidence']['coverage']['exhaustive'] = not res['inconclusive']
    res['evidence']['assumptions'].append('std::sync::Mutex is not re-entrant: lock() on a mutex held by the same thread never returns (modelled as the Deadlock outcome)')
    res['summary'] = 'paths=%d templates=%d findings=%d' % (summ['paths'], len(tpls), len(res['findings']))
    return res
