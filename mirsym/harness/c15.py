"""C15 — a failing or panicking handler is contained.

The k-th handler invocation (k symbolic) of any kind — context function by call or by bare name,
global function, prefix / infix / postfix operator — returns Err or panics.  Assertions: Err stops
the evaluation (no later handler in the call log); a panic reaches the caller as that same panic;
afterwards no registry lock and no context lock is held or poisoned, the Context holds exactly the
bindings made before the failure, and a follow-up evaluation on the same context works.
"""
import json
import z3
from values import *
import api
import render
import explore as ex
from harness.common import *
from harness import evalsem as es
from harness import symval as sv
from harness import opsem
from harness import c06, c07

ID = 'C15'
T = es.T
# touches the function, prefix, postfix and infix registries
FOLLOWUP = '[ min ( 1 , 2 ) , ! true , 1 ++ , 1 + 1 ]'
FOLLOWUP_VALUE = {'t': 'list', 'v': [{'t': 'num', 'm': '1', 's': 0}, {'t': 'bool', 'v': False}, {'t': 'num', 'm': '2', 's': 0}, {'t': 'num', 'm': '2', 's': 0}]}


REPEATED = ('all-kinds', 'list')
REPEAT = {'quick': 140, 'thorough': 300}


def templates(tier):
    sp = opsem.spec
    num = sp(['num'], (0,))
    out = []

    def add(tid, text, funcs, n, vars_=None):
        out.append((tid, T(text), vars_ or {}, funcs, n))
    add('ctx-call', 'f1 ( ) + f2 ( )', {'f1': num, 'f2': num}, 2)
    add('ctx-bare', 'g1 + g2', {'g1': num, 'g2': num}, 2)
    add('global-fn', 'gf ( f1 ( ) , g1 ) + 1', {'f1': num, 'g1': num}, 3)
    add('prefix', '+++ f1 ( ) + 1', {'f1': num}, 2)
    add('postfix', 'f1 ( ) --- + 1', {'f1': num}, 2)
    add('infix', 'f1 ( ) hi g1', {'f1': num, 'g1': num}, 3)
    add('all-kinds', '+++ gf ( f1 ( ) hi g1 ) ---', {'f1': num, 'g1': num}, 6)
    add('assign', 'x = f1 ( ) ; y = +++ x ; z = g1 ; w = gf ( y )', {'f1': num, 'g1': num}, 4)
    add('list', '[ f1 ( ) , +++ 1 , 2 --- , 3 hi 4 , gf ( ) , g1 ]', {'f1': num, 'g1': num}, 6)
    add('cond', 'b ? +++ f1 ( ) : g1 ---', {'f1': num, 'g1': num}, 2, {'b': sp(['bool'])})
    add('assign-target-fn', 'g1 = f1 ( ) ; g1', {'f1': num, 'g1': num}, 2)
    add('assign-compound-target-fn', 'g1 += f1 ( ) ; x = gf ( 1 )', {'f1': num, 'g1': num}, 3)
    # a failing context function that shadows a global of the same name (registered / built-in)
    add('shadow-global', 'gf ( 1 ) + f1 ( )', {'gf': num, 'f1': num}, 2)
    add('setter-op', 'x becomes f1 ( ) ; y = +++ x', {'f1': num}, 3, {'x': num})
    add('setter-op-target-fn', 'g1 becomes 1 ; g1', {'g1': num}, 2)
    return out


def prepare(it):
    it.call('init::init', [])


def lock_states(it, ctx):
    """-> list of problems with engine locks (registries + this context)"""
    bad = []
    for name, cell in it.statics.items():
        v = cell.v
        if isinstance(v, OnceV) and isinstance(v.val, MutexV):
            if v.val.held is not None:
                bad.append('registry lock %s still held' % name.split('::')[-3:])
            if v.val.poisoned:
                bad.append('registry lock %s poisoned' % name)
    return bad


def followup(it, ctx):
    out = {}
    r = api.execute(it, FOLLOWUP, ctx)
    out['exec'] = r.kind
    if r.kind == 'ok':
        out['exec_ok'] = render.norm_num(render.value_json(r.value)) == render.norm_num(FOLLOWUP_VALUE)
    g = api.guarded(it, it.call, 'context::Context::get_variable', [Ref(ctx, ()), mkstr('x')])
    out['get'] = g.kind
    out['locks'] = lock_states(it, ctx)
    return out


def harness(it, px, params):
    tpls = params['templates']
    k = pick_config(px, 'tpl', len(tpls))
    tid, toks, vspecs, fspecs, n = tpls[k]
    px.notes.append(tid)
    fault = pick_config(px, 'fault', n + 1)
    fkind = ['err', 'panic'][pick_config(px, 'fkind', 2)] if fault else 'err'
    vars_ = {nm: sv.sym_value(it, px, nm, s) for nm, s in sorted(vspecs.items())}
    frets = {nm: sv.sym_value(it, px, 'ret_' + nm, s) for nm, s in sorted(fspecs.items())}
    px.get_model()
    # deep templates are also run REPEAT more times before the follow-up (state leaked per failure adds up)
    rep = params.get('repeat', 0) if (fault and tid in REPEATED) else 0
    res = es.run_template(it, px, toks, vars_, frets, fault_at=fault, fault_kind=fkind, use_globals=True, followup=followup, repeat=rep, accelerate=True)
    if rep:
        px.cover('repeated-failures')
    rec = {'tpl': tid, 'text': res['text'], 'fault_at': fault, 'fault_kind': fkind, 'outcome': res['got'].kind, 'want': res['want_kind'], 'log': res['log_m']}
    px.cover('tpl-' + tid)
    if fault and len(res['log_m']) == fault:
        px.cover('fault-%s-hit' % fkind)
    probs = es.compare(px, res)
    if res['got'].kind == 'panic' and res['want_kind'] == 'panic' and 'verif-handler-panic' not in (res['got'].detail or ''):
        probs.append(('other-panic', 'a different panic reached the caller: %s' % res['got'].detail))
    fo = res['follow']
    for b in fo['locks']:
        probs.append(('lock-state', b))
    if fo['exec'] != 'ok' or not fo.get('exec_ok'):
        probs.append(('followup-exec-' + fo['exec'], 'a follow-up evaluation on the same context does not work'))
    if fo['get'] != 'ret':
        probs.append(('followup-get-' + fo['get'], 'get_variable on the same context fails afterwards'))
    m = res.get('cex_model') or px.get_model()
    extra = 0
    if res.get('accel_k') is not None:
        # leak acceleration (evalsem.accelerate_leaks): two real failing evaluations, then k more represented symbolically
        extra = 1 + m.eval(res['accel_k'], model_completion=True).as_long()
        px.cover('leak-accelerated')
        rec['accelerated'] = res['accel_cells']
    rec['witness'] = {'vars': {nm: sv.concrete(v, m) for nm, v in vars_.items()}, 'funcs': {nm: sv.concrete(v, m) for nm, v in frets.items()},
                      'fault_at': fault, 'fault_kind': fkind, 'repeat': rep, 'repeat_fresh': extra}
    for cause, desc in probs:
        px.finding({'key': 'C15|%s|%s|%s' % (cause, tid, fkind), 'desc': '`%s` (%s at invocation %d): %s' % (res['text'], fkind, fault, desc),
                    'text': res['text'], 'tpl': tid, 'witness': rec['witness'], 'cause': cause})
    return rec


def handler_spec(id_, kind, witness, value=None):
    h = {'h': kind, 'id': id_}
    if value is not None:
        h['value'] = value
    if witness.get('fault_at'):
        h['fail_at'] = witness['fault_at']
        h['fail'] = witness.get('fault_kind', 'err')
    return h


def scenario(text, witness):
    steps = [{'op': 'reset_counter'},
             {'op': 'register_function', 'name': b'gf'.hex(), 'handler': handler_spec('gf', 'first', witness)},
             {'op': 'register_prefix', 'name': b'+++'.hex(), 'handler': handler_spec('+++', 'first', witness)},
             {'op': 'register_postfix', 'name': b'---'.hex(), 'handler': handler_spec('---', 'first', witness)},
             {'op': 'register_infix', 'name': b'hi'.hex(), 'prec': es.HI_PREC, 'type': 'CALC', 'assoc': 'LEFT', 'handler': handler_spec('hi', 'first', witness)},
             {'op': 'register_infix', 'name': b'becomes'.hex(), 'prec': es.BECOMES_PREC, 'type': 'SETTER', 'assoc': 'RIGHT', 'handler': handler_spec('becomes', 'first', witness)},
             {'op': 'ctx_new', 'ctx': 'c'}]
    for n, v in sorted(witness['vars'].items()):
        steps.append({'op': 'ctx_set_var', 'ctx': 'c', 'name': n.encode().hex(), 'value': v})
    for n, v in sorted(witness['funcs'].items()):
        steps.append({'op': 'ctx_set_func', 'ctx': 'c', 'name': n.encode().hex(), 'handler': handler_spec(n, 'const', witness, v)})
    steps.append({'op': 'execute', 'hex': text.encode().hex(), 'ctx': 'c'})
    steps.append({'op': 'ctx_dump', 'ctx': 'c'})
    for _ in range(witness.get('repeat', 0)):
        steps.append({'op': 'reset_counter'})
        steps.append({'op': 'execute', 'hex': text.encode().hex(), 'ctx': 'c'})
    for _ in range(witness.get('repeat_fresh', 0)):
        # the same failing evaluation again, each time on a fresh context with the same bindings (leak acceleration witness)
        steps.append({'op': 'reset_counter'})
        steps.append({'op': 'ctx_new', 'ctx': 'r'})
        for n, v in sorted(witness['vars'].items()):
            steps.append({'op': 'ctx_set_var', 'ctx': 'r', 'name': n.encode().hex(), 'value': v})
        for n, v in sorted(witness['funcs'].items()):
            steps.append({'op': 'ctx_set_func', 'ctx': 'r', 'name': n.encode().hex(), 'handler': handler_spec(n, 'const', witness, v)})
        steps.append({'op': 'execute', 'hex': text.encode().hex(), 'ctx': 'r'})
    steps.append({'op': 'execute', 'hex': FOLLOWUP.encode().hex(), 'ctx': 'c'})
    steps.append({'op': 'ctx_get', 'ctx': 'c', 'name': b'x'.hex()})
    return steps


def concrete_reference(text, witness):
    from harness import refparse as rf, refeval as re_
    toks = text.split()
    cnt = {'n': 0}
    fa = witness.get('fault_at', 0)
    fk = witness.get('fault_kind', 'err')
    box = {}

    def wrap(name, behave, log_it=False):
        def h(*args):
            if log_it:
                box['e'].log.append(name)
            cnt['n'] += 1
            if fa and cnt['n'] == fa:
                if fk == 'panic':
                    raise es.Fault(name)
                raise re_.RefErr('injected')
            return behave(list(args[0]) if (len(args) == 1 and isinstance(args[0], list)) else list(args))
        return h
    first = lambda a: (a[0] if a else api.V_NONE)
    env = re_.Env(dict([(n, ('var', render.value_from_json(v))) for n, v in witness['vars'].items()] +
                       [(n, ('func', wrap(n, (lambda vv: (lambda a: render.value_from_json(vv)))(v)))) for n, v in witness['funcs'].items()]))
    box['e'] = env
    env.globals['gf'] = wrap('gf', first)
    infix = es.infix_table_with_hi()

    def truth(c):
        c = z3.simplify(c) if is_sym(c) else c
        return c if isinstance(c, bool) else z3.is_true(c)
    ev = re_.RefEval(truth, infix)
    ev.prefix_extra['+++'] = wrap('+++', first, True)
    ev.postfix_extra['---'] = wrap('---', first, True)
    ev.infix_handlers['hi'] = wrap('hi', first, True)
    ev.infix_handlers['becomes'] = wrap('becomes', first, True)
    try:
        v = ev.eval(rf.ref_parse(toks, infix, prefix=rf.BUILTIN_PREFIX + ('+++',), postfix=rf.BUILTIN_POSTFIX + ('---',)), env)
        kind, val = 'ok', render.value_json(v, opsem._EmptyModel())
    except re_.RefErr:
        kind, val = 'err', None
    except es.Fault:
        kind, val = 'panic', None
    except re_.Outside:
        kind, val = 'outside', None
    ents = []
    for n in env.b:
        b = env.b[n]
        ents.append({'name': n.encode().hex(), 'var': render.value_json(b[1], opsem._EmptyModel())} if b[0] == 'var' else {'name': n.encode().hex(), 'func': True})
    ents.sort(key=lambda e: bytes.fromhex(e['name']))
    return kind, val, ents, env.log


def four(obs, witness):
    """[execute, ctx_dump, follow-up execute, ctx_get] out of a scenario's observations (repeats in between skipped)"""
    per_fresh = 3 + len(witness.get('vars', {})) + len(witness.get('funcs', {}))
    i = len(obs) - 4 - 2 * witness.get('repeat', 0) - per_fresh * witness.get('repeat_fresh', 0)
    return [obs[i], obs[i + 1], obs[-2], obs[-1]]


def native_disagrees4(obs, ref):
    """obs = [execute, ctx_dump, followup execute, ctx_get]"""
    if c07.native_disagrees(obs[0], obs[1], ref):
        return True
    if obs[2].get('kind') != 'ok' or render.norm_num(obs[2].get('value')) != render.norm_num(FOLLOWUP_VALUE):
        return True
    if obs[3].get('kind') != 'ok':
        return True
    return False


def run(ctx):
    tpls = templates(ctx.tier)
    params = {'templates': tpls, 'seed': ctx.seed, 'timeout_ms': 10000, 'step_limit': 4000000, 'repeat': REPEAT[ctx.tier]}
    eng = ctx.engine('dev')
    recs, summ = ex.explore(eng, harness, params, prepare=prepare)
    res = c06.judge(ctx, 'C15', tpls, recs, summ, scenario, concrete_reference,
                    lambda a, b, ref: None, native=False, extra_outside=['more than one failing handler per evaluation', 'other threads observing the locks (single-threaded exploration)'])
    # native confirmation needs the four trailing observations: redo it here
    res['findings'] = []
    groups = {}
    for r in recs:
        for f in r.get('findings', []):
            groups.setdefault(f['key'], []).append(f)
    validated = 0
    for key, fs in sorted(groups.items()):
        f = fs[0]
        sc = scenario(f['text'], f['witness'])
        ref = concrete_reference(f['text'], f['witness'])
        od = ctx.native(sc, 'dev')
        orl = ctx.native(sc, 'release')
        validated += 1
        confirmed = bool(native_disagrees4(four(od, f['witness']), ref)) or bool(native_disagrees4(four(orl, f['witness']), ref))
        res['findings'].append({'key': key, 'desc': f['desc'][:300], 'confirmed': confirmed, 'scenario': sc,
                                'expect': {'reference': {'kind': ref[0], 'value': ref[1], 'ctx': ref[2], 'log': ref[3]}, 'then': 'ctx not poisoned, `1 + 1` == 2, get_variable works'},
                                'witness_text': '%s with %s' % (f['text'], json.dumps(f['witness'])[:300]),
                                'native': {'dev': four(od, f['witness']), 'release': four(orl, f['witness'])}, 'id': sid([key, f['witness']]), 'count': len(fs)})
    okrecs = [r for r in recs if r['status'] == 'done' and not r.get('findings')]
    for r in okrecs[:: max(1, len(okrecs) // 60)]:
        od = ctx.native(scenario(r['text'], r['witness']), 'dev')
        validated += 1
        if native_disagrees4(four(od, r['witness']), concrete_reference(r['text'], r['witness'])):
            res['inconclusive'].append('sampled path disagrees natively: `%s` %s native=%s' % (r['text'], json.dumps(r['witness'])[:200], json.dumps(four(od, r['witness']))[:300]))
    res['evidence']['coverage']['traces_validated_against_impl'] = validated
    covers = set()
    for r in recs:
        covers.update(r.get('covers', []))
    for need in ('fault-err-hit', 'fault-panic-hit', 'repeated-failures'):
        if need not in covers:
            res['inconclusive'].append('vacuity: %s never reached' % need)
    res['evidence']['coverage']['exhaustive'] = not res['inconclusive']
    res['summary'] = 'paths=%d templates=%d findings=%d' % (summ['paths'], len(tpls), len(res['findings']))
    return res
