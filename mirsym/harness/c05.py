"""C05 — malformed input is rejected, never silently repaired.

Symbolic input: T byte slots, each byte symbolic over the structural alphabet
  1 a ( ) [ ] { } , ; : ? + ! " ' space
(`a` directly before `(` is a function name; `++` is the postfix operator), i.e. every sequence
of literals, names, calls, delimiters, separators, prefix/infix/postfix operators, `?`, `:`.
On every path on which parse_expression returns Ok, the token sequence the real tokenizer
produced (observed at the returns of Tokenizer::next) is given to the reference recogniser of the
documented grammar (harness/refparse.py, lenient reading: optional `;`, optional trailing `,`,
any operator token may be a prefix operator).  Assertion: Ok  =>  the recogniser accepts.
"""
import json
import z3

from values import *
import api
import render
import explore as ex
import kani_adapter
from harness.common import *
from harness import refparse as rf

ID = 'C05'
ALPHABET = b"1a()[]{},;:?+!\"' "
BOUNDS = {'quick': {'T': 4}, 'thorough': {'T': 5}}
# longer skeletons with one or two symbolic slots `_` (separator / closer / operand positions)
SKELETONS = ['[1_2]', '[1,2_', '[1_', '{1_2}', '{1:2_3:4}', '{1:2_', 'a(1_2)', 'a(1,2_', 'a(_)', '1?1_1', '1?2:3_4',
             '(1_2)', '(1+2_', '[1,2]_3', '1_2_3', '[_]_', '{_:_}', 'a(_,_)', '1 _ 2 _', '"a"_"b"', "[1,_,2]", '{1:_,2:3}',
             '1;_;2', '(_)_', '[[1]_[2]]', 'a(a(1)_2)', '1?(2_3):4', '-_1', '1+_', '!_',
             # a string literal (any one-character content) where a separator or closer is required
             # a string literal with multi-byte content directly followed by a stray token
             "('é'_)", "['ü'_]", "a('ñ'_)", "{1:'é'_}", "x='日本'_", "'é'_'é'",
             "[1'_'2]", 'a(1"_"2)', "{1'_'2}", "{1:2'_'3:4}", "1?2'_'3", "[1'_'", "a(1'_'", "{1:2'_'", "('_'1)", "[1,2'_'"]


def prepare(it):
    it.call('init::init', [])


def harness(it, px, params):
    T = params['T']
    sk = params['skeletons']
    cfg = pick_config(px, 'cfg', T + 1 + len(sk))
    if cfg <= T:
        L = cfg
        bs = [px.bv('b%d' % i, 8) for i in range(L)]
        holes = bs
    else:
        text = sk[cfg - T - 1].encode()
        L = len(text)
        bs = []
        holes = []
        for i, ch in enumerate(text):
            if ch == 0x5F:
                v = px.bv('b%d' % i, 8)
                holes.append(v)
                bs.append(v)
            else:
                bs.append(ch)
        px.cover('skeleton')
    for b in holes:
        px.add(z3.Or([b == z3.BitVecVal(c, 8) for c in params['alphabet']]))
    px.get_model()
    px.pin_probe = True
    toks = []
    name = it.resolve("Tokenizer::<'_>::next")[1].name

    def on_next(args, rv):
        if isinstance(rv, Enum) and rv.name == 'Ok':
            t = rv.f[0]
            if t.name != 'EOF':
                toks.append(t)
    it.watch = {name: on_next}
    try:
        o = api.parse(it, Str(tuple(bs)))
    finally:
        it.watch = {}
    rec = {'len': L, 'outcome': o.kind}
    m = px.get_model()
    wit = px.eval_bytes(m, bs)
    rec['witness'] = wit.hex()
    if o.kind == 'err':
        rec['err'] = render.error_variant(o.value)
        px.cover('rejected')
        return rec
    if o.kind != 'ok':
        fn = innermost_crate_fn(o.where)
        px.finding({'key': 'C05|%s|%s|%s' % (o.kind, fn, panic_class(o.detail)), 'desc': '%s while parsing: %s' % (o.kind, o.detail),
                    'witness': wit.hex(), 'kind': 'fault'})
        return rec
    px.cover('accepted')
    # token sequence (deduplicated by span: look-ahead re-reads tokens), concretised under the model
    seen = {}
    for t in toks:
        kind, payload, a, b = api.token_tuple(t)
        a, b = px.eval_int(m, a), px.eval_int(m, b)
        seen[(a, b)] = (kind, wit[a:b])
    seq = []
    for (a, b) in sorted(seen):
        kind, text = seen[(a, b)]
        txt = text.decode('utf-8', 'replace')
        if kind == 'Operator':
            seq.append(('op', txt))
        elif kind == 'Delim':
            seq.append(('delim', txt))
        elif kind == 'Number':
            seq.append(('num', '1'))
        elif kind == 'Comma':
            seq.append((',', ','))
        elif kind == 'Semicolon':
            seq.append((';', ';'))
        elif kind == 'Bool':
            seq.append(('bool', 'true'))
        elif kind == 'String':
            seq.append(('str', 's'))
        else:
            seq.append(('name', 'n'))
    rec['tokens'] = [list(x) for x in seq]
    try:
        rf.ref_parse(seq, rf.BUILTIN_INFIX, any_prefix=True)
        rec['recognised'] = True
    except rf.RefError as e:
        rec['recognised'] = False
        px.finding({'key': 'C05|accepted-non-sentence|%s' % ' '.join(k if k in ('num', 'name', 'str', 'bool') else t for k, t in seq),
                    'desc': 'parse_expression accepts `%s`, which is not a sentence of the grammar (%s)' % (wit.decode('utf-8', 'replace'), e),
                    'witness': wit.hex(), 'kind': 'accept'})
    # independent of the implementation's tokenizer: the documented lexical rules (reference tokenizer of C10) followed by
    # the reference recogniser must accept the input too
    from harness import c10
    rt = c10.concrete_ref(wit, None)
    rseq = None
    if rt != 'err':
        kmap = {'Operator': 'op', 'Delim': 'delim', 'Comma': ',', 'Semicolon': ';'}
        fixed = {'Number': ('num', '1'), 'Bool': ('bool', 'true'), 'String': ('str', 's'), 'Reference': ('name', 'n'), 'Function': ('name', 'n')}
        rseq = [fixed[k] if k in fixed else (kmap[k], wit[a:b].decode('utf-8', 'replace')) for k, a, b in rt]
        try:
            rf.ref_parse(rseq, rf.BUILTIN_INFIX, any_prefix=True)
            rok = True
        except rf.RefError as e:
            rok = False
            why = str(e)
    else:
        rok = False
        why = 'the lexical rules reject it'
    if not rok and rec.get('recognised'):
        px.finding({'key': 'C05|accepted-non-sentence-lexical|%s' % (' '.join(k if k in ('num', 'name', 'str', 'bool') else t for k, t in rseq) if rseq else 'untokenizable'),
                    'desc': 'parse_expression accepts `%s`, which is not a sentence of the grammar (%s)' % (wit.decode('utf-8', 'replace'), why),
                    'witness': wit.hex(), 'kind': 'accept'})
    # no input character may be dropped: everything outside the token spans must be blank
    pos = 0
    dropped = []
    for (a, b) in sorted(seen):
        if a > pos:
            dropped.append((pos, a))
        pos = max(pos, b)
    if pos < len(wit):
        dropped.append((pos, len(wit)))
    dropped = [(a, b) for (a, b) in dropped if wit[a:b].decode('utf-8', 'replace').strip() != '']
    if dropped:
        px.finding({'key': 'C05|accepted-dropping-input|%s' % ' '.join(k if k in ('num', 'name', 'str', 'bool') else t for k, t in seq),
                    'desc': 'parse_expression accepts `%s` although no token covers %s' % (
                        wit.decode('utf-8', 'replace'), [wit[a:b].decode('utf-8', 'replace') for a, b in dropped]),
                    'witness': wit.hex(), 'kind': 'accept-drop', 'dropped': dropped})
    return rec


def run(ctx):
    T = BOUNDS[ctx.tier]['T']
    params = {'T': T, 'skeletons': SKELETONS, 'alphabet': list(ALPHABET), 'seed': ctx.seed, 'timeout_ms': 10000 if ctx.tier == 'quick' else 60000,
              'step_limit': 400000}
    eng = ctx.engine('dev')
    recs, summ = ex.explore(eng, harness, params, prepare=prepare)
    kres = kani_adapter.run_group('C05', ctx.tier)
    inconclusive = []
    by_status = {}
    for r in recs:
        by_status[r['status']] = by_status.get(r['status'], 0) + 1
        if r['status'] in ('unsupported', 'inconclusive'):
            inconclusive.append('%s: %s %s' % (r['status'], r.get('detail'), r.get('where', '')))
    inconclusive = sorted(set(inconclusive))
    covers = set()
    for r in recs:
        covers.update(r.get('covers', []))
    for need in ('accepted', 'rejected', 'skeleton'):
        if need not in covers:
            inconclusive.append('vacuity: cover %s not reached' % need)
    groups = {}
    for r in recs:
        for f in r.get('findings', []):
            groups.setdefault(f['key'], []).append(f)
    findings = []
    validated = 0
    for key, fs in sorted(groups.items()):
        f = sorted(fs, key=lambda f: (len(f['witness']), f['witness']))[0]
        sc = [{'op': 'parse', 'hex': f['witness'], 'want': ['ast']}]
        if f['kind'] == 'accept-drop':
            # the same input with the uncovered characters blanked out: an identical tree shows they were ignored
            w = bytearray(bytes.fromhex(f['witness']))
            for a, b in f['dropped']:
                w[a:b] = b' ' * (b - a)
            sc = [{'op': 'parse', 'hex': bytes(w).hex(), 'want': ['ast']}] + sc
        odl = ctx.native(sc, 'dev')
        od = odl[-1]
        orl = ctx.native(sc, 'release')[-1]
        validated += 1
        if f['kind'] == 'fault':
            confirmed = od.get('kind') in ('panic', 'crash', 'timeout') or orl.get('kind') in ('panic', 'crash', 'timeout')
        elif f['kind'] == 'accept-drop':
            confirmed = od.get('kind') == 'ok' and odl[0].get('kind') == 'ok' and od.get('ast') == odl[0].get('ast')
        else:
            confirmed = od.get('kind') == 'ok'
        findings.append({'key': key, 'desc': f['desc'], 'confirmed': confirmed, 'scenario': sc,
                         'expect': {'step': len(sc) - 1, 'kind': 'must not panic' if f['kind'] == 'fault' else 'must not be ok'},
                         'witness_text': repr(bytes.fromhex(f['witness']).decode('utf-8', 'replace')),
                         'native': {'dev': od, 'release': orl}, 'id': sid([key, f['witness']]), 'count': len(fs)})
    if kres.get('ok'):
        for h in kres['harnesses']:
            if h['verdict'] == 'FAILED':
                if not findings:
                    inconclusive.append('kani kernel %s FAILED (%s, cex %s) but no violation was reproduced through parse_expression' % (
                        h['name'], [c.get('desc') for c in h.get('failed_checks', [])][:2], h.get('cex')))
            elif h['verdict'] != 'SUCCESS':
                inconclusive.append('kani harness %s: %s' % (h['name'], h['verdict']))
    else:
        inconclusive.append('kani runner failed: %s' % kres.get('detail', '')[-300:])
    # sampled native validation: accepted / rejected must agree
    done = [r for r in recs if r['status'] == 'done' and r.get('outcome') in ('ok', 'err')]
    stride = max(1, len(done) // (300 if ctx.tier == 'quick' else 1500))
    steps = [{'op': 'parse', 'hex': r['witness'], 'want': []} for r in done[::stride]]
    if steps:
        obs = ctx.native(steps, 'dev', timeout=300)
        for r, o in zip(done[::stride], obs):
            validated += 1
            if o.get('kind') != r['outcome'] or (r['outcome'] == 'err' and o.get('variant') != r.get('err')):
                inconclusive.append('encoder mismatch on sampled path %s: model %s/%s native %s/%s' % (r['witness'], r['outcome'], r.get('err'), o.get('kind'), o.get('variant')))
    accepted = [r for r in recs if r.get('outcome') == 'ok']
    samples = [{'input': bytes.fromhex(r['witness']).decode('utf-8', 'replace'), 'tokens': r.get('tokens'), 'recognised': r.get('recognised')} for r in accepted[:12]]
    samples += [{'input': bytes.fromhex(r['witness']).decode('utf-8', 'replace'), 'rejected_with': r.get('err')} for r in recs if r.get('outcome') == 'err'][:12]
    errs = {}
    for r in recs:
        if r.get('outcome') == 'err':
            errs[r.get('err')] = errs.get(r.get('err'), 0) + 1
    ev = {
        'coverage': {
            'states': max(1, summ['paths']), 'transitions': max(1, summ['decisions']),
            'traces_validated_against_impl': validated, 'samples': samples,
            'exhaustive': not summ.get('truncated') and not inconclusive,
            'bound': {'slots_max': T, 'skeletons_with_symbolic_slots': SKELETONS, 'alphabet': ALPHABET.decode(), 'accepted_paths': len(accepted), 'rejected_by_variant': errs},
            'path_status': by_status,
            'kani': kani_adapter.summarize(kres) if kres.get('ok') else {'error': kres.get('detail', '')[-500:]},
            'solver': {'engine': 'z3 ' + z3.get_version_string() + ' / CBMC via Kani', 'queries_sat': summ['sat'], 'queries_unsat': summ['unsat'],
                       'queries_unknown': summ['unknown'], 'solver_s': round(summ['solver_s'], 2)},
            'mir_steps': summ['steps'], 'workers': summ['workers'],
            'functions_encoded': summ['bodies_used'], 'library_models_used': summ['models_used'], 'covers_hit': sorted(covers),
            'outside': ['inputs longer than %d slots' % T, 'characters outside the structural alphabet (covered for <= 3..4 bytes by C01; malformed numbers by C09)',
                        'the converse direction (every sentence is accepted) is not claimed by the property'],
        },
        'assumptions': ['reference recogniser = harness/refparse.py in lenient mode (optional `;`, optional trailing `,`, any operator token may act as a prefix operator)',
                        'library models validated by the conformance corpus and sampled native replays'],
    }
    return {'findings': findings, 'inconclusive': inconclusive, 'evidence': ev,
            'summary': 'paths=%d accepted=%d findings=%d' % (summ['paths'], len(accepted), len(findings))}
