"""C18 — describe() renders each node with exactly the descriptor registered for it.

E2 (Kani): the descriptor key kernel K4 (set_<kind>/get_<kind> agree on the key, kinds do not alias).
E1 (MIR): ExprAST::describe over ASTs of every node kind, under registration configurations
chosen by a symbolic selector: none / exactly the node's own (kind,name) / exactly one other
(kind,name) (every one of the 16 candidates, including same-name keys of another kind) / all.
Markers are harness closures; the expected string comes from a reference renderer.
"""
import json
import z3

from values import *
import api
import render
import explore as ex
import kani_adapter
from harness.common import *
from harness import refparse as rf

ID = 'C18'
CANDS = [('UNARY', '-'), ('UNARY', '!'), ('UNARY', '+'), ('UNARY', '++'), ('POSTFIX', '!'), ('REFERENCE', 'f'), ('FUNCTION', 'a'), ('BINARY', '+'), ('BINARY', '*'), ('BINARY', '-'),
         ('POSTFIX', '++'), ('POSTFIX', '--'), ('TERNARY', None), ('FUNCTION', 'f'), ('FUNCTION', 'g'),
         ('REFERENCE', 'a'), ('REFERENCE', 'b'), ('LIST', None), ('MAP', None), ('CHAIN', None)]
TEXTS = ['- a', '! a', '+ a', '++ a', '++ a ++', 'f', 'a ( f )', 'a + b', 'a * b', 'a - b', 'a ++', 'a --', 'a ? b : c', 'f ( a )', 'g ( a , b )', 'f ( )', 'a', 'b', 'c',
         '[ a , b ]', '[ ]', '{ a : b }', 'a ; b', '1.50', '"s"', 'true',
         '- a + f ( [ b ] ) * { a : b ++ } ; a ? b : c', 'a - - b', 'f ( g ( a ) , - a ) ++',
         # assignment-type operators, also with targets that are not names (the parser accepts them)
         'a = b', 'a += b ++', '2 = 3 = 4', 'f ( a ) += 1', '[ a ] = b', 'a ++ = 1', '- a = b',
         # deep trees (the property has no depth bound): a 70-term sum (left-deep), 70 nested lists / calls, 70 prefix operators
         ' + '.join(['a'] * 70), '[ ' * 70 + 'a' + ' ]' * 70, 'f ( ' * 70 + 'a' + ' )' * 70, '- ' * 70 + 'a',
         # very deep: a 600-term sum (configurations none / all only), and a short tree described right after it on the same thread
         ' + '.join(['1'] * 600)]
VERY_DEEP = {TEXTS[-1]}
AFTER_DEEP = 'a + b'
SETTERS = {'UNARY': 'set_unary_descriptor', 'BINARY': 'set_binary_descriptor', 'POSTFIX': 'set_postfix_descriptor',
           'TERNARY': 'set_ternary_descriptor', 'FUNCTION': 'set_function_descriptor', 'REFERENCE': 'set_reference_descriptor',
           'LIST': 'set_list_descriptor', 'MAP': 'set_map_descriptor', 'CHAIN': 'set_chain_descriptor'}


def marker_name(i):
    return 'M%d' % i


def render_arg(a):
    a = render.deref(a)
    if isinstance(a, Str):
        return bytes(a.b).decode('utf-8', 'replace')
    if isinstance(a, Arr):
        parts = []
        for x in a.items:
            x = render.deref(x)
            if isinstance(x, Agg):
                parts.append('%s=%s' % (render_arg(x.f[0]), render_arg(x.f[1])))
            else:
                parts.append(render_arg(x))
        return ';'.join(parts)
    raise ModelError('descriptor argument %r' % (a,))


def marker_fn(name):
    def h(it, args):
        return mkstr('%s(%s)' % (name, '|'.join(render_arg(a) for a in args)))
    return PyFn(h, name)


def configs():
    out = [('none', [])]
    out.append(('all', list(range(len(CANDS)))))
    for i in range(len(CANDS)):
        out.append(('only-%d' % i, [i]))
    # pairs of same-name keys of different kinds
    for i, (k1, n1) in enumerate(CANDS):
        for j, (k2, n2) in enumerate(CANDS):
            if i < j and n1 is not None and n1 == n2:
                out.append(('pair-%d-%d' % (i, j), [i, j]))
    return out


def un(h):
    return bytes.fromhex(h).decode('utf-8')


def ref_describe(j, reg):
    """reference renderer: reg = {(kind, name): marker}"""
    k = j['k']

    def mk(key, args, default):
        m = reg.get(key)
        if m is None:
            return default
        return '%s(%s)' % (m, '|'.join(args))
    if k in ('num', 'bool', 'str'):
        return rf.paren_text(j) if k != 'num' else rf.paren_text(j)
    if k == 'unary':
        op, a = un(j['op']), ref_describe(j['a'], reg)
        return mk(('UNARY', op), [op, a], op + a)
    if k == 'binary':
        op, l, r = un(j['op']), ref_describe(j['l'], reg), ref_describe(j['r'], reg)
        return mk(('BINARY', op), [op, l, r], l + op + r)
    if k == 'postfix':
        op, a = un(j['op']), ref_describe(j['a'], reg)
        return mk(('POSTFIX', op), [a, op], a + op)
    if k == 'ternary':
        c, a, b = ref_describe(j['c'], reg), ref_describe(j['a'], reg), ref_describe(j['b'], reg)
        return mk(('TERNARY', None), [c, a, b], c + '?' + a + ':' + b)
    if k == 'call':
        name = un(j['name'])
        args = [ref_describe(x, reg) for x in j['args']]
        return mk(('FUNCTION', name), [name, ';'.join(args)], name + '(' + ','.join(args) + ')')
    if k == 'ref':
        name = un(j['name'])
        return mk(('REFERENCE', name), [name], name)
    if k == 'list':
        items = [ref_describe(x, reg) for x in j['items']]
        return mk(('LIST', None), [';'.join(items)], '[' + ','.join(items) + ']')
    if k == 'map':
        items = [(ref_describe(a, reg), ref_describe(b, reg)) for a, b in j['items']]
        return mk(('MAP', None), [';'.join('%s=%s' % p for p in items)], '{' + ','.join('%s:%s' % p for p in items) + '}')
    if k == 'stmt':
        items = [ref_describe(x, reg) for x in j['items']]
        return mk(('CHAIN', None), [';'.join(items)], ';'.join(items))
    if k == 'none':
        return ''
    raise ValueError(k)


def prepare(it):
    it.call('init::init', [])


def harness(it, px, params):
    cfgs = params['configs']
    ti = pick_config(px, 'text', len(TEXTS))
    ci = pick_config(px, 'cfg', len(cfgs))
    text = TEXTS[ti]
    cname, idxs = cfgs[ci]
    rec = {'text': text, 'config': cname}
    reg = {}
    for i in idxs:
        kind, name = CANDS[i]
        mgr = it.call('DescriptorManager::new', [])
        cell = Cell(mgr, 'dm')
        args = [Ref(cell, ())]
        if name is not None:
            args.append(mkstr(name))
        args.append(ArcV(Cell(marker_fn(marker_name(i)), 'marker')))
        it.call('DescriptorManager::' + SETTERS[kind], args)
        reg[(kind, name)] = marker_name(i)
    if text in VERY_DEEP and cname not in ('none', 'all'):
        px.cover('described')
        rec['skipped'] = True
        return rec
    p = api.parse(it, text)
    if p.kind != 'ok':
        raise ModelError('C18 text did not parse: ' + text)
    d = api.describe(it, p.value)
    want = ref_describe(rf.ref_parse(text.split(), rf.BUILTIN_INFIX, any_prefix=True), reg)
    rec['want'] = want
    if text in VERY_DEEP and d.kind == 'ret' and bytes(render.deref(d.value).b).decode('utf-8', 'replace') == want:
        # describe() is a function of the tree and the registrations: a short tree described after the very deep one
        p2 = api.parse(it, AFTER_DEEP)
        d2 = api.describe(it, p2.value)
        want2 = ref_describe(rf.ref_parse(AFTER_DEEP.split(), rf.BUILTIN_INFIX, any_prefix=True), reg)
        got2 = bytes(render.deref(d2.value).b).decode('utf-8', 'replace') if d2.kind == 'ret' else d2.kind
        px.cover('described-after-deep')
        if got2 != want2:
            px.finding({'key': 'C18|wrong-rendering-after-deep|%s' % cname, 'desc': 'describe(`%s`) right after describing a 600-term sum gives `%s`, expected `%s`' % (AFTER_DEEP, got2, want2),
                        'text': text, 'idxs': idxs, 'want': want2, 'after': AFTER_DEEP})
    px.cover('described')
    if d.kind != 'ret':
        px.finding({'key': 'C18|%s|%s' % (d.kind, text), 'desc': 'describe() %s: %s' % (d.kind, d.detail), 'text': text, 'idxs': idxs, 'want': want})
        rec['got'] = d.kind
        return rec
    got = bytes(render.deref(d.value).b).decode('utf-8', 'replace')
    rec['got'] = got
    if got != want:
        px.finding({'key': 'C18|wrong-rendering|%s|%s' % (text, cname if not cname.startswith('only-') else 'only-%s:%s' % CANDS[idxs[0]]),
                    'desc': 'describe(`%s`) with registrations %s gives `%s`, expected `%s`' % (text, [CANDS[i] for i in idxs], got, want),
                    'text': text, 'idxs': idxs, 'want': want})
    return rec


def scenario(text, idxs, after=None):
    steps = []
    for i in idxs:
        kind, name = CANDS[i]
        st = {'op': 'set_descriptor', 'key': kind, 'marker': marker_name(i)}
        if name is not None:
            st['name'] = name.encode().hex()
        steps.append(st)
    steps.append({'op': 'parse', 'hex': text.encode().hex(), 'want': ['describe']})
    if after is not None:
        steps.append({'op': 'parse', 'hex': after.encode().hex(), 'want': ['describe']})
    return steps


def run(ctx):
    cfgs = configs()
    params = {'configs': cfgs, 'seed': ctx.seed, 'timeout_ms': 10000, 'step_limit': 8000000}
    eng = ctx.engine('dev')
    recs, summ = ex.explore(eng, harness, params, prepare=prepare)
    kres = kani_adapter.run_group('C18', ctx.tier)
    inconclusive = []
    by_status = {}
    for r in recs:
        by_status[r['status']] = by_status.get(r['status'], 0) + 1
        if r['status'] in ('unsupported', 'inconclusive'):
            inconclusive.append('%s: %s %s' % (r['status'], r.get('detail'), r.get('where', '')))
    inconclusive = sorted(set(inconclusive))
    if by_status.get('done', 0) != len(TEXTS) * len(cfgs):
        inconclusive.append('expected %d paths, got %s' % (len(TEXTS) * len(cfgs), by_status))
    groups = {}
    for r in recs:
        for f in r.get('findings', []):
            groups.setdefault(f['key'], []).append(f)
    findings = []
    validated = 0
    for key, fs in sorted(groups.items()):
        f = fs[0]
        sc = scenario(f['text'], f['idxs'], f.get('after'))
        od = ctx.native(sc, 'dev')[-1]
        validated += 1
        got = od.get('describe')
        confirmed = od.get('kind') != 'ok' or isinstance(got, dict) or bytes.fromhex(got).decode('utf-8', 'replace') != f['want']
        findings.append({'key': key, 'desc': f['desc'][:300], 'confirmed': confirmed, 'scenario': sc, 'expect': {'describe': f['want']},
                         'witness_text': '%s with %s' % (f['text'], [CANDS[i] for i in f['idxs']]), 'native': {'dev': od},
                         'id': sid([key]), 'count': len(fs)})
    if kres.get('ok'):
        for h in kres['harnesses']:
            if h['verdict'] == 'FAILED':
                if not findings:
                    inconclusive.append('kani kernel %s FAILED (%s) but no violation was reproduced through describe()' % (h['name'], [c.get('desc') for c in h.get('failed_checks', [])][:2]))
            elif h['verdict'] != 'SUCCESS':
                inconclusive.append('kani harness %s: %s' % (h['name'], h['verdict']))
    else:
        inconclusive.append('kani runner failed: %s' % kres.get('detail', '')[-300:])
    # sampled native validation
    done = [r for r in recs if r['status'] == 'done' and not r.get('findings') and not r.get('skipped')]
    cfgmap = dict(cfgs)
    for r in done[:: max(1, len(done) // 40)]:
        od = ctx.native(scenario(r['text'], cfgmap[r['config']]), 'dev')[-1]
        validated += 1
        if od.get('kind') != 'ok' or isinstance(od.get('describe'), dict) or bytes.fromhex(od['describe']).decode('utf-8', 'replace') != r['got']:
            inconclusive.append('encoder mismatch: describe(%s) under %s: model %r native %r' % (r['text'], r['config'], r['got'], od.get('describe')))
    samples = [{'text': r['text'], 'registrations': r['config'], 'describe': r.get('got')} for r in recs if r['status'] == 'done' and not r.get('skipped')][:: max(1, len(recs) // 20)][:25]
    ev = {
        'coverage': {
            'states': max(1, summ['paths']), 'transitions': max(1, summ['decisions']),
            'traces_validated_against_impl': validated, 'samples': samples, 'exhaustive': not inconclusive,
            'bound': {'asts': len(TEXTS), 'registration_candidates': ['%s:%s' % c for c in CANDS], 'configurations': len(cfgs),
                      'configuration_family': 'none, all, each single registration, each same-name pair of different kinds'},
            'path_status': by_status,
            'solver': {'engine': 'z3 ' + z3.get_version_string() + ' / CBMC via Kani', 'queries_sat': summ['sat'], 'queries_unsat': summ['unsat'],
                       'queries_unknown': summ['unknown'], 'solver_s': round(summ['solver_s'], 2)},
            'kani': kani_adapter.summarize(kres) if kres.get('ok') else {'error': kres.get('detail', '')[-500:]},
            'functions_encoded': summ['bodies_used'], 'library_models_used': summ['models_used'],
            'outside': ['arbitrary subsets of registrations beyond none / single / same-name pairs / all', 'ASTs other than the %d listed' % len(TEXTS),
                        'operator and function names other than those listed (the Kani kernel uses names "x"/"y")'],
        },
        'assumptions': ['HashMap modelled as association list with the derived PartialEq of DescriptorKey executed from MIR (Hash is not modelled)',
                        'Kani K4: DescriptorManager::{new,set,get} stubbed by a two-slot store; key construction and lookup-side matching are the real code'],
    }
    return {'findings': findings, 'inconclusive': inconclusive, 'evidence': ev,
            'summary': 'paths=%d kani=%s findings=%d' % (summ['paths'], kres.get('summary'), len(findings))}
