"""Symbolic Value factory: a Value whose variant is chosen by a fork and whose payload is symbolic."""
import z3
from values import *
import api
import render
from harness.common import *

MAX96 = (1 << 96) - 1

DEFAULT_SPEC = {
    'kinds': ['num', 'bool', 'str', 'list', 'map', 'none'],
    'scales': [0, 1, 2],
    'strshapes': [(), (1,), (1, 1), (2,)],
    'listlens': [0, 1, 2],
    'elem': {'kinds': ['num', 'bool', 'str', 'none'], 'scales': [0, 1], 'strshapes': [(), (1,)]},
}


def sym_value(it, px, name, spec=None):
    spec = spec or DEFAULT_SPEC
    kinds = spec['kinds']
    kind = kinds[pick_config(px, name + '_kind', len(kinds))]
    if kind == 'num':
        scales = spec.get('scales', [0])
        s = scales[pick_config(px, name + '_scale', len(scales))]
        m = px.int(name + '_m')
        px.add(z3.And(m >= -MAX96, m <= MAX96))
        return api.V_num(m, s)
    if kind == 'i64':
        v = px.bv(name + '_i', 64)
        return Enum('Value', 1, 'Number', (Dec(z3.BV2Int(v, True), 0, ('bv', v, True)),))
    if kind == 'i128':
        # an integer with a 96-bit magnitude, bit-vector sourced (keeps bit-level and floating-point queries in one theory)
        v = px.bv(name + '_w', 128)
        px.add(z3.And(v >= z3.BitVecVal(-MAX96, 128), v <= z3.BitVecVal(MAX96, 128)))
        return Enum('Value', 1, 'Number', (Dec(z3.BV2Int(v, True), 0, ('bv', v, True)),))
    if kind == 'smallint':
        # an integral number carrying a non-zero scale: n * 10^s / 10^s with n in i16
        scales = spec.get('int_scales', [1, 2])
        s = scales[pick_config(px, name + '_iscale', len(scales))]
        n = px.int(name + '_n')
        px.add(z3.And(n >= -40000, n <= 40000))
        return api.V_num(n * (10 ** s), s)
    if kind == 'bool':
        return api.V_bool(px.bool(name + '_b'))
    if kind == 'str':
        shapes = spec.get('strshapes', [(), (1,)])
        shape = shapes[pick_config(px, name + '_shape', len(shapes))]
        L = sum(shape)
        bs = [px.bv('%s_s%d' % (name, i), 8) for i in range(L)]
        for c in utf8_constraints(bs, shape):
            px.add(c)
        return api.V_str(Str(tuple(bs)))
    if kind == 'list':
        lens = spec.get('listlens', [0, 1])
        n = lens[pick_config(px, name + '_len', len(lens))]
        es = spec.get('elem', {'kinds': ['num', 'bool'], 'scales': [0]})
        return api.V_list([sym_value(it, px, '%s_e%d' % (name, i), es) for i in range(n)])
    if kind == 'boollist':
        lens = spec.get('listlens', [0, 1, 2])
        n = lens[pick_config(px, name + '_len', len(lens))]
        return api.V_list([api.V_bool(px.bool('%s_e%d' % (name, i))) for i in range(n)])
    if kind == 'map':
        n = pick_config(px, name + '_mlen', 2)
        es = spec.get('elem', {'kinds': ['num', 'bool'], 'scales': [0]})
        if n == 0:
            return api.V_map([])
        return api.V_map([(sym_value(it, px, name + '_mk', es), sym_value(it, px, name + '_mv', es))])
    if kind == 'none':
        return api.V_NONE
    raise ValueError(kind)


def kind_of(v):
    return v.name


def concrete(v, model):
    """Value JSON of a symbolic Value under a model"""
    return render.value_json(v, model)
