"""Operator / function semantics harness shared by C03 (values) and C04 (faults).

For each template text over the context names x, y, z: bind symbolic Values (variant chosen by
fork: number with symbolic 96-bit mantissa and scale from S, i64-sourced integer, bool, short
string incl. multi-byte, list, map, None), run parse + ExprAST::exec from MIR, and compare the
outcome with the reference interpreter (harness/refeval.py) under the same path condition:
  * Ok(v): z3 must prove v == oracle value (validity query); Err where the oracle says Ok, or Ok
    where it says Err, is a violation
  * Panic / Abort / Deadlock: violation (C04)
"""
import json
import z3

from values import *
import api
import render
import explore as ex
from harness.common import *
from harness import refparse as rf
from harness import refeval as re_
from harness import symval as sv

ALL6 = ['num', 'bool', 'str', 'list', 'map', 'none']
POOR = {'kinds': ALL6, 'scales': [0], 'strshapes': [(1,)], 'listlens': [1],
        'elem': {'kinds': ['num'], 'scales': [0], 'strshapes': [(1,)]}}


def poor(kinds=None):
    d = dict(POOR)
    if kinds:
        d['kinds'] = list(kinds)
    return d


def both(out, tid, toks, rich, a='x', b='y'):
    """binary template: (rich, rich) on the well-typed kinds, and every other kind (poor payload) on either side"""
    out.append((tid, toks, {a: rich, b: rich}))
    others = [k for k in ALL6 if k not in rich['kinds']]
    if others:
        out.append((tid + '#L', toks, {a: poor(others), b: poor(ALL6)}))
        out.append((tid + '#R', toks, {a: poor(ALL6), b: poor(others)}))


def spec(kinds, scales=(0, 1, 2), **kw):
    d = dict(sv.DEFAULT_SPEC)
    d['kinds'] = list(kinds)
    d['scales'] = list(scales)
    d.update(kw)
    return d


def T(s):
    return s.split()


def templates(tier, mode):
    """-> list of (id, tokens, {name: spec})"""
    S = (0, 1, 2) if tier == 'quick' else (0, 1, 2, 5, 14, 27, 28)
    Smul = (0, 1, 2) if tier == 'quick' else (0, 1, 2, 6)
    out = []
    anyv = spec(ALL6, S)
    num = spec(['num'], S)
    nummul = spec(['num'], Smul)
    for op in ('+', '-'):
        both(out, 'arith' + op, T('x %s y' % op), num)
    both(out, 'arith*', T('x * y'), nummul)
    both(out, 'arith%', T('x % y'), nummul)
    both(out, 'arith/', T('x / y'), spec(['num'], (0,)))
    for op in ('<', '<=', '>', '>='):
        both(out, 'cmp' + op, T('x %s y' % op), num)
    richstr = spec(['str'], (0,), strshapes=[(), (1,), (1, 1), (2,), (2, 1)] if tier == 'quick' else [(), (1,), (1, 1), (2,), (2, 1), (1, 2), (3,), (1, 1, 1)])
    richlist = spec(['list'], (0,), listlens=[0, 1, 2], elem={'kinds': ['num', 'bool', 'str', 'none'], 'scales': [0, 1], 'strshapes': [(), (1,)]})
    richmap = spec(['map'], (0,), elem={'kinds': ['num', 'bool', 'str', 'none'], 'scales': [0, 1], 'strshapes': [(), (1,)]})
    for op in ('==', '!='):
        out.append(('eq%s-num' % op, T('x %s y' % op), {'x': num, 'y': num}))
        out.append(('eq%s-bool' % op, T('x %s y' % op), {'x': spec(['bool', 'none']), 'y': spec(['bool', 'none'])}))
        out.append(('eq%s-str' % op, T('x %s y' % op), {'x': richstr, 'y': richstr}))
        out.append(('eq%s-list' % op, T('x %s y' % op), {'x': richlist, 'y': richlist}))
        out.append(('eq%s-map' % op, T('x %s y' % op), {'x': richmap, 'y': richmap}))
        out.append(('eq%s-cross' % op, T('x %s y' % op), {'x': poor(), 'y': poor()}))
    for op in ('&&', '||'):
        both(out, 'logic' + op, T('x %s y' % op), spec(['bool']))
    bitk = spec(['i64', 'num', 'smallint'], (0, 1) if tier == 'quick' else (0, 1, 2, 28))
    # '| ^ &' also over bit-vector sourced integers of up to 96 bits (values just outside i64, above 2^53)
    bitw = spec(['i64', 'i128', 'num', 'smallint'], (0, 1) if tier == 'quick' else (0, 1, 2, 28))
    for op in ('|', '^', '&', '<<', '>>'):
        both(out, 'bit' + op, T('x %s y' % op), bitw if op in ('|', '^', '&') else bitk)
    for op in ('beginWith', 'endWith'):
        both(out, 'str-' + op, T('x %s y' % op), richstr)
    out.append(('in', T('x in y'), {'x': spec(['num', 'bool', 'str', 'none'], (0, 1), strshapes=[(), (1,)]), 'y': richlist}))
    out.append(('in-nested', T('x in y'), {'x': spec(['list'], (0,), listlens=[0, 1], elem={'kinds': ['num', 'bool'], 'scales': [0]}),
                                          'y': spec(['list'], (0,), listlens=[1, 2], elem={'kinds': ['list', 'num'], 'scales': [0], 'listlens': [0, 1], 'elem': {'kinds': ['num', 'bool'], 'scales': [0]}})}))
    out.append(('in#R', T('x in y'), {'x': poor(), 'y': poor(['num', 'bool', 'str', 'map', 'none'])}))
    out.append(('not-in', T('x not in y'), {'x': spec(['num', 'bool', 'str', 'none'], (0, 1), strshapes=[(), (1,)]), 'y': spec(['list', 'num'], (0,))}))
    for op in ('-', '+', '!', 'not'):
        out.append(('prefix' + op, T('%s x' % op), {'x': anyv}))
    agg = spec(['boollist', 'list', 'num', 'bool', 'none'], (0,), listlens=[0, 1, 2, 3] if tier == 'thorough' else [0, 1, 2])
    out.append(('prefixAND', T('AND x'), {'x': agg}))
    out.append(('prefixOR', T('OR x'), {'x': agg}))
    for op in ('++', '--'):
        out.append(('postfix' + op, T('x %s' % op), {'x': anyv}))
    fnum = spec(['num', 'bool', 'str', 'none'], S, strshapes=[(1,)])
    for fn in ('min', 'max', 'sum'):
        out.append((fn + '0', T('%s ( )' % fn), {}))
        out.append((fn + '1', T('%s ( x )' % fn), {'x': fnum}))
        out.append((fn + '2', T('%s ( x , y )' % fn), {'x': fnum, 'y': fnum}))
        out.append((fn + '3', T('%s ( x , y , z )' % fn), {'x': num, 'y': num, 'z': num}))
    out.append(('mul0', T('mul ( )'), {}))
    out.append(('mul2', T('mul ( x , y )'), {'x': spec(['num', 'bool', 'none'], Smul), 'y': spec(['num', 'str'], Smul, strshapes=[(1,)])}))
    out.append(('mul3', T('mul ( x , y , z )'), {'x': nummul, 'y': nummul, 'z': nummul}))
    out.append(('cond', T('x ? y : z'), {'x': spec(['bool', 'num', 'none', 'str'], (0,), strshapes=[(1,)]), 'y': poor(), 'z': spec(['num', 'str', 'none'], (0,), strshapes=[(1,)])}))
    out.append(('list', T('[ x , y ]'), {'x': poor(), 'y': spec(['num', 'str'], (0, 1), strshapes=[(1,)])}))
    out.append(('map', T('{ x : y }'), {'x': spec(['num', 'str', 'bool'], (0,), strshapes=[(1,)]), 'y': poor()}))
    # entries are evaluated key, value, key, value: an entry may depend on an assignment made by an earlier one, and the
    # first failing entry decides the error
    out.append(('map-order', T('{ a = x : a , a = y : a }'), {'x': spec(['num'], (0,)), 'y': spec(['num', 'bool'], (0,))}))
    out.append(('map-order-err', T('{ 1 : 1 + x , y / 0 : 2 }'), {'x': spec(['num', 'str'], (0,), strshapes=[(1,)]), 'y': spec(['num', 'bool'], (0,))}))
    # a negated operand of a comparison (the negation of zero is a negative zero in rust_decimal: it still equals zero)
    out.append(('neg-cmp<', T('- x < y'), {'x': spec(['num'], (0, 1)), 'y': spec(['num'], (0,))}))
    out.append(('neg-cmp>=', T('x >= - y'), {'x': spec(['num'], (0,)), 'y': spec(['num'], (0, 2))}))
    out.append(('neg-cmp<=', T('- x <= - y'), {'x': spec(['num'], (0,)), 'y': spec(['num'], (0,))}))
    out.append(('neg-eq', T('- x == y'), {'x': spec(['num'], (0, 1)), 'y': spec(['num'], (0,))}))
    # an element / entry / argument / statement that fails: the whole expression fails, nothing is dropped
    out.append(('list-elem-err', T('[ 1 , x / y , 3 ]'), {'x': spec(['num', 'str'], (0,), strshapes=[(1,)]), 'y': spec(['num'], (0,))}))
    out.append(('list-elem-err-in', T('7 in [ x << y , 7 ]'), {'x': spec(['i64'], (0,)), 'y': spec(['i64'], (0,))}))
    out.append(('list-elem-unbound', T('AND [ x < nosuch , y ]'), {'x': spec(['num'], (0,)), 'y': spec(['bool'], (0,))}))
    out.append(('call-arg-err', T('max ( 1 , x % y , 3 )'), {'x': spec(['num'], (0,)), 'y': spec(['num', 'bool'], (0,))}))
    out.append(('chain-stmt-err', T('a = x / y ; 5'), {'x': spec(['num'], (0,)), 'y': spec(['num', 'none'], (0,))}))
    out.append(('list-order', T('[ a = x , a , a = y , a ]'), {'x': spec(['num'], (0,)), 'y': spec(['num', 'bool'], (0,))}))
    # nested forms
    out.append(('nest1', T('x + y * z'), {'x': num, 'y': nummul, 'z': nummul}))
    out.append(('nest2', T('( x + y ) * z'), {'x': spec(['num'], (0, 1)), 'y': spec(['num'], (0, 1)), 'z': spec(['num'], (0, 1))}))
    out.append(('nest3', T('x < y && y < z'), {'x': num, 'y': num, 'z': num}))
    out.append(('nest4', T('x == y || ! z'), {'x': spec(['num', 'str'], (0, 1)), 'y': spec(['num', 'str'], (0, 1)), 'z': spec(['bool', 'num'], (0,))}))
    out.append(('nest5', T('- x ++'), {'x': spec(['num', 'bool'], S)}))
    out.append(('nest6', T('x % y >> 1'), {'x': spec(['i64'], (0,)), 'y': spec(['i64'], (0,))}))
    out.append(('nest7', T('x in [ y , z ]'), {'x': spec(['num', 'str'], (0, 1)), 'y': spec(['num', 'str'], (0, 1)), 'z': spec(['num', 'none'], (0,))}))
    out.append(('nest8', T('min ( x , y ) <= max ( x , y )'), {'x': num, 'y': num}))
    out.append(('nest9', T('x - y - z'), {'x': spec(['num'], (0,)), 'y': spec(['num'], (0,)), 'z': spec(['num'], (0,))}))
    # compound assignment results (binding itself is C06)
    for op in ('+=', '-=', '*=', '%=', '<<=', '>>=', '&=', '^=', '|='):
        k = spec(['i64', 'num', 'smallint', 'bool', 'none'], (0, 1)) if op in ('<<=', '>>=', '&=', '^=', '|=') else spec(['num', 'bool', 'none'], Smul)
        out.append(('assign' + op, T('x %s y ; x' % op), {'x': k, 'y': k}))
    return out


def prepare(it):
    it.call('init::init', [])


def harness(it, px, params):
    tpls = params['templates']
    k = pick_config(px, 'tpl', len(tpls))
    tid, toks, specs = tpls[k]
    px.notes.append(tid)
    text = ' '.join(toks)
    names = sorted(specs)
    vals = {n: sv.sym_value(it, px, n, specs[n]) for n in names}
    px.get_model()
    rec = {'tpl': tid, 'text': text, 'kinds': {n: vals[n].name for n in names}}
    ctx = api.new_context(it, [(n, ('var', vals[n])) for n in names])
    got = api.execute(it, text, ctx)
    rec['outcome'] = got.kind
    # oracle
    j = rf.ref_parse(toks, rf.BUILTIN_INFIX)
    env = re_.Env({n: ('var', vals[n]) for n in names})
    want_kind, want = None, None
    try:
        want = re_.RefEval(it.truth).eval(j, env)
        want_kind = 'ok'
    except re_.RefErr as e:
        want_kind = 'err'
        want = str(e)
    except re_.Outside as e:
        rec['oracle_outside'] = str(e)
        want_kind = 'outside'
        if e.kind == 'ok' and got.kind == 'err':
            want_kind = 'ok'      # outcome class known: an Err here is a violation (value not compared)
    rec['want'] = want_kind
    px.cover('tpl-' + tid)
    bad = None
    model = None
    if got.kind not in ('ok', 'err'):
        fn = innermost_crate_fn(got.where)
        cls = panic_class(got.detail) if got.kind == 'panic' else got.kind
        bad = ('fault', 'C04|%s|%s|%s|%s' % (got.kind, fn, cls, tid), '%s in `%s`: %s' % (got.kind, text, (got.detail or '')[:100]))
        model = px.get_model()
    elif want_kind == 'outside':
        rec['value_unchecked'] = True
        px.cover('unchecked-' + tid)
        return rec
    elif got.kind != want_kind:
        bad = ('kind', 'C03|%s-but-oracle-%s|%s|%s' % (got.kind, want_kind, tid, '/'.join(vals[n].name for n in names)),
               '`%s` gives %s where the language defines %s (%s)' % (text, got.kind, want_kind, want if want_kind == 'err' else ''))
        model = px.get_model()
    elif got.kind == 'ok':
        px.cover('ok-' + tid)
        eq = re_.value_eq(got.value, want)
        okv, m = px.check(eq if not isinstance(eq, bool) else eq)
        if not okv:
            bad = ('value', 'C03|wrong-value|%s|%s' % (tid, '/'.join(vals[n].name for n in names)),
                   '`%s` evaluates to a value different from the language definition' % text)
            model = m
    else:
        px.cover('err-' + tid)
        rec['err'] = render.error_variant(got.value)
    m = model or px.get_model()
    rec['witness'] = {n: sv.concrete(vals[n], m) for n in names}
    if bad:
        px.finding({'kind': bad[0], 'key': bad[1], 'desc': bad[2], 'text': text, 'tpl': tid, 'witness': rec['witness'],
                    'profile': params.get('profile', 'dev')})
    return rec


def scenario(text, witness):
    steps = [{'op': 'ctx_new', 'ctx': 'c'}]
    for n, v in sorted(witness.items()):
        steps.append({'op': 'ctx_set_var', 'ctx': 'c', 'name': n.encode().hex(), 'value': v})
    steps.append({'op': 'execute', 'hex': text.encode().hex(), 'ctx': 'c'})
    return steps


def concrete_oracle(text, witness):
    """evaluate the reference interpreter on concrete witness values -> ('ok', valuejson) | ('err',) | ('outside',)"""
    toks = text.split()
    j = rf.ref_parse(toks, rf.BUILTIN_INFIX)
    env = re_.Env({n: ('var', render.value_from_json(v)) for n, v in witness.items()})

    def truth(c):
        c = z3.simplify(c) if is_sym(c) else c
        if isinstance(c, bool):
            return c
        return z3.is_true(c)
    try:
        v = re_.RefEval(truth).eval(j, env)
        js = render.value_json(v, z3.Solver().model() if False else _EmptyModel())
        return ('ok', js)
    except re_.RefErr:
        return ('err',)
    except re_.Outside:
        return ('outside',)


class _EmptyModel:
    def eval(self, e, model_completion=True):
        return z3.simplify(e)


def native_disagrees(obs, oracle):
    """does the native observation contradict the oracle?"""
    k = obs.get('kind')
    if k in ('panic', 'crash', 'timeout', 'hang'):
        return True
    if oracle[0] == 'outside':
        return None
    if k != oracle[0]:
        return True
    if k == 'ok':
        return render.norm_num(obs['value']) != render.norm_num(oracle[1])
    return False


def run_mode(ctx, mode):
    """mode: 'C03' (dev profile, values + kinds) | 'C04' (dev + release, faults + values)"""
    tpls = templates(ctx.tier, mode)
    profiles = ['dev'] if mode == 'C03' else ['dev', 'release']
    all_recs = []
    summ_all = None
    for prof in profiles:
        params = {'templates': tpls, 'seed': ctx.seed, 'timeout_ms': 10000 if ctx.tier == 'quick' else 60000,
                  'step_limit': 400000, 'profile': prof}
        eng = ctx.engine('dev' if prof == 'dev' else 'rel')
        recs, summ = ex.explore(eng, harness, params, prepare=prepare)
        for r in recs:
            r['profile'] = prof
        all_recs += recs
        if summ_all is None:
            summ_all = summ
        else:
            for k in ('paths', 'sat', 'unsat', 'unknown', 'solver_s', 'steps', 'decisions'):
                summ_all[k] += summ[k]
            summ_all['truncated'] = summ_all['truncated'] or summ['truncated']
            summ_all['models_used'] = sorted(set(summ_all['models_used']) | set(summ['models_used']))
            summ_all['bodies_used'] = sorted(set(summ_all['bodies_used']) | set(summ['bodies_used']))
    return judge(ctx, mode, tpls, all_recs, summ_all, profiles)


def judge(ctx, mode, tpls, recs, summ, profiles):
    inconclusive = []
    by_status = {}
    for r in recs:
        by_status[r['status']] = by_status.get(r['status'], 0) + 1
        if r['status'] in ('unsupported', 'inconclusive'):
            inconclusive.append('%s: %s %s [%s]' % (r['status'], r.get('detail'), r.get('where', ''), r.get('tpl', '')))
    inconclusive = sorted(set(inconclusive))
    covers = set()
    for r in recs:
        covers.update(r.get('covers', []))
    for tid, _, _ in tpls:
        if 'tpl-' + tid not in covers:
            inconclusive.append('vacuity: template %s never evaluated' % tid)
    groups = {}
    for r in recs:
        for f in r.get('findings', []):
            if mode == 'C03' and f['kind'] == 'fault':
                continue      # faults are judged under C04
            if mode == 'C04' and f['kind'] != 'fault' and not (f['key'].startswith('C03|wrong-value') or f['key'].startswith('C03|ok-but-oracle-err')):
                continue
            key = f['key']
            if mode == 'C04' and f['kind'] != 'fault':
                key = key.replace('C03|wrong-value', 'C04|wrong-number').replace('C03|ok-but-oracle-err', 'C04|fault-not-reported')
                f = dict(f, key=key)
            groups.setdefault(key, []).append(f)
    findings = []
    validated = 0
    for key, fs in sorted(groups.items()):
        f = fs[0]
        sc = scenario(f['text'], f['witness'])
        orc = concrete_oracle(f['text'], f['witness'])
        od = ctx.native(sc, 'dev')[-1]
        orl = ctx.native(sc, 'release')[-1]
        validated += 1
        confirmed = bool(native_disagrees(od, orc)) or bool(native_disagrees(orl, orc))
        findings.append({'key': key, 'desc': f['desc'], 'confirmed': confirmed, 'scenario': sc,
                         'expect': {'step': len(sc) - 1, 'oracle': orc},
                         'witness_text': '%s with %s' % (f['text'], json.dumps(f['witness'])[:400]),
                         'native': {'dev': od, 'release': orl}, 'id': sid([key, f['witness']]), 'count': len(fs)})
    # sampled native validation of agreeing paths
    okrecs = [r for r in recs if r['status'] == 'done' and not r.get('findings') and r.get('outcome') in ('ok', 'err') and r.get('witness') is not None]
    stride = max(1, len(okrecs) // (150 if ctx.tier == 'quick' else 600))
    sample = okrecs[::stride]
    steps = []
    idx = []
    for i, r in enumerate(sample):
        sc = scenario(r['text'], r['witness'])
        for s in sc:
            if 'ctx' in s:
                s['ctx'] = 'c%d' % i
        idx.append((r, len(steps) + len(sc) - 1))
        steps += sc
    if steps:
        obs = ctx.native(steps, 'dev', timeout=300)
        for r, at in idx:
            validated += 1
            orc = concrete_oracle(r['text'], r['witness'])
            if native_disagrees(obs[at], orc):
                inconclusive.append('sampled path disagrees natively (encoder or oracle wrong): `%s` %s native=%s oracle=%s' % (
                    r['text'], json.dumps(r['witness'])[:200], json.dumps(obs[at])[:150], orc))
    samples = []
    seen = set()
    for r in recs:
        if r['status'] == 'done' and r.get('tpl') not in seen and r.get('witness') is not None:
            seen.add(r['tpl'])
            samples.append({'template': r['text'], 'operands': r['witness'], 'outcome': r['outcome'], 'oracle': r.get('want')})
    outcomes = {}
    for r in recs:
        if r['status'] == 'done':
            outcomes[r['outcome']] = outcomes.get(r['outcome'], 0) + 1
    ev = {
        'coverage': {
            'states': max(1, summ['paths']), 'transitions': max(1, summ['decisions']),
            'traces_validated_against_impl': validated, 'samples': samples[:60],
            'exhaustive': not summ.get('truncated') and not inconclusive,
            'bound': {'templates': len(tpls), 'profiles': profiles,
                      'operand_domain': 'variant by fork over Number(symbolic 96-bit mantissa, scale from S)/i64-sourced integer/Bool/String(<=3 bytes incl. multi-byte)/List(<=2..3 elements)/Map(<=1 entry)/None',
                      'scales': 'quick {0,1,2}; thorough {0,1,2,5,14,27,28} (+,-,cmp,==), {0,1,2,6} (*,%), {0} (/)'},
            'path_status': by_status, 'path_outcomes': outcomes,
            'outside_model': by_status.get('outside', 0),
            'solver': {'engine': 'z3 ' + z3.get_version_string(), 'queries_sat': summ['sat'], 'queries_unsat': summ['unsat'],
                       'queries_unknown': summ['unknown'], 'solver_s': round(summ['solver_s'], 2)},
            'mir_steps': summ['steps'], 'workers': summ['workers'],
            'functions_encoded': summ['bodies_used'], 'library_models_used': summ['models_used'],
            'covers_hit': len(covers),
            'outside': ['results that rust_decimal would round (exact result needs >96 bits or >28 digits): skipped and counted as outside_model',
                        'quotients of symbolic operands (only the zero-divisor branch and concrete corpus quotients are checked)',
                        'operand values outside the stated domain (longer strings/lists, deeper nesting)'],
        },
        'assumptions': ['oracle = harness/refeval.py (language definition)', 'Decimal model: exact (mantissa, scale) arithmetic; conformance corpus + sampled native replays validate it',
                        'negative zero is identified with zero'],
    }
    return {'findings': findings, 'inconclusive': inconclusive, 'evidence': ev,
            'summary': 'paths=%d templates=%d findings=%d outside=%d' % (summ['paths'], len(tpls), len(findings), by_status.get('outside', 0))}
