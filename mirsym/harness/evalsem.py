"""Evaluation semantics harness shared by C06 (assignments / context), C07 (order, exactly-once,
laziness), C14 (re-entrant handlers) and C15 (failing / panicking handlers).

A template is a token list over context names; bindings are symbolic Values or *observable*
context functions (harness closures that append to a call log, return a value, and may fail at a
chosen invocation index).  The MIR run (parse + ExprAST::exec on a real Context) is compared with
the reference interpreter (harness/refeval.py): outcome class, value (z3 validity), call log
(exact), and the final contents of the Context (entry by entry, z3 validity).
"""
import json
import os
import z3

from values import *
import api
import render
import explore as ex
from interp import Unwind, Deadlock
from harness.common import *
from harness import refparse as rf
from harness import refeval as re_
from harness import symval as sv


def T(s):
    return s.split()


class FuncSpec:
    """an observable context function: returns `ret` (a Value factory name -> spec) when called"""

    def __init__(self, ret_spec, as_var=False):
        self.ret_spec = ret_spec


def param_invalid(it):
    return Enum('Error', it.src.enums['Error'].index('ParamInvalid'), 'ParamInvalid', ())


class Fault(Exception):
    pass


NESTED = {'d': 0}      # depth of `execute_self` re-entries: nested handler invocations are not logged or counted


GLOBAL_OPS = {'gf': 'function', '+++': 'prefix', '---': 'postfix', 'hi': 'infix', 'becomes': 'infix'}
BECOMES_PREC = 20
HI_PREC = 115


def infix_table_with_hi():
    t = dict(rf.BUILTIN_INFIX)
    t['hi'] = (HI_PREC, 'LEFT', 'CALC')
    t['becomes'] = (BECOMES_PREC, 'RIGHT', 'SETTER')       # a user-registered assignment-type operator
    return t


# ------------------------------------------------------------------ leak acceleration
# A failing evaluation that leaves an integer in a static / thread-local cell changed by the same non-zero amount d each
# time (a depth counter not given back, a retry budget, ...) reaches, after k more failures, the state "cell = v + k*d".
# Instead of repeating the evaluation k times, the cell is set to v + k*d with k a solver variable (0 <= k <= ACCEL_MAX)
# and the follow-up evaluation is explored under it: the solver finds the k at which the follow-up breaks, if any.  The
# witness is replayed natively with that many real repetitions before it is reported.
ACCEL_MAX = 4096


def _int_leaves(v, path, out, depth=0):
    if depth > 5:
        return
    if isinstance(v, bool):
        return
    if isinstance(v, int):
        out[path] = v
        return
    if isinstance(v, (Agg, Enum)):
        for i, x in enumerate(v.f):
            _int_leaves(x, path + (i,), out, depth + 1)
    elif isinstance(v, OnceV) and v.state == 2:
        _int_leaves(v.val, path + ('once',), out, depth + 1)       # a lazily initialised thread_local! / once cell


def _replace_leaf(v, path, new):
    if not path:
        return new
    if path[0] == 'once':
        return OnceV(v.state, _replace_leaf(v.val, path[1:], new), v.owner)
    f = list(v.f)
    f[path[0]] = _replace_leaf(f[path[0]], path[1:], new)
    if isinstance(v, Agg):
        return Agg(v.ty, f)
    return Enum(v.ty, v.idx, v.name, f)


def static_ints(it):
    out = {}
    for name, cell in it.statics.items():
        leaves = {}
        _int_leaves(cell.v, (), leaves)
        for pth, val in leaves.items():
            out[(name, pth)] = val
    return out


def accelerate_leaks(it, px, s0, s1, s2, base=None):
    """-> (k, [description]) after making every linearly leaking integer cell symbolic, or (None, [])"""
    leaks = []
    for key, v2 in s2.items():
        if key in s1:
            d = v2 - s1[key]
            # (a cell the first failing evaluation created lazily has no value before it)
            if d != 0 and (key not in s0 or s1[key] - s0[key] == d):
                leaks.append((key, v2, d))
    if not leaks:
        return None, []
    k = px.bv('leak_k', 64)
    px.add(z3.ULE(k, z3.BitVecVal(ACCEL_MAX, 64)))
    px.get_model()
    desc = []
    for (name, pth), v2, d in leaks:
        cell = it.statics[name]
        if base is not None:
            v2 = base[(name, pth)]          # the value after all real repetitions
        sym = z3.BitVecVal(v2 % (1 << 64), 64) + k * z3.BitVecVal(d % (1 << 64), 64)
        cell.v = _replace_leaf(cell.v, pth, sym)
        desc.append('%s%s: %+d per failing evaluation' % (name, list(pth), d))
    return k, desc


def run_template(it, px, toks, vars_, funcs, fault_at=0, fault_kind='err', reenter=None, use_globals=False, followup=None, const_ret=None, repeat=0, ref_reenter=None, accelerate=False):
    """vars_: {name: Value}; funcs: {name: Value returned by the context function};
    fault_at: the k-th handler invocation (all kinds, 1-based) fails with fault_kind (0: none);
    reenter(it, ctx_cell, name): action performed inside every handler before it returns;
    use_globals: also register global handlers gf (function), +++ (prefix), --- (postfix), hi (infix).
    Returns dict(model outcome, oracle outcome, logs, ctx, env)."""
    text = ' '.join(toks)
    NESTED['d'] = 0
    log_m = []
    cnt_m = {'n': 0}
    box = {}

    def model_handler(name, behave, vec_args=False):
        def h(it_, args):
            if vec_args and len(args) == 1 and isinstance(args[0], Arr):
                args = list(args[0].items)
            nested = NESTED['d'] > 0
            if not nested:
                log_m.append(name)
                cnt_m['n'] += 1
            if not nested and fault_at and cnt_m['n'] == fault_at:
                if fault_kind == 'panic':
                    raise Unwind('verif-handler-panic ' + name, it_.where())
                return Err(param_invalid(it_))
            if reenter is not None:
                reenter(it_, box.get('c'), name)
            return Ok(const_ret if const_ret is not None else behave(args))
        return PyFn(h, name)
    binds = [(n, ('var', v)) for n, v in vars_.items()] + [(n, ('func', model_handler(n, (lambda r: (lambda a: r))(r), True))) for n, r in funcs.items()]
    infix = rf.BUILTIN_INFIX
    prefix, postfix = rf.BUILTIN_PREFIX, rf.BUILTIN_POSTFIX
    if use_globals:
        first = lambda a: (a[0] if a else api.V_NONE)
        it.call('register_function', [mkstr('gf'), ArcV(Cell(model_handler('gf', first, True), 'h'))])
        it.call('register_prefix_op', [mkstr('+++'), ArcV(Cell(model_handler('+++', first), 'h'))])
        it.call('register_postfix_op', [mkstr('---'), ArcV(Cell(model_handler('---', first), 'h'))])
        it.call('register_infix_op', [mkstr('hi'), HI_PREC, Enum('InfixOpType', 0, 'CALC'), Enum('InfixOpAssociativity', 0, 'LEFT'),
                                      ArcV(Cell(model_handler('hi', first), 'h'))])
        it.call('register_infix_op', [mkstr('becomes'), BECOMES_PREC, Enum('InfixOpType', 1, 'SETTER'), Enum('InfixOpAssociativity', 1, 'RIGHT'),
                                      ArcV(Cell(model_handler('becomes', first), 'h'))])
        infix = infix_table_with_hi()
        prefix = tuple(prefix) + ('+++',)
        postfix = tuple(postfix) + ('---',)
    ctx = api.new_context(it, binds)
    box['c'] = ctx
    accel = accelerate and fault_at and not repeat
    s0 = static_ints(it) if accel else None
    got = api.execute(it, text, ctx)
    log_first = list(log_m)
    # the same evaluation again `repeat` times on the same context and thread (the injected fault recurs each time):
    # only the state it leaves behind matters (leaked counters, locks), observed by the follow-up
    for _ in range(repeat):
        cnt_m['n'] = 0
        api.execute(it, text, ctx)
    accel_k, accel_cells = None, []
    if accel:
        s1 = static_ints(it)
        if os.environ.get('VERIF_DEBUG_ACCEL'):
            import sys
            print('ACCEL', fault_kind, [(k, s0.get(k), v) for k, v in s1.items()][:8], [(n, repr(c.v)[:80]) for n, c in it.statics.items() if 'DEPTH' in n], file=sys.stderr)
        if any(s0.get(key) != v for key, v in s1.items()):
            # second failing evaluation, on a fresh context with the same bindings (the first one may have rebound names)
            cnt_m['n'] = 0
            api.execute(it, text, api.new_context(it, binds))
            accel_k, accel_cells = accelerate_leaks(it, px, s0, s1, static_ints(it))
    del log_m[len(log_first):]
    follow = None
    if followup is not None:
        follow = followup(it, ctx)
    # oracle
    cnt_r = {'n': 0}
    env_box = {}

    def ref_handler(name, behave, log_it=False):
        def h(*args):
            if log_it:
                env_box['e'].log.append(name)
            cnt_r['n'] += 1
            if fault_at and cnt_r['n'] == fault_at:
                if fault_kind == 'panic':
                    raise Fault(name)
                raise re_.RefErr('injected')
            if ref_reenter is not None:
                ref_reenter(env_box['e'], name)       # what the re-entrant action does to the context, by definition
            if const_ret is not None:
                return const_ret
            return behave(list(args[0]) if (len(args) == 1 and isinstance(args[0], list)) else list(args))
        return h
    env = re_.Env(dict([(n, ('var', v)) for n, v in vars_.items()] + [(n, ('func', ref_handler(n, (lambda r: (lambda a: r))(r)))) for n, r in funcs.items()]))
    env_box['e'] = env
    evaluator = re_.RefEval(it.truth, infix)
    if use_globals:
        first = lambda a: (a[0] if a else api.V_NONE)
        env.globals['gf'] = ref_handler('gf', first)
        evaluator.prefix_extra['+++'] = ref_handler('+++', first, True)
        evaluator.postfix_extra['---'] = ref_handler('---', first, True)
        evaluator.infix_handlers['hi'] = ref_handler('hi', first, True)
        evaluator.infix_handlers['becomes'] = ref_handler('becomes', first, True)
    j = rf.ref_parse(toks, infix, prefix=prefix, postfix=postfix)
    want_kind, want = None, None
    try:
        want = evaluator.eval(j, env)
        want_kind = 'ok'
    except re_.RefErr as e:
        want_kind, want = 'err', str(e)
    except Fault as e:
        want_kind, want = 'panic', str(e)
    except re_.Outside as e:
        want_kind, want = 'outside', str(e)
    return {'text': text, 'got': got, 'want_kind': want_kind, 'want': want, 'log_m': log_m, 'log_r': env.log, 'ctx': ctx, 'env': env,
            'follow': follow, 'accel_k': accel_k, 'accel_cells': accel_cells}


def compare(px, res, check_ctx=True):
    """-> list of (cause, description) problems; uses px.check for symbolic equalities"""
    probs = []
    res['cex_model'] = None
    got, wk = res['got'], res['want_kind']
    if wk == 'outside':
        return probs
    gk = got.kind
    if gk != wk:
        probs.append(('outcome-%s-vs-%s' % (gk, wk), 'evaluation ends with %s (%s) where the language defines %s' % (gk, got.detail if gk not in ('ok', 'err') else '', wk)))
    elif gk == 'ok':
        eq = re_.value_eq(got.value, res['want'])
        ok, m = px.check(eq)
        if not ok:
            res['cex_model'] = res['cex_model'] or m
            probs.append(('wrong-value', 'result differs from the language definition'))
    if res['log_m'] != res['log_r']:
        probs.append(('call-log', 'handlers invoked %s, the definition says %s' % (res['log_m'], res['log_r'])))
    if check_ctx:
        try:
            mx = api.ctx_mutex(res['ctx'])
            if mx.poisoned:
                probs.append(('ctx-poisoned', 'the context lock is poisoned after the evaluation'))
            if mx.held is not None:
                probs.append(('ctx-locked', 'the context lock is still held after the evaluation'))
            ents = api.ctx_entries(res['ctx'])
        except Exception as e:
            probs.append(('ctx-unreadable', str(e)))
            ents = None
        if ents is not None:
            env = res['env']
            got_names = [bytes(k.b).decode('utf-8', 'replace') for k, _ in ents]
            if sorted(got_names) != sorted(env.b):
                probs.append(('ctx-names', 'context holds %s, the definition says %s' % (sorted(got_names), sorted(env.b))))
            else:
                for (k, b) in ents:
                    name = bytes(k.b).decode('utf-8', 'replace')
                    wb = env.b[name]
                    if b[0] != wb[0]:
                        probs.append(('ctx-binding-kind', '%s is bound as %s, expected %s' % (name, b[0], wb[0])))
                    elif b[0] == 'var':
                        ok, m = px.check(re_.value_eq(b[1], wb[1]))
                        if not ok:
                            res['cex_model'] = res['cex_model'] or m
                            probs.append(('ctx-value', 'context value of %s differs from the definition' % name))
    return probs
