"""C06 — assignments update the context exactly as written (see harness/evalsem.py).

Statement sequences over plain and compound assignments (all 11 operators), reads, re-assignment
with changing types, chained and nested assignments, failing statements at every position, unbound
names, non-name targets and function-bound names; operand values symbolic.  After the run the
result and the *entire* Context (entry by entry) are compared with the reference interpreter.
"""
import json
import z3

from values import *
import api
import render
import explore as ex
from harness.common import *
from harness import evalsem as es
from harness import symval as sv
from harness import opsem

ID = 'C06'
T = es.T


def templates(tier):
    sp = opsem.spec
    S = (0, 1) if tier == 'quick' else (0, 1, 2, 28)
    num = sp(['num'], S)
    numb = sp(['num', 'bool', 'none'], S)
    anyp = opsem.poor()
    i64 = sp(['i64', 'num', 'bool'], (0,))
    out = []
    out.append(('assign', T('x = y ; x'), {'y': anyp}, {}))
    out.append(('assign-value-is-none', T('x = y'), {'y': anyp}, {}))
    out.append(('assign-expr', T('x = y + z ; x'), {'y': numb, 'z': num}, {}))
    out.append(('rebind', T('x = y ; x = z ; x'), {'x': anyp, 'y': sp(['num', 'str']), 'z': sp(['bool', 'list'])}, {}))
    out.append(('chain', T('x = y = z ; x'), {'z': anyp}, {}))
    out.append(('chain-read', T('x = y = z ; y'), {'z': sp(['num', 'str', 'none'])}, {}))
    out.append(('nested', T('[ x = y , x ]'), {'y': sp(['num', 'bool'])}, {}))
    out.append(('nested2', T('( x = y ) == z'), {'y': sp(['num']), 'z': sp(['num', 'none'])}, {}))
    out.append(('unbound-read', T('q'), {}, {}))
    out.append(('unbound-expr', T('q == w'), {'w': sp(['none', 'num'])}, {}))
    out.append(('unbound-arith', T('q + y'), {'y': num}, {}))
    out.append(('unbound-compound', T('q += y ; q'), {'y': num}, {}))
    out.append(('empty', [], {}, {}))
    out.append(('target-literal', T('1 = y'), {'y': num}, {}))
    out.append(('target-call', T('f ( ) = y ; y'), {'y': num}, {'f': num}))
    out.append(('target-paren', T('( x ) = y ; x'), {'y': num}, {}))
    out.append(('target-expr', T('x + 1 = y'), {'x': num, 'y': num}, {}))
    out.append(('target-list', T('[ x ] = y'), {'x': num, 'y': num}, {}))
    out.append(('target-func-name', T('f = y ; f'), {'y': num}, {'f': sp(['num', 'str'])}))
    out.append(('seq3', T('x = x + y ; x = x * z ; x'), {'x': num, 'y': num, 'z': sp(['num'], (0, 1))}, {}))
    out.append(('alias', T('x = y ; y = z ; x'), {'y': num, 'z': sp(['str', 'bool'])}, {}))
    out.append(('fail-first', T('x += b ; x = y ; x'), {'x': num, 'b': sp(['bool', 'str', 'num'], (0,)), 'y': num}, {}))
    out.append(('fail-middle', T('x = y ; x += b ; x = z'), {'y': num, 'b': sp(['bool', 'num'], (0,)), 'z': num}, {}))
    out.append(('fail-last', T('x = y ; w = z ; w -= b'), {'y': num, 'z': num, 'b': sp(['none', 'num'], (0,))}, {}))
    out.append(('fail-div', T('x = y ; x /= z ; w = 1'), {'y': sp(['num'], (0,)), 'z': sp(['num'], (0,))}, {}))
    for op in ('+=', '-=', '*=', '%='):
        out.append(('compound' + op, T('x %s y ; x' % op), {'x': sp(['num', 'bool', 'none', 'str'], (0, 1)), 'y': sp(['num', 'str'], (0, 1))}, {}))
        out.append(('compound-eq' + op, T('w = x ; x %s y ; x == ( w %s y )' % (op, op[0])), {'x': sp(['num'], (0, 1)), 'y': sp(['num'], (0, 1))}, {}))
    for op in ('<<=', '>>=', '&=', '^=', '|='):
        out.append(('compound' + op, T('x %s y ; x' % op), {'x': i64, 'y': i64}, {}))
        out.append(('compound-eq' + op, T('w = x ; x %s y ; x == ( w %s y )' % (op, op[:-1])), {'x': sp(['i64'], (0,)), 'y': sp(['i64'], (0,))}, {}))
    out.append(('compound/=', T('x /= y ; x'), {'x': sp(['num', 'bool'], (0,)), 'y': sp(['num', 'none'], (0,))}, {}))
    # the right side rebinds the target: `x op= e` must use the value x had *before* e ran
    for op in ('+=', '*=', '-='):
        out.append(('rhs-rebinds-target' + op, T('x %s ( ( x = y ) == q ? z : w ) ; x' % op), {'x': sp(['num'], (0,)), 'y': sp(['num'], (0,)), 'z': sp(['num'], (0,)), 'w': sp(['num'], (0,))}, {}))
    out.append(('rhs-rebinds-target=', T('x = [ x = y , x ] ; x'), {'x': sp(['num', 'none']), 'y': sp(['num', 'str'])}, {}))
    out.append(('rhs-rebinds-other', T('x += ( ( v = y ) == q ? v : z ) ; [ x , v ]'), {'x': sp(['num'], (0,)), 'y': sp(['num'], (0,)), 'z': sp(['num'], (0,))}, {}))
    out.append(('lhs-func-then-rhs', T('f += g ; f'), {}, {'f': sp(['num'], (0,)), 'g': sp(['num'], (0,))}))
    out.append(('func-read', T('x = f ; x'), {}, {'f': sp(['num', 'list'])}))
    out.append(('func-call', T('x = f ( ) + g ; x'), {}, {'f': num, 'g': num}))
    out.append(('last-value', T('y ; z'), {'y': anyp, 'z': sp(['num', 'str'])}, {}))
    out.append(('last-value-semicolon', T('y ; z ;'), {'y': num, 'z': sp(['num', 'bool'])}, {}))
    if tier == 'thorough':
        out.append(('seq4', T('x = y ; w = x ; x = z ; [ w , x ]'), {'y': anyp, 'z': anyp}, {}))
        out.append(('seq4b', T('x = y ; x += z ; x *= y ; x'), {'y': num, 'z': num}, {}))
    return out


def prepare(it):
    it.call('init::init', [])


def harness(it, px, params):
    tpls = params['templates']
    k = pick_config(px, 'tpl', len(tpls))
    tid, toks, vspecs, fspecs = tpls[k]
    px.notes.append(tid)
    vars_ = {n: sv.sym_value(it, px, n, sp) for n, sp in sorted(vspecs.items())}
    frets = {n: sv.sym_value(it, px, 'ret_' + n, sp) for n, sp in sorted(fspecs.items())}
    px.get_model()
    res = es.run_template(it, px, toks, vars_, frets)
    rec = {'tpl': tid, 'text': res['text'], 'outcome': res['got'].kind, 'want': res['want_kind']}
    px.cover('tpl-' + tid)
    probs = es.compare(px, res)
    m = res.get('cex_model') or px.get_model()
    rec['witness'] = {'vars': {n: sv.concrete(v, m) for n, v in vars_.items()}, 'funcs': {n: sv.concrete(v, m) for n, v in frets.items()}}
    if res['want_kind'] == 'outside':
        rec['value_unchecked'] = True
    for cause, desc in probs:
        px.finding({'key': 'C06|%s|%s' % (cause, tid), 'desc': '`%s`: %s' % (res['text'], desc), 'text': res['text'], 'tpl': tid,
                    'witness': rec['witness'], 'cause': cause})
    return rec


def scenario(text, witness):
    steps = [{'op': 'ctx_new', 'ctx': 'c'}]
    for n, v in sorted(witness['vars'].items()):
        steps.append({'op': 'ctx_set_var', 'ctx': 'c', 'name': n.encode().hex(), 'value': v})
    for n, v in sorted(witness['funcs'].items()):
        steps.append({'op': 'ctx_set_func', 'ctx': 'c', 'name': n.encode().hex(), 'handler': {'h': 'const', 'value': v, 'id': n}})
    steps.append({'op': 'execute', 'hex': text.encode().hex(), 'ctx': 'c'})
    steps.append({'op': 'ctx_dump', 'ctx': 'c'})
    return steps


def concrete_reference(text, witness):
    """reference interpreter on the concrete witness -> (kind, valuejson|None, entries, log)"""
    from harness import refparse as rf, refeval as re_
    toks = text.split()
    log = []

    def mk(n, v):
        def h(args):
            return render.value_from_json(v)
        return h
    env = re_.Env(dict([(n, ('var', render.value_from_json(v))) for n, v in witness['vars'].items()] +
                       [(n, ('func', mk(n, v))) for n, v in witness['funcs'].items()]))

    def truth(c):
        c = z3.simplify(c) if is_sym(c) else c
        return c if isinstance(c, bool) else z3.is_true(c)
    try:
        v = re_.RefEval(truth).eval(rf.ref_parse(toks, rf.BUILTIN_INFIX), env)
        kind, val = 'ok', render.value_json(v, opsem._EmptyModel())
    except re_.RefErr:
        kind, val = 'err', None
    except re_.Outside:
        kind, val = 'outside', None
    ents = []
    for n in env.b:
        b = env.b[n]
        if b[0] == 'var':
            ents.append({'name': n.encode().hex(), 'var': render.value_json(b[1], opsem._EmptyModel())})
        else:
            ents.append({'name': n.encode().hex(), 'func': True})
    ents.sort(key=lambda e: bytes.fromhex(e['name']))
    return kind, val, ents, env.log


def native_disagrees(obs_exec, obs_ctx, ref):
    kind, val, ents, log = ref
    if obs_exec.get('kind') in ('panic', 'crash', 'timeout', 'hang'):
        return True
    if kind == 'outside':
        return None
    if obs_exec.get('kind') != kind:
        return True
    if kind == 'ok' and render.norm_num(obs_exec.get('value')) != render.norm_num(val):
        return True
    if obs_exec.get('log') is not None and obs_exec.get('log') != log:
        return True
    if obs_ctx.get('kind') != 'ok':
        return True
    return render.norm_num(obs_ctx.get('entries')) != render.norm_num(ents)


def run(ctx):
    tpls = templates(ctx.tier)
    params = {'templates': tpls, 'seed': ctx.seed, 'timeout_ms': 10000 if ctx.tier == 'quick' else 60000, 'step_limit': 400000}
    eng = ctx.engine('dev')
    recs, summ = ex.explore(eng, harness, params, prepare=prepare)
    return judge(ctx, 'C06', tpls, recs, summ, scenario, concrete_reference, native_disagrees)


def judge(ctx, pid, tpls, recs, summ, scenario_fn, ref_fn, disagree_fn, extra_outside=(), native=True):
    inconclusive = []
    by_status = {}
    for r in recs:
        by_status[r['status']] = by_status.get(r['status'], 0) + 1
        if r['status'] in ('unsupported', 'inconclusive'):
            inconclusive.append('%s: %s %s %s' % (r['status'], r.get('detail'), r.get('where', ''), r.get('notes')))
    inconclusive = sorted(set(inconclusive))
    covers = set()
    for r in recs:
        covers.update(r.get('covers', []))
    for t in tpls:
        if 'tpl-' + t[0] not in covers:
            inconclusive.append('vacuity: template %s never evaluated' % t[0])
    groups = {}
    for r in recs:
        for f in r.get('findings', []):
            groups.setdefault(f['key'], []).append(f)
    findings = []
    validated = 0
    for key, fs in (sorted(groups.items()) if native else []):
        f = fs[0]
        sc = scenario_fn(f['text'], f['witness'])
        ref = ref_fn(f['text'], f['witness'])
        od = ctx.native(sc, 'dev')
        orl = ctx.native(sc, 'release')
        validated += 1
        confirmed = bool(disagree_fn(od[-2], od[-1], ref)) or bool(disagree_fn(orl[-2], orl[-1], ref))
        findings.append({'key': key, 'desc': f['desc'][:300], 'confirmed': confirmed, 'scenario': sc,
                         'expect': {'reference': {'kind': ref[0], 'value': ref[1], 'ctx': ref[2], 'log': ref[3]}},
                         'witness_text': '%s with %s' % (f['text'], json.dumps(f['witness'])[:300]),
                         'native': {'dev': od[-2:], 'release': orl[-2:]}, 'id': sid([key, f['witness']]), 'count': len(fs)})
    okrecs = [r for r in recs if r['status'] == 'done' and not r.get('findings') and r.get('witness') is not None]
    stride = max(1, len(okrecs) // (120 if ctx.tier == 'quick' else 500))
    for r in (okrecs[::stride] if native else []):
        sc = scenario_fn(r['text'], r['witness'])
        od = ctx.native(sc, 'dev')
        validated += 1
        if disagree_fn(od[-2], od[-1], ref_fn(r['text'], r['witness'])):
            inconclusive.append('sampled path disagrees natively (encoder or oracle wrong): `%s` %s native=%s' % (
                r['text'], json.dumps(r['witness'])[:200], json.dumps(od[-2:])[:300]))
    samples = []
    seen = set()
    for r in recs:
        if r['status'] == 'done' and r.get('tpl') not in seen and r.get('witness') is not None:
            seen.add(r['tpl'])
            samples.append({'program': r['text'], 'bindings': r['witness'], 'outcome': r['outcome'], 'oracle': r.get('want')})
    ev = {
        'coverage': {
            'states': max(1, summ['paths']), 'transitions': max(1, summ['decisions']),
            'traces_validated_against_impl': validated, 'samples': samples[:50],
            'exhaustive': not summ.get('truncated') and not inconclusive,
            'bound': {'templates': len(tpls), 'template_ids': [t[0] for t in tpls]},
            'path_status': by_status,
            'solver': {'engine': 'z3 ' + z3.get_version_string(), 'queries_sat': summ['sat'], 'queries_unsat': summ['unsat'],
                       'queries_unknown': summ['unknown'], 'solver_s': round(summ['solver_s'], 2)},
            'mir_steps': summ['steps'], 'workers': summ['workers'],
            'functions_encoded': summ['bodies_used'], 'library_models_used': summ['models_used'],
            'outside': ['programs that are not instances of the templates', 'results that rust_decimal would round (skipped, counted)'] + list(extra_outside),
        },
        'assumptions': ['oracle = harness/refeval.py (language definition)', 'library models validated by the conformance corpus and sampled native replays'],
    }
    return {'findings': findings, 'inconclusive': inconclusive, 'evidence': ev,
            'summary': 'paths=%d templates=%d findings=%d' % (summ['paths'], len(tpls), len(findings))}
