"""Shared pieces for property harnesses."""
import hashlib
import json
import re
import z3

from values import *
import api
import render
import replay as rp


def compositions(n, maxpart=4):
    """all ways to write n as an ordered sum of parts 1..maxpart"""
    if n == 0:
        return [()]
    out = []
    for p in range(1, min(maxpart, n) + 1):
        for rest in compositions(n - p, maxpart):
            out.append((p,) + rest)
    return out


def utf8_constraints(bs, shape):
    """z3 constraints making the byte variables `bs` a well-formed UTF-8 string whose characters
    have the encoded lengths given by `shape` (no surrogates, no overlongs, <= U+10FFFF)"""
    cs = []
    i = 0

    def rng(b, lo, hi):
        return z3.And(z3.UGE(b, z3.BitVecVal(lo, 8)), z3.ULE(b, z3.BitVecVal(hi, 8)))
    for w in shape:
        b0 = bs[i]
        if w == 1:
            cs.append(z3.ULE(b0, z3.BitVecVal(0x7F, 8)))
        elif w == 2:
            cs.append(rng(b0, 0xC2, 0xDF))
            cs.append(rng(bs[i + 1], 0x80, 0xBF))
        elif w == 3:
            cs.append(rng(b0, 0xE0, 0xEF))
            cs.append(z3.If(b0 == 0xE0, rng(bs[i + 1], 0xA0, 0xBF),
                            z3.If(b0 == 0xED, rng(bs[i + 1], 0x80, 0x9F), rng(bs[i + 1], 0x80, 0xBF))))
            cs.append(rng(bs[i + 2], 0x80, 0xBF))
        else:
            cs.append(rng(b0, 0xF0, 0xF4))
            cs.append(z3.If(b0 == 0xF0, rng(bs[i + 1], 0x90, 0xBF),
                            z3.If(b0 == 0xF4, rng(bs[i + 1], 0x80, 0x8F), rng(bs[i + 1], 0x80, 0xBF))))
            cs.append(rng(bs[i + 2], 0x80, 0xBF))
            cs.append(rng(bs[i + 3], 0x80, 0xBF))
        i += w
    return cs


def pick_config(px, name, n):
    """a symbolic selector over n harness configurations (explored like any other branch)"""
    if n == 1:
        return 0
    v = px.bv(name, 16)
    px.add(z3.ULT(v, z3.BitVecVal(n, 16)))
    return px.choose([v == z3.BitVecVal(k, 16) for k in range(n)])


def innermost_crate_fn(where):
    """last crate function on the MIR call stack, normalised (impl spans stripped)"""
    if not where:
        return '?'
    name = where[-1][0]
    return norm_fn(name)


def norm_fn(name):
    name = re.sub(r'<impl at ([^:>]+):\d+:\d+: \d+:\d+>', lambda m: '<impl ' + m.group(1) + '>', name)
    name = re.sub(r'#\d+$', '', name)
    return name


def panic_class(msg):
    """coarse, line-number-free class of a panic message (the 'failing operation' of a finding key)"""
    m = msg or ''
    table = [
        ('not a char boundary', 'str-slice-not-char-boundary'),
        ('out of bounds of string', 'str-slice-out-of-bounds'),
        ('slice index starts at', 'str-slice-inverted'),
        ('Division by zero', 'decimal-division-by-zero'),
        ('Addition overflowed', 'decimal-add-overflow'),
        ('Subtraction overflowed', 'decimal-sub-overflow'),
        ('Multiplication overflowed', 'decimal-mul-overflow'),
        ('Division overflowed', 'decimal-div-overflow'),
        ('shift left', 'shl-overflow'),
        ('shift right', 'shr-overflow'),
        ('attempt to compute', 'int-arith-overflow'),
        ('attempt to add', 'int-arith-overflow'),
        ('attempt to subtract', 'int-arith-overflow'),
        ('attempt to multiply', 'int-arith-overflow'),
        ('attempt to negate', 'int-negate-overflow'),
        ('Option::unwrap()', 'unwrap-none'),
        ('PoisonError', 'lock-poisoned'),
        ('Result::unwrap()', 'unwrap-err'),
        ('index out of bounds', 'index-out-of-bounds'),
        ('verif-handler-panic', 'handler-panic'),
    ]
    for needle, cls in table:
        if needle in m:
            return cls
    return 'panic:' + re.sub(r'[0-9]+', 'N', m)[:60]


def native_panic_class(obs):
    return panic_class(obs.get('msg', ''))


def sid(obj):
    return hashlib.sha256(json.dumps(obj, sort_keys=True).encode()).hexdigest()[:12]
