"""C01, repetition families — nesting depth, chain length and run time as functions of the input size.

Input: U^k · T · C^k where the unit U is 1..u symbolic ASCII bytes over a structural alphabet (plus a few fixed longer
units), the tail T and the closer C are drawn from small fixed sets, and k runs over three concrete sizes k1 < k2 < k3
inside one path (same symbolic bytes for the three sizes).  Per size and per stage (parse, expr, describe, exec) the
interpreter records the maximal MIR call depth and the number of MIR steps.

Decided per path:
  * every stage ends in Ok/Err (no panic, abort, deadlock or step budget) — as in the main family;
  * call depth that grows by the same positive amount from k1 to k2 and from k2 to k3 is recursion proportional to the
    input size: the unit is then repeated N_BIG times and run natively (dev and release); a crash of the process there is
    the violation (stack exhaustion).  No crash = the recursion is bounded beyond the explored sizes: held;
  * step counts that accelerate faster than a degree-4 polynomial between the sizes (or exhaust the step budget) point at
    exponential run time: the unit is repeated N_TIME times natively under a wall-clock limit; a timeout is the violation.
"""
import z3

from values import *
import api
import render
import explore as ex
from harness.common import *

ALPHABET = b"([{)]}-!+*=<&?:,; 1a'.n"
FIXED_UNITS = ['1+(', '{1:', '1?1:', 'not ', '1?', 'a=', '[1,', 'a(1,', '1 in [', 'a ', 'true ', "'a' ", '1**', 'a+=', '(1)+']
TAILS = ['', '1']
CLOSERS = ['', ')', ']', '}']
BOUNDS = {'quick': {'U': 2, 'KS': (4, 8, 12)}, 'thorough': {'U': 3, 'KS': (4, 8, 12)}}
N_BIG = 200000
N_TIME = 64
STAGES = ('parse', 'expr', 'describe', 'exec')


def prepare(it):
    it.call('init::init', [])


def configs(U):
    cfgs = []
    for t in range(len(TAILS)):
        for c in range(len(CLOSERS)):
            for u in range(1, U + 1):
                cfgs.append(('sym', u, t, c))
            for f in range(len(FIXED_UNITS)):
                cfgs.append(('fixed', f, t, c))
    return cfgs


def cycle_of(stack):
    """the recursion a deepest call stack shows, named by its outermost repeating crate function (short name):
    the role a finding is keyed by"""
    cnt = {}
    for n in stack:
        n = norm_fn(n)
        cnt[n] = cnt.get(n, 0) + 1
    for n in stack:
        if cnt[norm_fn(n)] >= 3:
            return [re_short(norm_fn(n))]
    return []


def re_short(n):
    n = n.split('::')[-1]
    return n.split('#')[0]


def harness(it, px, params):
    cfgs = configs(params['U'])
    kind, a, t, c = cfgs[pick_config(px, 'cfg', len(cfgs))]
    if kind == 'sym':
        unit = [px.bv('u%d' % i, 8) for i in range(a)]
        for b in unit:
            px.add(z3.Or([b == z3.BitVecVal(ch, 8) for ch in params['alphabet']]))
        px.cover('symbolic-unit')
    else:
        unit = list(FIXED_UNITS[a].encode())
        px.cover('fixed-unit')
    tail = list(TAILS[t].encode())
    closer = list(CLOSERS[c].encode())
    px.get_model()
    px.pin_probe = True
    it.track_depth = True
    runs = []
    bad = None
    for k in params['KS']:
        bs = unit * k + tail + closer * k
        per = {}
        ast = None
        for stage in STAGES:
            it.steps = 0
            it.max_depth = len(it.stack)
            it.max_stack = []
            base = len(it.stack)
            if stage == 'parse':
                o = api.parse(it, Str(tuple(bs)))
                if o.kind == 'ok':
                    ast = o.value
            elif ast is None:
                break
            elif stage == 'expr':
                o = api.expr(it, ast)
            elif stage == 'describe':
                o = api.describe(it, ast)
            else:
                o = api.exec_ast(it, ast, api.new_context(it))
            per[stage] = {'depth': it.max_depth - base, 'steps': it.steps, 'kind': o.kind, 'stack': list(it.max_stack)}
            if o.kind not in ('ok', 'err', 'ret') and bad is None:
                bad = (k, stage, o)
        runs.append(per)
    it.track_depth = False
    m = px.get_model()
    uw = px.eval_bytes(m, unit)
    rec = {'unit': uw.hex(), 'tail': TAILS[t], 'closer': CLOSERS[c], 'ks': list(params['KS']),
           'depths': {s: [r[s]['depth'] for r in runs if s in r] for s in STAGES},
           'steps': {s: [r[s]['steps'] for r in runs if s in r] for s in STAGES},
           'outcome': 'ok'}
    text = lambda n: uw * n + TAILS[t].encode() + CLOSERS[c].encode() * n
    if bad is not None:
        k, stage, o = bad
        rec['outcome'] = o.kind
        if o.kind == 'budget':
            px.finding({'key': 'C01|run-time|%s|%s' % (stage, '+'.join(cycle_of(runs[-1].get(stage, {}).get('stack', [])) or ['-'])),
                        'kind': 'time', 'stage': stage, 'unit': uw.hex(), 'tail': TAILS[t], 'closer': CLOSERS[c],
                        'desc': '%s of %r repeated %d times exceeds the step budget (%s)' % (stage, uw.decode('utf-8', 'replace'), k, o.detail)})
        else:
            fn = innermost_crate_fn(o.where)
            px.finding({'key': 'C01|%s|%s|%s|%s' % (stage, o.kind, fn, panic_class(o.detail) if o.kind == 'panic' else o.kind),
                        'kind': 'fault', 'stage': stage, 'witness': text(k).hex(),
                        'desc': '%s during %s: %s' % (o.kind, stage, (o.detail or '')[:120])})
        return rec
    for stage in STAGES:
        ds = rec['depths'][stage]
        ss = rec['steps'][stage]
        if len(ds) == 3:
            g1, g2 = ds[1] - ds[0], ds[2] - ds[1]
            if g1 > 0 and g1 == g2:
                px.cover('depth-grows')
                cyc = cycle_of(runs[-1][stage]['stack'])
                px.finding({'key': 'C01|stack-exhaustion|%s|%s' % (stage, '+'.join(cyc) or '-'), 'kind': 'stack', 'stage': stage,
                            'unit': uw.hex(), 'tail': TAILS[t], 'closer': CLOSERS[c], 'per_repetition': g1 // (params['KS'][1] - params['KS'][0]),
                            'desc': '%s recurses %d frames deeper per repetition of %r (depths %s at %s repetitions), with no bound' % (
                                stage, g1 // (params['KS'][1] - params['KS'][0]), uw.decode('utf-8', 'replace'), ds, list(params['KS']))})
            r1 = ss[1] / max(1, ss[0])
            r2 = ss[2] / max(1, ss[1])
            q1 = (params['KS'][1] / params['KS'][0]) ** 4
            q2 = (params['KS'][2] / params['KS'][1]) ** 4
            if r1 > q1 and r2 > q2:
                px.finding({'key': 'C01|run-time|%s|%s' % (stage, '+'.join(cycle_of(runs[-1][stage]['stack'])) or '-'), 'kind': 'time', 'stage': stage,
                            'unit': uw.hex(), 'tail': TAILS[t], 'closer': CLOSERS[c],
                            'desc': '%s of %r: MIR steps %s at %s repetitions grow faster than a degree-4 polynomial' % (
                                stage, uw.decode('utf-8', 'replace'), ss, list(params['KS']))})
    px.cover('deep-done')
    return rec


def big_text(f, n):
    return bytes.fromhex(f['unit']) * n + f['tail'].encode() + f['closer'].encode() * n


def native_scenario(f, n):
    w = big_text(f, n).hex()
    if f['stage'] == 'exec':
        return [{'op': 'ctx_new', 'ctx': 'c'}, {'op': 'execute', 'hex': w, 'ctx': 'c'}]
    return [{'op': 'parse', 'hex': w, 'want': ['expr', 'describe'] if f['stage'] in ('expr', 'describe') else []}]


def run(ctx, eng):
    b = BOUNDS[ctx.tier]
    params = {'U': b['U'], 'KS': b['KS'], 'alphabet': list(ALPHABET), 'seed': ctx.seed, 'timeout_ms': 10000, 'step_limit': 3000000}
    recs, summ = ex.explore(eng, harness, params, prepare=prepare)
    inconclusive = []
    for r in recs:
        if r['status'] in ('unsupported', 'inconclusive'):
            inconclusive.append('%s: %s %s' % (r['status'], r.get('detail'), r.get('where', '')))
    inconclusive = sorted(set(inconclusive))
    covers = set()
    for r in recs:
        covers.update(r.get('covers', []))
    for need in ('symbolic-unit', 'fixed-unit', 'deep-done'):
        if need not in covers:
            inconclusive.append('vacuity: cover point %s never reached (repetition families)' % need)
    groups = {}
    for r in recs:
        for f in r.get('findings', []):
            groups.setdefault(f['key'], []).append(f)
    findings = []
    validated = 0
    not_reproduced = []
    for key, fs in sorted(groups.items()):
        fs = sorted(fs, key=lambda f: (len(f.get('unit', f.get('witness', ''))), f.get('unit', f.get('witness', '')), f.get('tail', ''), f.get('closer', '')))
        best = None
        for f in fs[:2]:
            if f['kind'] == 'fault':
                sc = [{'op': 'parse', 'hex': f['witness'], 'want': ['expr', 'describe']}] if f['stage'] != 'exec' else \
                     [{'op': 'ctx_new', 'ctx': 'c'}, {'op': 'execute', 'hex': f['witness'], 'ctx': 'c'}]
                want = ('panic', 'crash', 'timeout', 'hang')
                tmo = 60
            elif f['kind'] == 'stack':
                sc = native_scenario(f, N_BIG)
                want = ('crash',)
                tmo = 120
            else:
                sc = native_scenario(f, N_TIME)
                want = ('timeout', 'hang')
                tmo = 20
            od = ctx.native(sc, 'dev', timeout=tmo)
            orl = ctx.native(sc, 'release', timeout=tmo)
            validated += 2
            kd, kr = native_kind(od), native_kind(orl)
            confirmed = kd in want or kr in want
            cand = {'key': key, 'desc': f['desc'], 'confirmed': confirmed, 'scenario': sc,
                    'expect': {'step': len(sc) - 1, 'kind': 'the process must survive and return'},
                    'witness_text': '%r repeated %d times + %r + %r repeated' % (bytes.fromhex(f['unit']).decode('utf-8', 'replace'), N_BIG if f['kind'] == 'stack' else N_TIME, f['tail'], f['closer'])
                    if f['kind'] != 'fault' else repr(bytes.fromhex(f['witness']).decode('utf-8', 'replace')),
                    'native': {'dev': {'kind': kd}, 'release': {'kind': kr}}, 'id': sid([key, f.get('unit', f.get('witness'))]), 'count': len(fs)}
            if best is None or (confirmed and not best['confirmed']):
                best = cand
            if confirmed:
                break
        if best['confirmed'] or fs[0]['kind'] == 'fault':
            findings.append(best)
        else:
            # recursion (or step growth) seen at small sizes that does not bring the real process down at scale: bounded further out
            not_reproduced.append({'key': key, 'desc': best['desc'][:200], 'native': best['native']})
    ev = {'paths': summ['paths'], 'decisions': summ['decisions'], 'unit_bytes_symbolic_max': b['U'], 'alphabet': ALPHABET.decode(),
          'fixed_units': FIXED_UNITS, 'tails': TAILS, 'closers': CLOSERS, 'repetitions_explored': list(b['KS']),
          'native_repetitions': {'stack': N_BIG, 'time': N_TIME}, 'growth_classes_seen': len(groups),
          'growth_not_reproduced_at_scale': not_reproduced, 'native_runs': validated,
          'solver': {'queries_sat': summ['sat'], 'queries_unsat': summ['unsat'], 'queries_unknown': summ['unknown'], 'solver_s': round(summ['solver_s'], 2)},
          'truncated': bool(summ.get('truncated'))}
    return findings, inconclusive, ev, summ


def native_kind(obs):
    o = obs[-1] if obs else {}
    return o.get('kind')
