"""C09 — number literals and decimal arithmetic are exact.

(L) literal text with symbolic bytes over `0-9 . e E` (one maximal number run) and the forms
    `<digits>e<sign><digits>`: parse + exec; the Value must be Number(mantissa, scale) with exactly the
    digits and the scale written (oracle computed in the harness from the input bytes, independently
    of the Decimal::from_str model), and every text that is not a decimal literal must be rejected.
(A) `L1 OP L2` and the compound-assignment forms, L1/L2 literal texts with symbolic digits and
    scales 0..2 (quick) / 0..4 (thorough), OP in + - * % < <= > >= == != : result compared (z3 validity)
    with the integer-arithmetic reference (harness/refeval.py); trailing-zero variants of the same
    number must compare equal.
If a path reaches a binary floating point conversion (Value::float, Decimal::to_f64/from_f64, parse::<f64>)
on the data path of a numeric operator, the encoder cannot follow it; the check then replays a
battery of decimal cases whose f64 images are inexact natively and reports the first wrong one.
"""
import json
import z3

from values import *
import api
import render
import explore as ex
from harness.common import *
from harness import refparse as rf
from harness import refeval as re_

ID = 'C09'
OPS = ['+', '-', '*', '%', '<', '<=', '>', '>=', '==', '!=']

FLOAT_BATTERY = [
    ('0.1 + 0.2', {'t': 'num', 'm': '3', 's': 1}), ('0.1 + 0.2 == 0.3', {'t': 'bool', 'v': True}), ('0.3 - 0.1 == 0.2', {'t': 'bool', 'v': True}),
    ('1.10', {'t': 'num', 'm': '110', 's': 2}), ('1.10 == 1.1', {'t': 'bool', 'v': True}), ('0.7 * 3', {'t': 'num', 'm': '21', 's': 1}),
    ('1.15 * 100', {'t': 'num', 'm': '11500', 's': 2}), ('4.35 * 100 == 435', {'t': 'bool', 'v': True}), ('2.675 * 1000 == 2675', {'t': 'bool', 'v': True}),
    ('0.30000000000000000001 > 0.3', {'t': 'bool', 'v': True}), ('0.30000000000000000001 == 0.3', {'t': 'bool', 'v': False}),
    ('9007199254740993 > 9007199254740992', {'t': 'bool', 'v': True}), ('9007199254740993 - 9007199254740992', {'t': 'num', 'm': '1', 's': 0}),
    ('1 >= 1.0000000000000000000000000001', {'t': 'bool', 'v': False}), ('1 < 1.0000000000000000000000000001', {'t': 'bool', 'v': True}),
    ('79228162514264337593543950335 - 1', {'t': 'num', 'm': '79228162514264337593543950334', 's': 0}),
    ('7922816251426433759354395033.5 + 0.5', {'t': 'num', 'm': '79228162514264337593543950340', 's': 1}),
    ('123456789012345678901234567.8 % 10', {'t': 'num', 'm': '78', 's': 1}), ('0.1 * 0.1', {'t': 'num', 'm': '1', 's': 2}),
    ('100000000000000000000000000.01 <= 100000000000000000000000000.01', {'t': 'bool', 'v': True}),
    ('100000000000000000000000000.01 < 100000000000000000000000000.02', {'t': 'bool', 'v': True}),
    ('x = 0.1 ; x += 0.2 ; x == 0.3', {'t': 'bool', 'v': True}), ('x = 1.1 ; x *= 1.1 ; x', {'t': 'num', 'm': '121', 's': 2}),
    ('0.1 + 0.7', {'t': 'num', 'm': '8', 's': 1}), ('3 * 0.1 == 0.3', {'t': 'bool', 'v': True}), ('1.005 * 1000', {'t': 'num', 'm': '1005000', 's': 3}),
]


WIDE_DIVISORS = ['3', '7', '6', '0.003', '0.7', '0.3']
WIDE_CMP = ['<', '<=', '>', '>=']
WIDE_CMP_WITH = ['8', '80', '9000']
# (operator, other operand, form): 0 `L % d`, 1 `x = L ; x %= d ; x`, 2 `L op r`, 3 `r op L`
WIDE_CASES = [('%', d, f) for d in WIDE_DIVISORS for f in (0, 1)] + [(o, r, f) for o in WIDE_CMP for r in WIDE_CMP_WITH for f in (2, 3)]


def prepare(it):
    it.call('init::init', [])


def digit(px, name):
    b = px.bv(name, 8)
    px.add(z3.And(z3.UGE(b, z3.BitVecVal(0x30, 8)), z3.ULE(b, z3.BitVecVal(0x39, 8))))
    return b


def literal(px, name, ni, nf):
    """a decimal literal text with ni integer digits and nf fraction digits (all symbolic) -> (bytes, mantissa term, scale)"""
    ds = [digit(px, '%s_i%d' % (name, i)) for i in range(ni)]
    fs = [digit(px, '%s_f%d' % (name, i)) for i in range(nf)]
    m = z3.IntVal(0)
    for d in ds + fs:
        m = m * 10 + z3.BV2Int(d - z3.BitVecVal(0x30, 8), False)
    bs = list(ds) + ([0x2E] + fs if nf else [])
    return bs, m, nf


def oracle_literal(it, bs):
    """decimal-literal grammar evaluated on (symbolic) bytes: -> ('num', mantissa, scale) | ('invalid',)"""
    m = 0
    scale = 0
    point = False
    has = False
    for b in bs:
        if isinstance(b, int):
            isd = 0x30 <= b <= 0x39
            isp = b == 0x2E
        else:
            isd = it.truth(z3.And(z3.UGE(b, z3.BitVecVal(0x30, 8)), z3.ULE(b, z3.BitVecVal(0x39, 8))))
            isp = (not isd) and it.truth(b == z3.BitVecVal(0x2E, 8))
        if isd:
            d = (b - 0x30) if isinstance(b, int) else z3.BV2Int(b - z3.BitVecVal(0x30, 8), False)
            m = m * 10 + d
            if point:
                scale += 1
            has = True
        elif isp and not point:
            point = True
        else:
            return ('invalid',)
    if not has:
        return ('invalid',)
    return ('num', m, scale)


def harness(it, px, params):
    fam = ['literal', 'exponent', 'arith', 'zeros', 'long', 'wide'][pick_config(px, 'fam', 6)]
    px.notes.append(fam)
    rec = {'family': fam}
    if fam == 'wide':
        # operands at the edge of the 28-digit / 96-bit range: a literal of W symbolic digits (optional '.' at a symbolic
        # place) under % and %= with a small concrete divisor; the exact remainder is linear in the digits
        W = params['WIDE'][pick_config(px, 'wlen', len(params['WIDE']))]
        wop, dv, form = WIDE_CASES[pick_config(px, 'wcase', len(WIDE_CASES))]
        bs = [px.bv('b%d' % i, 8) for i in range(W)]
        dot = px.bv('dotpos', 8)
        for i, b in enumerate(bs):
            isd = z3.And(z3.UGE(b, z3.BitVecVal(0x30, 8)), z3.ULE(b, z3.BitVecVal(0x39, 8)))
            px.add(z3.If(dot == i, b == 0x2E, isd) if 0 < i < W - 1 else isd)
        px.add(dot != 0)
        px.get_model()
        orc = oracle_literal(it, bs)
        if orc[0] != 'num' or orc[2] > 28 or not it.truth(re_.I(orc[1]) <= (1 << 96) - 1):
            rec['outcome'] = 'skipped'
            return rec
        if form == 0:
            text = Str(tuple(bs) + tuple(b' % ' + dv.encode()))
        elif form == 1:
            text = Str(tuple(b'x = ') + tuple(bs) + tuple(b' ; x %= ' + dv.encode() + b' ; x'))
        elif form == 2:
            text = Str(tuple(bs) + tuple((' %s ' % wop).encode() + dv.encode()))
        else:
            text = Str(tuple(dv.encode() + (' %s ' % wop).encode()) + tuple(bs))
        got = api.execute(it, text, api.new_context(it))
        ip, _, fp_ = dv.partition('.')
        a, c = api.V_num(orc[1], orc[2]), api.V_num(int(ip + fp_), len(fp_))
        want_kind, want = 'ok', None
        try:
            want = re_.RefEval(it.truth).infix_calc(wop, c, a) if form == 3 else re_.RefEval(it.truth).infix_calc(wop, a, c)
        except re_.RefErr:
            want_kind = 'err'
        except re_.Outside:
            want_kind = 'outside'
        px.cover('wide-remainder')
        mm = px.get_model()
        rec['witness'] = px.eval_bytes(mm, text.b).hex()
        rec['outcome'] = got.kind
        if want_kind == 'outside':
            return rec
        if got.kind != want_kind:
            px.finding(finding('arith|%s|wide|%s-vs-%s' % (wop, got.kind, want_kind), '`%s` on a %d-digit number gives %s where exact decimal arithmetic gives %s' % (wop, W, got.kind, want_kind), rec['witness']))
        elif got.kind == 'ok':
            okv, cm = px.check(re_.value_eq(got.value, want))
            if not okv:
                rec['witness'] = px.eval_bytes(cm, text.b).hex()
                px.finding(finding('arith|%s|wide|inexact' % wop, '`%s` on a %d-digit number differs from exact decimal arithmetic' % (wop, W), rec['witness']))
        return rec
    if fam == 'long':
        # long literals: every byte a symbolic digit, optionally one '.' at a symbolic place (64-bit and 96-bit boundaries)
        L = params['LONG'][pick_config(px, 'llen', len(params['LONG']))]
        bs = [px.bv('b%d' % i, 8) for i in range(L)]
        dot = px.bv('dotpos', 8)
        for i, b in enumerate(bs):
            isd = z3.And(z3.UGE(b, z3.BitVecVal(0x30, 8)), z3.ULE(b, z3.BitVecVal(0x39, 8)))
            px.add(z3.If(dot == i, b == 0x2E, isd) if 0 < i < L - 1 else isd)
        px.add(dot != 0)
        px.get_model()
        px.cover('long-literal')
        return literal_case(it, px, rec, bs)
    if fam == 'literal':
        L = 1 + pick_config(px, 'len', params['LIT'])
        bs = [px.bv('b%d' % i, 8) for i in range(L)]
        for i, b in enumerate(bs):
            alts = [z3.And(z3.UGE(b, z3.BitVecVal(0x30, 8)), z3.ULE(b, z3.BitVecVal(0x39, 8)))]
            if i > 0:
                alts += [b == 0x2E, b == 0x65, b == 0x45]
            px.add(z3.Or(alts))
        px.get_model()
        return literal_case(it, px, rec, bs)
    if fam == 'exponent':
        forms = [('d', 'e', '+', 'd'), ('d', 'E', '-', 'd'), ('d', '.', 'd', 'e', '+', 'd'), ('d', 'e', '+'), ('d', 'e', '-'), ('d', 'e', 'd'), ('d', 'd', 'E', 'd', 'd')]
        form = forms[pick_config(px, 'form', len(forms))]
        bs = []
        for i, c in enumerate(form):
            bs.append(digit(px, 'x%d' % i) if c == 'd' else ord(c))
        px.get_model()
        return literal_case(it, px, rec, bs, exponent=True)
    if fam == 'zeros':
        # the same number written with and without trailing zeros
        ni = 1 + pick_config(px, 'ni', 2)
        nf = pick_config(px, 'nf', 3)
        nz = 1 + pick_config(px, 'nz', 2)
        op = ['==', '!=', '<=', '>=', '<', '>'][pick_config(px, 'zop', 6)]
        bs, m, s = literal(px, 'a', ni, nf)
        bs2 = list(bs) + ([0x2E] if nf == 0 else []) + [0x30] * nz
        px.get_model()
        text = Str(tuple(bs) + tuple(b' ' + op.encode() + b' ') + tuple(bs2))
        ctx = api.new_context(it)
        got = api.execute(it, text, ctx)
        want = op in ('==', '<=', '>=')
        rec['op'] = op
        rec['outcome'] = got.kind
        mm = px.get_model()
        rec['witness'] = px.eval_bytes(mm, text.b).hex()
        px.cover('zeros')
        if got.kind != 'ok' or got.value.name != 'Bool':
            px.finding(finding('zeros', 'trailing-zero comparison does not evaluate: %s' % got.kind, rec['witness']))
        else:
            okv, cm = px.check(got.value.f[0] == want if is_sym(got.value.f[0]) else bool(got.value.f[0]) == want)
            if not okv:
                rec['witness'] = px.eval_bytes(cm, text.b).hex()
                px.finding(finding('zeros|' + op, 'numerically equal numbers with different trailing zeros compare wrongly under ' + op, rec['witness']))
        return rec
    # arithmetic through literals
    S = params['SCALES']
    op = OPS[pick_config(px, 'op', len(OPS))]
    form = pick_config(px, 'aform', 2)      # 0: L1 OP L2    1: x = L1 ; x OP= L2 ; x   (arithmetic ops only)
    n1, f1 = 1 + pick_config(px, 'n1', 2), S[pick_config(px, 'f1', len(S))]
    n2, f2 = 1 + pick_config(px, 'n2', 2), S[pick_config(px, 'f2', len(S))]
    b1, m1, s1 = literal(px, 'a', n1, f1)
    b2, m2, s2 = literal(px, 'c', n2, f2)
    px.get_model()
    if form == 1 and op in ('+', '-', '*', '%'):
        text = tuple(b'x = ') + tuple(b1) + tuple(b' ; x ' + op.encode() + b'= ') + tuple(b2) + tuple(b' ; x')
    else:
        text = tuple(b1) + tuple(b' ' + op.encode() + b' ') + tuple(b2)
    text = Str(text)
    ctx = api.new_context(it)
    got = api.execute(it, text, ctx)
    rec['op'] = op
    rec['outcome'] = got.kind
    a, c = api.V_num(m1, s1), api.V_num(m2, s2)
    ev = re_.RefEval(it.truth)
    want_kind, want = 'ok', None
    try:
        want = ev.infix_calc(op, a, c)
    except re_.RefErr as e:
        want_kind = 'err'
    except re_.Outside:
        want_kind = 'outside'
    px.cover('arith-' + op)
    mm = px.get_model()
    rec['witness'] = px.eval_bytes(mm, text.b).hex()
    if want_kind == 'outside':
        rec['value_unchecked'] = True
        return rec
    if got.kind != want_kind:
        if got.kind in ('ok', 'err'):
            px.finding(finding('arith|%s|%s-vs-%s' % (op, got.kind, want_kind), '`%s` gives %s where exact decimal arithmetic gives %s' % (op, got.kind, want_kind), rec['witness']))
        else:
            px.finding(finding('arith|%s|%s' % (op, got.kind), '%s: %s' % (got.kind, got.detail), rec['witness']))
    elif got.kind == 'ok':
        okv, cm = px.check(re_.value_eq(got.value, want))
        if not okv:
            rec['witness'] = px.eval_bytes(cm, text.b).hex()
            px.finding(finding('arith|%s|inexact' % op, 'the result of %s on two literals differs from exact decimal arithmetic' % op, rec['witness']))
        elif got.value.name == 'Number' and want.name == 'Number' and op in ('+', '-') and got.value.f[0].s != want.f[0].s:
            px.finding(finding('arith|%s|scale' % op, 'the scale of the result of %s is not max(scale_a, scale_b)' % op, rec['witness']))
    return rec


def finding(key, desc, wit):
    return {'key': 'C09|' + key, 'desc': desc, 'witness': wit}


def literal_case(it, px, rec, bs, exponent=False):
    text = Str(tuple(bs))
    ctx = api.new_context(it)
    got = api.execute(it, text, ctx)
    rec['outcome'] = got.kind
    orc = oracle_literal(it, bs)
    mm = px.get_model()
    rec['witness'] = px.eval_bytes(mm, bs).hex()
    px.cover('literal-valid' if orc[0] == 'num' else 'literal-invalid')
    if orc[0] == 'invalid':
        if got.kind != 'err':
            px.finding(finding('literal|accepted-invalid', 'a text that is not a decimal literal is not rejected (%s)' % got.kind, rec['witness']))
        return rec
    MAX96 = (1 << 96) - 1
    if orc[2] > 28:
        rec['value_unchecked'] = 'more than 28 fraction digits (rounded by rust_decimal)'
        return rec
    fits = (orc[1] <= MAX96) if not is_sym(orc[1]) else it.truth(re_.I(orc[1]) <= MAX96)
    if not fits:
        # not representable in 96 bits: an integer literal must be rejected; with a fraction part rust_decimal rounds (outside)
        if orc[2] == 0 and got.kind == 'ok':
            px.finding(finding('literal|accepted-unrepresentable', 'an integer literal above 2^96-1 evaluates to a value', rec['witness']))
        return rec
    if got.kind != 'ok' or got.value.name != 'Number':
        px.finding(finding('literal|rejected-valid', 'a valid decimal literal does not evaluate to a number (%s %s)' % (got.kind, got.detail or ''), rec['witness']))
        return rec
    d = got.value.f[0]
    if d.s != orc[2]:
        px.finding(finding('literal|scale', 'the literal evaluates with scale %d, written with %d fraction digits' % (d.s, orc[2]), rec['witness']))
        return rec
    eq = (re_.I(d.m) == re_.I(orc[1])) if (is_sym(d.m) or is_sym(orc[1])) else d.m == orc[1]
    okv, cm = px.check(eq)
    if not okv:
        rec['witness'] = px.eval_bytes(cm, bs).hex()
        px.finding(finding('literal|digits', 'the literal evaluates to a mantissa different from its digits', rec['witness']))
    return rec


def concrete_expect(text):
    """exact evaluation of a concrete program by the reference interpreter -> value json | 'err' | None (outside)"""
    import re
    toks = re.findall(r'[0-9][0-9.]*|[A-Za-z_]\w*|==|!=|<=|>=|[-+*%]=|[-+*%<>=;]', text)
    try:
        j = rf.ref_parse(toks, rf.BUILTIN_INFIX)
        v = re_.RefEval(lambda c: c if isinstance(c, bool) else z3.is_true(z3.simplify(c))).eval(j, re_.Env())
        from harness import opsem
        return render.value_json(v, opsem._EmptyModel())
    except re_.RefErr:
        return 'err'
    except (re_.Outside, rf.RefError):
        return None


def native_wrong(o, want):
    if want is None:
        return None
    if want == 'err':
        return o.get('kind') != 'err'
    if o.get('kind') != 'ok':
        return True
    return render.norm_num(o['value']) != render.norm_num(want) or (want.get('t') == 'num' and o['value'].get('t') == 'num' and False)


def run(ctx):
    params = {'LIT': 5 if ctx.tier == 'quick' else 7, 'SCALES': [0, 1, 2] if ctx.tier == 'quick' else [0, 1, 2, 3, 4],
              'LONG': (17, 18, 19, 20, 28, 29) if ctx.tier == 'quick' else tuple(range(8, 32)),
              'WIDE': (28, 29, 30) if ctx.tier == 'quick' else (20, 24, 26, 27, 28, 29, 30),
              'seed': ctx.seed, 'timeout_ms': 30000 if ctx.tier == 'quick' else 60000, 'step_limit': 400000}
    eng = ctx.engine('dev')
    recs, summ = ex.explore(eng, harness, params, prepare=prepare)
    inconclusive = []
    by_status = {}
    float_reached = []
    for r in recs:
        by_status[r['status']] = by_status.get(r['status'], 0) + 1
        if r['status'] == 'outside' and any(k in str(r.get('detail')) for k in ('to_f64', 'to_f32', 'from_f64', 'from_f32', 'float')):
            # a float conversion the encoder cannot follow symbolically lies on the data path of a numeric operator
            float_reached.append('%s %s' % (r.get('notes'), r.get('detail')))
        if r['status'] in ('unsupported', 'inconclusive'):
            d = str(r.get('detail'))
            if 'float' in d or 'f64' in d or 'f32' in d:
                float_reached.append('%s %s' % (r.get('notes'), d))
            else:
                inconclusive.append('%s: %s %s %s' % (r['status'], d, r.get('where', ''), r.get('notes')))
    inconclusive = sorted(set(inconclusive))[:20]
    covers = set()
    for r in recs:
        covers.update(r.get('covers', []))
    for need in ['literal-valid', 'literal-invalid', 'zeros', 'long-literal', 'wide-remainder'] + ['arith-' + o for o in OPS]:
        if need not in covers and not float_reached:
            inconclusive.append('vacuity: cover %s not reached' % need)
    groups = {}
    for r in recs:
        for f in r.get('findings', []):
            groups.setdefault(f['key'], []).append(f)
    findings = []
    validated = 0
    for key, fs in sorted(groups.items()):
        f = sorted(fs, key=lambda f: (len(f['witness']), f['witness']))[0]
        text = bytes.fromhex(f['witness']).decode('utf-8', 'replace')
        sc = [{'op': 'ctx_new', 'ctx': 'c'}, {'op': 'execute', 'hex': f['witness'], 'ctx': 'c'}]
        od = ctx.native(sc, 'dev')[-1]
        orl = ctx.native(sc, 'release')[-1]
        validated += 1
        want = concrete_expect(text)
        if 'literal' in key:
            orc = None
            try:
                import decimal
                valid = __import__('re').fullmatch(r'[0-9]+\.?[0-9]*', text) is not None
            except Exception:
                valid = False
            if valid:
                ip, _, fp = text.partition('.')
                want = {'t': 'num', 'm': str(int(ip + fp)), 's': len(fp)}
                confirmed = od.get('kind') != 'ok' or od['value'] != want
            else:
                want = 'err'
                confirmed = od.get('kind') != 'err'
        else:
            confirmed = bool(native_wrong(od, want)) or bool(native_wrong(orl, want))
        findings.append({'key': key, 'desc': f['desc'], 'confirmed': confirmed, 'scenario': sc, 'expect': {'value': want},
                         'witness_text': repr(text), 'native': {'dev': od, 'release': orl}, 'id': sid([key, f['witness']]), 'count': len(fs)})
    if float_reached:
        # the encoder cannot follow binary floating point: replay decimal cases whose f64 images are inexact
        steps = []
        for i, (prog, want) in enumerate(FLOAT_BATTERY):
            steps += [{'op': 'ctx_new', 'ctx': 'c%d' % i}, {'op': 'execute', 'hex': prog.encode().hex(), 'ctx': 'c%d' % i}]
        obs = ctx.native(steps, 'dev')
        wrong = []
        for i, (prog, want) in enumerate(FLOAT_BATTERY):
            o = obs[2 * i + 1]
            validated += 1
            if o.get('kind') != 'ok' or render.norm_num(o['value']) != render.norm_num(want):
                wrong.append((prog, want, o))
        if wrong:
            prog, want, o = wrong[0]
            sc = [{'op': 'ctx_new', 'ctx': 'c'}, {'op': 'execute', 'hex': prog.encode().hex(), 'ctx': 'c'}]
            findings.append({'key': 'C09|float-on-data-path|%s' % prog, 'desc': 'a binary floating point conversion lies on the data path of a numeric operator (%s) and `%s` is not exact' % (float_reached[0][:120], prog),
                             'confirmed': True, 'scenario': sc, 'expect': {'value': want}, 'witness_text': prog, 'native': {'dev': o},
                             'id': sid(['float', prog]), 'count': len(wrong)})
        else:
            inconclusive.append('a floating point conversion was reached (%s) but none of the %d inexact-image cases is wrong natively' % (float_reached[0][:150], len(FLOAT_BATTERY)))
    # sampled native validation
    done = [r for r in recs if r['status'] == 'done' and not r.get('findings') and r.get('witness')]
    sample = done[:: max(1, len(done) // (150 if ctx.tier == 'quick' else 600))]
    steps = []
    for i, r in enumerate(sample):
        steps += [{'op': 'ctx_new', 'ctx': 'c%d' % i}, {'op': 'execute', 'hex': r['witness'], 'ctx': 'c%d' % i}]
    if steps:
        obs = ctx.native(steps, 'dev', timeout=200)
        for i, r in enumerate(sample):
            o = obs[2 * i + 1]
            validated += 1
            if o.get('kind') != r['outcome']:
                inconclusive.append('encoder mismatch on sampled path %r: model %s native %s' % (bytes.fromhex(r['witness']).decode('utf-8', 'replace'), r['outcome'], o.get('kind')))
    samples = []
    seen = set()
    for r in recs:
        if r['status'] == 'done' and r.get('witness') and (r['family'], r.get('op')) not in seen:
            seen.add((r['family'], r.get('op')))
            samples.append({'family': r['family'], 'program': bytes.fromhex(r['witness']).decode('utf-8', 'replace'), 'outcome': r['outcome']})
    ev = {
        'coverage': {
            'states': max(1, summ['paths']), 'transitions': max(1, summ['decisions']),
            'traces_validated_against_impl': validated, 'samples': samples[:40], 'exhaustive': not summ.get('truncated') and not inconclusive,
            'bound': {'literal_bytes_max': params['LIT'], 'literal_alphabet': '0-9 . e E (+ exponent-sign forms)', 'arith_digits': '1-2 integer digits, scale from %s, all digits symbolic' % params['SCALES'],
                      'operators': OPS, 'compound_assignment_forms': ['+=', '-=', '*=', '%='],
                      'long_literal_lengths': list(params['LONG']), 'wide_operands': '%% , %%= and < <= > >= (either side) of a literal of %s symbolic digits (optional point) with each of %s' % (list(params['WIDE']), WIDE_DIVISORS + WIDE_CMP_WITH), 'long_literal_shape': 'every byte a symbolic digit, optionally one `.` at a symbolic place'},
            'path_status': by_status, 'outside_model': by_status.get('outside', 0),
            'solver': {'engine': 'z3 ' + z3.get_version_string(), 'queries_sat': summ['sat'], 'queries_unsat': summ['unsat'],
                       'queries_unknown': summ['unknown'], 'solver_s': round(summ['solver_s'], 2)},
            'mir_steps': summ['steps'], 'workers': summ['workers'],
            'functions_encoded': summ['bodies_used'], 'library_models_used': summ['models_used'], 'covers_hit': sorted(covers),
            'outside': ['literals longer than %d bytes (28-digit operands are covered for arithmetic by C03/C04 through symbolic 96-bit mantissas, not through literal text)' % params['LIT'],
                        '`/` (quotients are not compared for symbolic operands)', 'rust_decimal\'s own exactness when the result fits (dependency; trusted via the conformance corpus)'],
        },
        'assumptions': ['Decimal::from_str accepts exactly digits with at most one point (rust_decimal 1.31 for inputs shorter than 18 bytes)',
                        'oracle literal value is computed in the harness from the input bytes; arithmetic oracle = harness/refeval.py'],
    }
    return {'findings': findings, 'inconclusive': inconclusive, 'evidence': ev,
            'summary': 'paths=%d findings=%d float_reached=%d' % (summ['paths'], len(findings), len(float_reached))}
