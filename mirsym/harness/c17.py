"""C17 — value conversions preserve the value.

E2 (Kani, real rust_decimal, all 2^N inputs): Value::from(n) for i8..i128, u8..u128, bool, and
non-finite f32/f64.  E1 (MIR + z3): integer() over a symbolic 96-bit mantissa at every scale,
the accessor x variant matrix, and the From<&str>/String/bool/Decimal/Vec round-trips.
"""
import json
import z3

from values import *
import api
import render
import explore as ex
import kani_adapter
from harness.common import *
from harness import symval as sv

ID = 'C17'
MAX96 = (1 << 96) - 1
ACCESSORS = ['decimal', 'string', 'bool', 'integer', 'list']
MATCH = {'decimal': 'Number', 'string': 'String', 'bool': 'Bool', 'integer': 'Number', 'list': 'List'}


def harness(it, px, params):
    fam = ['integer', 'matrix', 'from', 'integer-twice'][pick_config(px, 'fam', 4)]
    px.notes.append(fam)
    rec = {'family': fam}
    if fam == 'integer-twice':
        # integer() is a function of the number alone: a call on another number just before must not influence it.
        # First call: the same digits at scale 0 (succeeds when in range); second call: those digits at scale s1.
        s1 = [1, 2, 5][pick_config(px, 'scale2', 3)]
        p = 10 ** s1
        m = px.int('m')
        px.add(z3.And(m >= -MAX96, m <= MAX96))
        px.get_model()
        # (the first number is concrete: two bv2int ties on related symbolic integers make z3 give up)
        # the first call succeeds (150, 7, -2000) or is rejected (1.5: not integral; 2^64-1: outside i64)
        first, fs = [(150, 0), (7, 0), (-2000, 0), (15, 1), ((1 << 64) - 1, 0)][pick_config(px, 'first', 5)]
        api.guarded(it, it.call, 'value::Value::integer', [api.V_num(first, fs)])
        o = api.as_result(api.guarded(it, it.call, 'value::Value::integer', [api.V_num(m, s1)]))
        want_ok = z3.And(m % p == 0, m / p >= -(1 << 63), m / p < (1 << 63))
        n = m / p
        rec['outcome'] = o.kind
        px.cover('integer-twice')
        bad = None
        if o.kind == 'ok':
            r = o.value
            R = z3.BV2Int(r, True) if is_sym(r) else z3.IntVal(r)
            ok, mod = px.check(z3.And(want_ok, R == n))
            if not ok:
                bad = ('C17|integer-after-integer|wrong-ok|scale%d' % s1, 'integer() of m/10^%d right after integer() of m returns Ok with a different value' % s1, mod)
        elif o.kind == 'err':
            ok, mod = px.check(z3.Not(want_ok))
            if not ok:
                bad = ('C17|integer-after-integer|rejects-integral|scale%d' % s1, 'integer() rejects an integral number right after another call', mod)
        else:
            bad = ('C17|integer-after-integer|%s' % o.kind, 'integer() %s: %s' % (o.kind, o.detail), px.get_model())
        mm = (bad[2] if bad else None) or px.get_model()
        rec['witness'] = {'m': str(mm.eval(m, model_completion=True).as_long()), 's': s1, 'first': str(first), 'first_s': fs}
        if bad:
            px.finding({'key': bad[0], 'desc': bad[1], 'kind': 'integer2', 'witness': rec['witness']})
        return rec
    if fam == 'integer':
        scales = params['scales']
        s = scales[pick_config(px, 'scale', len(scales))]
        m = px.int('m')
        px.add(z3.And(m >= -MAX96, m <= MAX96))
        px.get_model()
        v = api.V_num(m, s)
        o = api.as_result(api.guarded(it, it.call, 'value::Value::integer', [v]))
        rec['scale'] = s
        rec['outcome'] = o.kind
        p = 10 ** s
        integral = (m % p == 0)
        n = m / p
        inr = z3.And(n >= -(1 << 63), n < (1 << 63))
        want_ok = z3.And(integral, inr)
        bad = None
        if o.kind == 'ok':
            px.cover('integer-ok-scale%d' % s)
            r = o.value
            R = z3.BV2Int(r, True) if is_sym(r) else z3.IntVal(r)
            ok, mod = px.check(z3.And(want_ok, R == n))
            if not ok:
                bad = ('C17|integer|wrong-ok|scale%d' % s, 'integer() returns Ok with a different value, or for a number that is not an integer within i64', mod)
        elif o.kind == 'err':
            px.cover('integer-err')
            ok, mod = px.check(z3.Not(want_ok))
            if not ok:
                bad = ('C17|integer|rejects-integral|scale%d' % s, 'integer() rejects a number whose value is an integer within i64', mod)
        else:
            bad = ('C17|integer|%s|%s' % (o.kind, panic_class(o.detail)), 'integer() %s: %s' % (o.kind, o.detail), px.get_model())
        mm = (bad[2] if bad else None) or px.get_model()
        rec['witness'] = {'m': str(px.eval_int(mm, m) if False else mm.eval(m, model_completion=True).as_long()), 's': s}
        if bad:
            px.finding({'key': bad[0], 'desc': bad[1], 'kind': 'integer', 'witness': rec['witness']})
        return rec
    if fam == 'matrix':
        v = sv.sym_value(it, px, 'v', sv.DEFAULT_SPEC)
        acc = ACCESSORS[pick_config(px, 'acc', len(ACCESSORS))]
        px.get_model()
        o = api.as_result(api.guarded(it, it.call, 'value::Value::' + acc, [v]))
        rec['accessor'] = acc
        rec['variant'] = v.name
        rec['outcome'] = o.kind
        should_ok = v.name == MATCH[acc]
        bad = None
        if o.kind not in ('ok', 'err'):
            bad = ('C17|accessor|%s|%s' % (o.kind, acc), '%s() %s on a %s: %s' % (acc, o.kind, v.name, o.detail))
        elif acc == 'integer' and v.name == 'Number':
            pass     # decided by the integer family
        elif (o.kind == 'ok') != should_ok:
            bad = ('C17|accessor|%s-on-%s|%s' % (acc, v.name, o.kind), '%s() on a %s value gives %s' % (acc, v.name, o.kind))
        elif o.kind == 'ok':
            px.cover('accessor-ok-' + acc)
            payload = v.f[0]
            got = o.value
            from harness import refeval as re_
            if acc == 'decimal':
                eq = re_.num_eq(got, payload)
                if got.s != payload.s:
                    eq = False
            elif acc == 'string':
                eq = re_.bytes_eq(render.deref(got).b, render.deref(payload).b)
            elif acc == 'bool':
                eq = (got == payload) if (is_sym(got) or is_sym(payload)) else bool(got) == bool(payload)
            else:
                eq = re_.value_eq(api.V_list(got.items), v)
            ok, mod = px.check(eq)
            if not ok:
                bad = ('C17|accessor|payload-changed|' + acc, '%s() returns a payload different from the stored one' % acc)
        else:
            px.cover('accessor-err')
        m = px.get_model()
        rec['witness'] = sv.concrete(v, m)
        if bad:
            px.finding({'key': bad[0], 'desc': bad[1], 'kind': 'accessor', 'accessor': acc, 'witness': rec['witness']})
        return rec
    # From round trips
    kind = ['str', 'string', 'bool', 'decimal', 'list', 'f64-whole', 'f32-whole'][pick_config(px, 'from', 7)]
    rec['from'] = kind
    from harness import refeval as re_
    if kind in ('str', 'string'):
        sval = sv.sym_value(it, px, 's', {'kinds': ['str'], 'strshapes': [(), (1,), (2,), (1, 1), (3,)]})
        px.get_model()
        payload = sval.f[0]
        callee = '<value::Value as From<&str>>::from' if kind == 'str' else '<value::Value as From<std::string::String>>::from'
        o = api.guarded(it, it.call, callee, [payload])
        ok_shape = o.kind == 'ret' and o.value.name == 'String'
        eq = ok_shape and re_.bytes_eq(render.deref(o.value.f[0]).b, payload.b)
        src = sval
    elif kind == 'bool':
        b = px.bool('b')
        o = api.guarded(it, it.call, '<value::Value as From<bool>>::from', [b])
        ok_shape = o.kind == 'ret' and o.value.name == 'Bool'
        eq = ok_shape and (o.value.f[0] == b)
        src = api.V_bool(b)
    elif kind in ('f64-whole', 'f32-whole'):
        # every finite float without a fraction part below 2^96 denotes an integer: Value::from must denote exactly it
        fty = kind[:3]
        S = z3.Float64() if fty == 'f64' else z3.Float32()
        v = z3.FP('fv', S)
        px.add(z3.Not(z3.Or(z3.fpIsNaN(v), z3.fpIsInf(v))))
        px.add(z3.fpEQ(z3.fpRoundToIntegral(z3.RTZ(), v), v))
        px.add(z3.fpLT(z3.fpAbs(v), z3.FPVal(float(1 << 96), S)))
        px.get_model()
        exact = z3.BV2Int(z3.fpToSBV(z3.RTZ(), v, z3.BitVecSort(128)), True)
        o = api.guarded(it, it.call, '<value::Value as From<%s>>::from' % fty, [v])
        ok_shape = o.kind == 'ret' and o.value.name == 'Number' and o.value.f[0].s == 0
        eq = ok_shape and (re_.I(o.value.f[0].m) == exact)
        src = None
    elif kind == 'decimal':
        sc = params['scales'][pick_config(px, 'dscale', len(params['scales']))]
        m = px.int('m')
        px.add(z3.And(m >= -MAX96, m <= MAX96))
        px.get_model()
        d = Dec(m, sc)
        o = api.guarded(it, it.call, '<value::Value as From<rust_decimal::Decimal>>::from', [d])
        ok_shape = o.kind == 'ret' and o.value.name == 'Number' and o.value.f[0].s == sc
        eq = ok_shape and (o.value.f[0].m == m)
        src = api.V_num(m, sc)
    else:
        lst = sv.sym_value(it, px, 'l', {'kinds': ['list'], 'listlens': [0, 1, 2], 'elem': {'kinds': ['num', 'bool', 'str', 'none'], 'scales': [0, 1], 'strshapes': [(), (1,)]}})
        px.get_model()
        o = api.guarded(it, it.call, '<value::Value as From<Vec<value::Value>>>::from', [lst.f[0]])
        ok_shape = o.kind == 'ret' and o.value.name == 'List'
        eq = ok_shape and re_.value_eq(o.value, lst)
        src = lst
    rec['outcome'] = o.kind
    px.cover('from-' + kind)
    okv, mod = px.check(eq) if ok_shape else (False, px.get_model())
    if src is None:
        mm = mod or px.get_model()
        bits = mm.eval(z3.fpToIEEEBV(v), model_completion=True).as_long()
        import struct
        fval = struct.unpack('<d', struct.pack('<Q', bits))[0] if fty == 'f64' else struct.unpack('<f', struct.pack('<I', bits))[0]
        rec['witness'] = {'t': 'float', 'ty': fty, 'text': repr(fval), 'exact': str(int(fval))}
    else:
        rec['witness'] = sv.concrete(src, mod or px.get_model())
    if not okv:
        px.finding({'key': 'C17|from|%s|%s' % (kind, 'value-changed' if ok_shape else o.kind), 'desc': 'Value::from(%s) does not round-trip' % kind,
                    'kind': 'from', 'from': kind, 'witness': rec['witness']})
    return rec


def native_check(ctx, f):
    """-> (scenario, confirmed, observations)"""
    if f['kind'] == 'integer2':
        w = f['witness']
        sc = [{'op': 'accessor', 'which': 'integer', 'value': {'t': 'num', 'm': w['first'], 's': w.get('first_s', 0)}},
              {'op': 'accessor', 'which': 'integer', 'value': {'t': 'num', 'm': w['m'], 's': w['s']}}]
        od = ctx.native(sc, 'dev')[-1]
        m, s_ = int(w['m']), w['s']
        integral = m % (10 ** s_) == 0 and -(1 << 63) <= m // (10 ** s_) < (1 << 63)
        if od.get('kind') == 'ok':
            confirmed = (not integral) or int(od['value']) != m // (10 ** s_)
        elif od.get('kind') == 'err':
            confirmed = integral
        else:
            confirmed = True
        return sc, confirmed, od
    if f['kind'] == 'integer':
        w = f['witness']
        sc = [{'op': 'accessor', 'which': 'integer', 'value': {'t': 'num', 'm': w['m'], 's': w['s']}}]
        od = ctx.native(sc, 'dev')[-1]
        m, s = int(w['m']), w['s']
        integral = m % (10 ** s) == 0 and -(1 << 63) <= m // (10 ** s) < (1 << 63)
        if od.get('kind') == 'ok':
            confirmed = (not integral) or int(od['value']) != m // (10 ** s)
        elif od.get('kind') == 'err':
            confirmed = integral
        else:
            confirmed = True
        return sc, confirmed, od
    if f['kind'] == 'accessor':
        sc = [{'op': 'accessor', 'which': f['accessor'], 'value': f['witness']}]
        od = ctx.native(sc, 'dev')[-1]
        should_ok = f['witness']['t'] == {'decimal': 'num', 'string': 'str', 'bool': 'bool', 'integer': 'num', 'list': 'list'}[f['accessor']]
        confirmed = od.get('kind') not in ('ok', 'err') or (od.get('kind') == 'ok') != should_ok
        return sc, confirmed, od
    w = f['witness']
    if f['from'] in ('f64-whole', 'f32-whole'):
        sc = [{'op': 'value_from', 'ty': w['ty'], 'text': w['text']}]
        od = ctx.native(sc, 'dev')[-1]
        want = {'t': 'num', 'm': w['exact'], 's': 0}
        confirmed = od.get('kind') != 'ok' or render.norm_num(od.get('value')) != render.norm_num(want)
        return sc, confirmed, od
    ty = {'str': 'str', 'string': 'string', 'bool': 'bool', 'decimal': 'decimal', 'list': 'list'}[f['from']]
    step = {'op': 'value_from', 'ty': ty}
    if ty in ('str', 'string'):
        step['text'] = w['hex']
    elif ty == 'bool':
        step['text'] = 'true' if w['v'] else 'false'
    else:
        step['value'] = w
        step['text'] = ''
    sc = [step]
    od = ctx.native(sc, 'dev')[-1]
    confirmed = od.get('kind') != 'ok' or render.norm_num(od.get('value')) != render.norm_num(w)
    return sc, confirmed, od


KANI_TYPES = {'k2_from_i8': 'i8', 'k2_from_i16': 'i16', 'k2_from_i32': 'i32', 'k2_from_i64': 'i64', 'k2_from_i128': 'i128',
              'k2_from_u8': 'u8', 'k2_from_u16': 'u16', 'k2_from_u32': 'u32', 'k2_from_u64': 'u64', 'k2_from_u128': 'u128',
              'k2_from_bool': 'bool', 'k2_from_f32': 'f32', 'k2_from_f64': 'f64'}


def kani_findings(ctx, kres):
    out = []
    inconclusive = []
    validated = 0
    for h in kres['harnesses']:
        v = h['verdict']
        if v == 'SUCCESS':
            continue
        if v != 'FAILED':
            inconclusive.append('kani harness %s: %s' % (h['name'], v))
            continue
        ty = KANI_TYPES.get(h['name'])
        groups = h.get('cex_by_check') or [{'check': (h.get('failed_checks') or [{}])[0].get('desc', '?'), 'values': h.get('cex', {})}]
        for g in groups:
            desc = g['check']
            cls = 'negate-overflow' if 'negate' in desc else ('nonfinite-becomes-zero' if 'non-finite' in desc else ('value-differs' if 'denotes exactly' in desc else panic_class(desc)))
            vals = g.get('values') or {}
            text = vals.get('n') or vals.get('x') or vals.get('b')
            if ty is None or text is None:
                inconclusive.append('kani harness %s failed (%s) without a decodable counterexample' % (h['name'], desc))
                continue
            lit = {'nan': 'NaN', 'inf': 'inf', '-inf': '-inf'}.get(str(text), str(text))
            sc = [{'op': 'value_from', 'ty': ty, 'text': lit}]
            od = ctx.native(sc, 'dev')[-1]
            orl = ctx.native(sc, 'release')[-1]
            validated += 1

            def differs(o):
                if o.get('kind') != 'ok':
                    return True
                val = o.get('value', {})
                if ty in ('f32', 'f64'):
                    return val.get('t') == 'num' and int(val.get('m', '1')) == 0 and lit in ('NaN', 'inf', '-inf')
                try:
                    return not (val.get('t') == 'num' and int(val['m']) == int(lit) * (10 ** int(val['s'])))
                except Exception:
                    return True
            confirmed = differs(od) or differs(orl)
            out.append({'key': 'C17|kani|%s|%s' % (h['name'], cls), 'desc': 'Value::from(%s: %s): %s' % (lit, ty, desc), 'confirmed': confirmed,
                        'scenario': sc, 'expect': {'step': 0, 'value': 'the number given'}, 'witness_text': '%s as %s' % (lit, ty),
                        'native': {'dev': od, 'release': orl}, 'id': sid([h['name'], cls, lit]), 'count': 1})
    return out, inconclusive, validated


def run(ctx):
    scales = [0, 1, 2, 5, 28] if ctx.tier == 'quick' else list(range(0, 29))
    params = {'scales': scales, 'seed': ctx.seed, 'timeout_ms': 10000 if ctx.tier == 'quick' else 60000, 'step_limit': 200000}
    eng = ctx.engine('dev')
    recs, summ = ex.explore(eng, harness, params)
    kres = kani_adapter.run_group('C17', ctx.tier)
    inconclusive = []
    by_status = {}
    for r in recs:
        by_status[r['status']] = by_status.get(r['status'], 0) + 1
        if r['status'] in ('unsupported', 'inconclusive'):
            inconclusive.append('%s: %s %s %s' % (r['status'], r.get('detail'), r.get('where', ''), r.get('notes')))
    inconclusive = sorted(set(inconclusive))
    covers = set()
    for r in recs:
        covers.update(r.get('covers', []))
    for need in ['integer-ok-scale%d' % s for s in scales if s <= 18] + ['integer-err', 'accessor-err'] + ['accessor-ok-' + a for a in ACCESSORS if a != 'integer'] + ['from-' + k for k in ('str', 'string', 'bool', 'decimal', 'list', 'f64-whole', 'f32-whole')] + ['integer-twice']:
        if need not in covers:
            inconclusive.append('vacuity: cover %s not reached' % need)
    if not kres.get('ok'):
        inconclusive.append('kani runner failed: %s' % kres.get('detail', '')[-300:])
    groups = {}
    for r in recs:
        for f in r.get('findings', []):
            groups.setdefault(f['key'], []).append(f)
    findings = []
    validated = 0
    for key, fs in sorted(groups.items()):
        f = fs[0]
        sc, confirmed, od = native_check(ctx, f)
        validated += 1
        findings.append({'key': key, 'desc': f['desc'], 'confirmed': confirmed, 'scenario': sc, 'expect': {'step': 0},
                         'witness_text': json.dumps(f['witness'])[:300], 'native': {'dev': od}, 'id': sid([key, f['witness']]), 'count': len(fs)})
    kf, kinc, kval = kani_findings(ctx, kres) if kres.get('ok') else ([], [], 0)
    findings += kf
    inconclusive += kinc
    validated += kval
    # sampled native validation of the integer family
    ints = [r for r in recs if r['status'] == 'done' and r.get('family') == 'integer' and not r.get('findings')]
    steps = [{'op': 'accessor', 'which': 'integer', 'value': {'t': 'num', 'm': r['witness']['m'], 's': r['witness']['s']}} for r in ints[:200]]
    if steps:
        obs = ctx.native(steps, 'dev')
        for r, o in zip(ints[:200], obs):
            validated += 1
            if o.get('kind') != r['outcome']:
                inconclusive.append('encoder mismatch: integer() of %s model %s native %s' % (r['witness'], r['outcome'], o.get('kind')))
    samples = [{'family': r.get('family'), 'witness': r.get('witness'), 'outcome': r.get('outcome'), 'accessor': r.get('accessor'), 'from': r.get('from')}
               for r in recs if r['status'] == 'done'][:: max(1, len(recs) // 25)][:30]
    ev = {
        'coverage': {
            'states': max(1, summ['paths']), 'transitions': max(1, summ['decisions']),
            'traces_validated_against_impl': validated, 'samples': samples,
            'exhaustive': not inconclusive,
            'bound': {'integer_scales': scales, 'mantissa': 'symbolic, |m| <= 2^96-1', 'accessors': ACCESSORS, 'variants': 6,
                      'kani': 'all 2^N values of each integer type; non-finite f32/f64'},
            'path_status': by_status,
            'solver': {'engine': 'z3 ' + z3.get_version_string() + ' / CBMC via Kani', 'queries_sat': summ['sat'], 'queries_unsat': summ['unsat'],
                       'queries_unknown': summ['unknown'], 'solver_s': round(summ['solver_s'], 2)},
            'kani': kani_adapter.summarize(kres) if kres.get('ok') else {'error': kres.get('detail', '')[-500:]},
            'functions_encoded': summ['bodies_used'], 'library_models_used': summ['models_used'], 'covers_hit': sorted(covers),
            'outside': ['float() accessor and finite f32/f64 conversions (floating point is outside both engines: Kani does not terminate on rust_decimal from_f64, E1 has no float model)',
                        'strings longer than 3 bytes, lists longer than 2'],
        },
        'assumptions': ['E1: Decimal::normalize / to_string / str::parse::<i64> models (validated by conformance corpus and sampled native replays)',
                        'E2: nothing stubbed in the integer kernels (real rust_decimal code)'],
    }
    return {'findings': findings, 'inconclusive': inconclusive, 'evidence': ev,
            'summary': 'paths=%d kani=%s findings=%d' % (summ['paths'], kres.get('summary'), len(findings))}
