"""C03 — built-in operators and functions compute the documented values (see harness/opsem.py)."""
from harness import opsem

ID = 'C03'


def run(ctx):
    return opsem.run_mode(ctx, 'C03')
