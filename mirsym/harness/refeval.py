"""Reference interpreter = the language definition used as the oracle for C03/C04/C06/C07/C09.

Works on the expected-AST JSON of harness/refparse.py, over the same (possibly symbolic) value
objects the MIR interpreter uses (Enum('Value', ...) with Dec / z3 payloads), so results can be
compared by a z3 validity query under the path condition.  Decisions on symbolic conditions fork
through `truth` (the exploration context), exactly like branches in the interpreted MIR.

Semantics (README + properties C03/C04/C06/C07):
  numbers: exact decimal arithmetic on (mantissa, scale); a result that needs more than 96 bits
           at scale 0 is an error; a result that would need rounding is `Outside` (not defined here)
  / % by zero: error;  bit operators: both operands integral and within i64, two's complement;
  shift count outside 0..=63: error;  == / != structural on every value, numbers numerically
  && || ! not AND OR: booleans only;  beginWith/endWith: strings;  in: right operand a list
  assignment: `x = e` binds x, yields None; `x op= e` binds x to `x op e`; target must be a name
  call: context function first, then global function; unbound name reads as None
  evaluation: left to right, each subexpression once, conditional lazy, stop at first error
"""
import z3
from values import *
import api
from harness import refparse as rf

MAX96 = (1 << 96) - 1


class Outside(Exception):
    """the definition does not say what happens (rounding territory), or the oracle declines to
    compute the value; `kind` = 'ok' when the outcome class is nevertheless known"""

    def __init__(self, why='', kind=None):
        Exception.__init__(self, why)
        self.kind = kind


class RefErr(Exception):
    """evaluation yields Err"""

    def __init__(self, why=''):
        Exception.__init__(self, why)


def un(h):
    return bytes.fromhex(h).decode('utf-8')


def is_num(v):
    return v.name == 'Number'


def dec_of(v):
    return v.f[0]


def I(x):
    return x if is_sym(x) else z3.IntVal(x)


def align(a, b):
    s = max(a.s, b.s)
    return a.m * (10 ** (s - a.s)), b.m * (10 ** (s - b.s)), s


def num_eq(a, b):
    A, B, _ = align(a, b)
    if is_sym(A) or is_sym(B):
        return I(A) == I(B)
    return A == B


def vand(xs):
    out = []
    for x in xs:
        if x is False:
            return False
        if x is True:
            continue
        out.append(x)
    if not out:
        return True
    return z3.And(out) if len(out) > 1 else out[0]


def bytes_eq(a, b):
    if len(a) != len(b):
        return False
    cs = []
    for x, y in zip(a, b):
        if isinstance(x, int) and isinstance(y, int):
            if x != y:
                return False
        else:
            cs.append((x if is_sym(x) else z3.BitVecVal(x, 8)) == (y if is_sym(y) else z3.BitVecVal(y, 8)))
    return vand(cs)


def value_eq(a, b):
    """structural equality of two Values as Python bool / z3 Bool"""
    while isinstance(a, Ref):
        a = rd(a)
    while isinstance(b, Ref):
        b = rd(b)
    if a.name != b.name:
        return False
    n = a.name
    if n == 'Number':
        da, db = a.f[0], b.f[0]
        if da.src and db.src and da.src != 'negzero' and db.src != 'negzero' and da.src[0] == 'bv' and db.src[0] == 'bv' and da.s == 0 and db.s == 0:
            return da.src[1] == db.src[1]
        return num_eq(da, db)
    if n == 'Bool':
        x, y = a.f[0], b.f[0]
        if is_sym(x) or is_sym(y):
            return (x if is_sym(x) else z3.BoolVal(bool(x))) == (y if is_sym(y) else z3.BoolVal(bool(y)))
        return bool(x) == bool(y)
    if n == 'String':
        sa, sb = a.f[0], b.f[0]
        while isinstance(sa, Ref):
            sa = rd(sa)
        while isinstance(sb, Ref):
            sb = rd(sb)
        return bytes_eq(sa.b, sb.b)
    if n == 'List':
        xa, xb = a.f[0].items, b.f[0].items
        if len(xa) != len(xb):
            return False
        return vand([value_eq(x, y) for x, y in zip(xa, xb)])
    if n == 'Map':
        xa, xb = a.f[0].items, b.f[0].items
        if len(xa) != len(xb):
            return False
        return vand([vand([value_eq(p.f[0], q.f[0]), value_eq(p.f[1], q.f[1])]) for p, q in zip(xa, xb)])
    return True   # None


class Env:
    """evaluation context of the reference interpreter: name -> ('var', Value) | ('func', callable(args)->Value / raises RefErr)"""

    def __init__(self, bindings=None, globals_=None):
        self.b = dict(bindings or {})
        self.order = list(self.b)
        self.globals = dict(globals_ or {})    # name -> callable(args)
        self.log = []

    def set_var(self, name, v):
        if name not in self.b:
            self.order.append(name)
        self.b[name] = ('var', v)


class RefEval:
    def __init__(self, truth, infix=None, prefix_extra=None, postfix_extra=None, infix_handlers=None):
        self.truth = truth
        self.infix = infix or rf.BUILTIN_INFIX
        self.prefix_extra = prefix_extra or {}
        self.postfix_extra = postfix_extra or {}
        self.infix_handlers = infix_handlers or {}     # registered (non built-in) infix op -> callable(a, b)

    # ------------------------------------------------------------------ numbers
    def fits(self, m):
        if not is_sym(m):
            return -MAX96 <= m <= MAX96
        import models
        b = models.int_bounds(m)
        if b is not None and -MAX96 <= b[0] and b[1] <= MAX96:
            return True
        return self.truth(z3.And(m >= -MAX96, m <= MAX96))

    def is_zero(self, m):
        if not is_sym(m):
            return m == 0
        return self.truth(m == 0)

    def arith(self, op, a, b):
        if not (is_num(a) and is_num(b)):
            raise RefErr('arith on non-number')
        da, db = dec_of(a), dec_of(b)
        if op in ('+', '-'):
            A, B, s = align(da, db)
            r = A + B if op == '+' else A - B
            if self.fits(r):
                return api.V_num(r, s)
            if s == 0:
                raise RefErr('overflow')
            if da.s == db.s:
                # definition: operands on one scale whose exact sum needs 97 bits -> nearest value with one digit less,
                # ties to even (what rust_decimal's checked_add / checked_sub return; never an overflow at scale > 0)
                import models
                return api.V_num(models.round_sum_half_even(r, self.truth), s - 1)
            raise Outside('sum of operands on different scales needs rescaling')
        if op == '*':
            if self.is_zero(da.m) or self.is_zero(db.m):
                return api.V_num(0, 0)
            r = da.m * db.m
            s = da.s + db.s
            if s <= 28 and self.fits(r):
                return api.V_num(r, s)
            if s == 0:
                raise RefErr('overflow')
            raise Outside('product needs rounding')
        if op == '/':
            if self.is_zero(db.m):
                raise RefErr('divide by zero')
            if is_sym(da.m) or is_sym(db.m):
                raise Outside('symbolic quotient')
            from fractions import Fraction
            if da.m == 0:
                return api.V_num(0, 0)
            q = Fraction(da.m * 10 ** db.s, db.m * 10 ** da.s)
            for s in range(29):
                v = q * 10 ** s
                if v.denominator == 1 and abs(v.numerator) <= MAX96:
                    return api.V_num(v.numerator, s)
            raise Outside('inexact quotient')
        if op == '%':
            if self.is_zero(db.m):
                raise RefErr('divide by zero')
            A, B, s = align(da, db)
            if not is_sym(A) and not is_sym(B):
                r = abs(A) % abs(B)
                return api.V_num(r if A >= 0 else -r, s)
            A, B = I(A), I(B)
            aA = z3.If(A >= 0, A, -A)
            aB = z3.If(B >= 0, B, -B)
            r = aA % aB
            return api.V_num(z3.If(A >= 0, r, -r), s)
        raise RefErr('unknown arithmetic op')

    def compare(self, op, a, b):
        if not (is_num(a) and is_num(b)):
            raise RefErr('comparison of non-numbers')
        A, B, _ = align(dec_of(a), dec_of(b))
        if not is_sym(A) and not is_sym(B):
            return api.V_bool({'<': A < B, '<=': A <= B, '>': A > B, '>=': A >= B}[op])
        A, B = I(A), I(B)
        return api.V_bool({'<': A < B, '<=': A <= B, '>': A > B, '>=': A >= B}[op])

    def to_i64(self, v):
        """Number -> 64-bit two's complement term, or RefErr when not an integer within i64"""
        if not is_num(v):
            raise RefErr('not a number')
        d = dec_of(v)
        if d.src and d.src != 'negzero' and d.src[0] == 'bv' and d.s == 0:
            v = d.src[1]
            w = v.size()
            if w == 64:
                return v
            if w > 64 and d.src[2]:
                # a wider bit-vector sourced integer: in range iff it sign-extends from its low 64 bits
                lo = z3.Extract(63, 0, v)
                if not self.truth(z3.SignExt(w - 64, lo) == v):
                    raise RefErr('out of i64 range')
                return z3.simplify(lo)
        m, s = d.m, d.s
        if not is_sym(m):
            if m % (10 ** s) != 0:
                raise RefErr('not integral')
            n = m // (10 ** s)
            if not (-(1 << 63) <= n < (1 << 63)):
                raise RefErr('out of i64 range')
            return n
        p = 10 ** s
        if s and not self.truth(m % p == 0):
            raise RefErr('not integral')
        n = m / p if s else m
        if not self.truth(z3.And(n >= -(1 << 63), n < (1 << 63))):
            raise RefErr('out of i64 range')
        return ('int', n)

    def bitop(self, op, a, b):
        x, y = self.to_i64(a), self.to_i64(b)
        if op in ('<<', '>>'):
            if isinstance(y, tuple):
                ok = self.truth(z3.And(y[1] >= 0, y[1] <= 63))
            elif is_sym(y):
                ok = self.truth(z3.And(y >= 0, y <= 63))
            else:
                ok = 0 <= y <= 63
            if not ok:
                raise RefErr('shift count out of range')
        if isinstance(x, tuple) or isinstance(y, tuple):
            # integer taken from a symbolic Int mantissa: the Ok/Err classification above is exact,
            # the bit pattern is not compared (int2bv makes z3 answer unknown)
            raise Outside('bit pattern of an Int-sourced operand', kind='ok')
        X = x if is_sym(x) else z3.BitVecVal(x, 64)
        Y = y if is_sym(y) else z3.BitVecVal(y, 64)
        if op in ('<<', '>>'):
            r = (X << Y) if op == '<<' else (X >> Y)
        elif op == '|':
            r = X | Y
        elif op == '^':
            r = X ^ Y
        else:
            r = X & Y
        r = z3.simplify(r)
        if z3.is_bv_value(r):
            return api.V_num(r.as_signed_long(), 0)
        return Enum('Value', 1, 'Number', (Dec(z3.BV2Int(r, True), 0, ('bv', r, True)),))

    def as_bool(self, v):
        if v.name != 'Bool':
            raise RefErr('not a bool')
        return v.f[0]

    def as_str(self, v):
        if v.name != 'String':
            raise RefErr('not a string')
        s = v.f[0]
        while isinstance(s, Ref):
            s = rd(s)
        return s.b

    # ------------------------------------------------------------------ operators
    def infix_calc(self, op, a, b):
        if op in ('+', '-', '*', '/', '%'):
            return self.arith(op, a, b)
        if op in ('<', '<=', '>', '>='):
            return self.compare(op, a, b)
        if op == '==':
            return api.V_bool(value_eq(a, b))
        if op == '!=':
            e = value_eq(a, b)
            return api.V_bool((not e) if isinstance(e, bool) else z3.Not(e))
        if op in ('&&', '||'):
            x, y = self.as_bool(a), self.as_bool(b)
            if isinstance(x, bool) and isinstance(y, bool):
                return api.V_bool((x and y) if op == '&&' else (x or y))
            X = x if is_sym(x) else z3.BoolVal(bool(x))
            Y = y if is_sym(y) else z3.BoolVal(bool(y))
            return api.V_bool(z3.And(X, Y) if op == '&&' else z3.Or(X, Y))
        if op in ('|', '^', '&', '<<', '>>'):
            return self.bitop(op, a, b)
        if op in ('beginWith', 'endWith'):
            x, y = self.as_str(a), self.as_str(b)
            if len(y) > len(x):
                return api.V_bool(False)
            part = x[:len(y)] if op == 'beginWith' else x[len(x) - len(y):]
            return api.V_bool(bytes_eq(part, y))
        if op == 'in':
            if b.name != 'List':
                raise RefErr('right operand of `in` is not a list')
            hits = [value_eq(item, a) for item in b.f[0].items]
            if any(h is True for h in hits):
                return api.V_bool(True)
            hs = [h for h in hits if h is not False]
            if not hs:
                return api.V_bool(False)
            return api.V_bool(z3.Or(hs) if len(hs) > 1 else hs[0])
        h = self.infix_handlers.get(op)
        if h is not None:
            return h(a, b)
        raise RefErr('operator %s not registered' % op)

    def prefix(self, op, a):
        if op in self.prefix_extra:
            return self.prefix_extra[op](a)
        if op == '-':
            if not is_num(a):
                raise RefErr()
            d = dec_of(a)
            return api.V_num(-d.m, d.s)
        if op == '+':
            if not is_num(a):
                raise RefErr()
            return a
        if op in ('!', 'not'):
            x = self.as_bool(a)
            return api.V_bool((not x) if isinstance(x, bool) else z3.Not(x))
        if op in ('AND', 'OR'):
            if a.name != 'List':
                raise RefErr()
            for item in a.f[0].items:
                x = self.as_bool(item)
                t = self.truth(x) if is_sym(x) else bool(x)
                if op == 'AND' and not t:
                    return api.V_bool(False)
                if op == 'OR' and t:
                    return api.V_bool(True)
            return api.V_bool(op == 'AND')
        raise RefErr('prefix operator %s not registered' % op)

    def postfix(self, op, a):
        if op in self.postfix_extra:
            return self.postfix_extra[op](a)
        if op in ('++', '--'):
            if not is_num(a):
                raise RefErr()
            return self.arith('+' if op == '++' else '-', a, api.V_num(1, 0))
        raise RefErr('postfix operator %s not registered' % op)

    def builtin_fn(self, name, args):
        if name in ('min', 'max'):
            best = None
            for a in args:
                if not is_num(a):
                    raise RefErr()
                if best is None:
                    best = a
                else:
                    A, B, _ = align(dec_of(a), dec_of(best))
                    c = (A < B) if name == 'min' else (A > B)
                    if is_sym(c):
                        c = self.truth(I(A) < I(B) if name == 'min' else I(A) > I(B))
                    if c:
                        best = a
            if best is None:
                raise RefErr('no arguments')
            return best
        if name in ('sum', 'mul'):
            acc = api.V_num(0, 0) if name == 'sum' else api.V_num(1, 0)
            for a in args:
                acc = self.arith('+' if name == 'sum' else '*', acc, a)
            return acc
        raise RefErr('function %s not registered' % name)

    # ------------------------------------------------------------------ evaluation
    def eval(self, j, env):
        k = j['k']
        if k == 'num':
            return api.V_num(int(j['m']), j['s'])
        if k == 'bool':
            return api.V_bool(j['v'])
        if k == 'str':
            return api.V_str(Str(tuple(bytes.fromhex(j['hex']))))
        if k == 'ref':
            name = un(j['name'])
            b = env.b.get(name)
            if b is None:
                return api.V_NONE
            if b[0] == 'var':
                return b[1]
            env.log.append(name)
            return b[1]([])
        if k == 'call':
            name = un(j['name'])
            args = [self.eval(a, env) for a in j['args']]
            b = env.b.get(name)
            if b is not None and b[0] == 'func':
                env.log.append(name)
                return b[1](args)
            g = env.globals.get(name)
            if g is not None:
                env.log.append(name)
                return g(args)
            return self.builtin_fn(name, args)
        if k == 'unary':
            op = un(j['op'])
            if op not in rf.BUILTIN_PREFIX and op not in self.prefix_extra:
                raise RefErr('prefix operator not registered')
            return self.prefix(op, self.eval(j['a'], env))
        if k == 'postfix':
            op = un(j['op'])
            if op not in rf.BUILTIN_POSTFIX and op not in self.postfix_extra:
                raise RefErr('postfix operator not registered')
            return self.postfix(op, self.eval(j['a'], env))
        if k == 'binary':
            op = un(j['op'])
            if op not in self.infix:
                raise RefErr('infix operator not registered')
            kind = self.infix[op][2]
            a = self.eval(j['l'], env)
            b = self.eval(j['r'], env)
            if kind == 'CALC':
                return self.infix_calc(op, a, b)
            if j['l']['k'] != 'ref':
                raise RefErr('assignment target is not a name')
            if op == '=':
                v = b
            elif op in self.infix_handlers:
                v = self.infix_handlers[op](a, b)        # registered assignment-type operator: binds what its handler returns
            else:
                v = self.infix_calc(op[:-1], a, b)
            env.set_var(un(j['l']['name']), v)
            return api.V_NONE
        if k == 'ternary':
            c = self.eval(j['c'], env)
            if c.name != 'Bool':
                raise RefErr('condition is not a bool')
            x = c.f[0]
            t = self.truth(x) if is_sym(x) else bool(x)
            return self.eval(j['a'] if t else j['b'], env)
        if k == 'list':
            return api.V_list([self.eval(x, env) for x in j['items']])
        if k == 'map':
            out = []
            for kk, vv in j['items']:
                a = self.eval(kk, env)
                b = self.eval(vv, env)
                out.append((a, b))
            return api.V_map(out)
        if k == 'stmt':
            ans = api.V_NONE
            for x in j['items']:
                ans = self.eval(x, env)
            return ans
        if k == 'none':
            return api.V_NONE
        raise ValueError(k)
