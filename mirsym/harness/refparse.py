"""Reference parser for the documented expression grammar (README + property C02), used as the
oracle for grouping.  It works on a token list (the harness knows the tokens because it generated
the text) and an operator table whose precedences may be *symbolic*: every comparison goes through
`cmp`, which forks through the exploration context, so one run covers a whole class of tables.

Documented rules implemented here:
  * higher precedence binds first; equal precedence: LEFT groups left, RIGHT groups right
  * `x not OP y` = not(x OP y), OP keeps its precedence
  * prefix operators bind tighter than every infix operator; a postfix operator tighter than a prefix
  * `c ? a : b` binds looser than every infix operator and nests to the right
  * parentheses override; calls, lists, maps contain full expressions
"""
from harness.common import *

# documented built-in table (README "BinaryExpression" + operator.rs associativities)
BUILTIN_INFIX = {}
for _op in ('=', '+=', '-=', '*=', '/=', '%=', '<<=', '>>=', '&=', '^=', '|='):
    BUILTIN_INFIX[_op] = (20, 'RIGHT', 'SETTER')
BUILTIN_INFIX['||'] = (40, 'LEFT', 'CALC')
BUILTIN_INFIX['&&'] = (50, 'LEFT', 'CALC')
for _op in ('<', '<=', '>', '>=', '==', '!='):
    BUILTIN_INFIX[_op] = (60, 'LEFT', 'CALC')
BUILTIN_INFIX['|'] = (70, 'LEFT', 'CALC')
BUILTIN_INFIX['^'] = (80, 'LEFT', 'CALC')
BUILTIN_INFIX['&'] = (90, 'LEFT', 'CALC')
BUILTIN_INFIX['<<'] = (100, 'LEFT', 'CALC')
BUILTIN_INFIX['>>'] = (100, 'LEFT', 'CALC')
BUILTIN_INFIX['+'] = (110, 'LEFT', 'CALC')
BUILTIN_INFIX['-'] = (110, 'LEFT', 'CALC')
BUILTIN_INFIX['*'] = (120, 'LEFT', 'CALC')
BUILTIN_INFIX['/'] = (120, 'LEFT', 'CALC')
BUILTIN_INFIX['%'] = (120, 'LEFT', 'CALC')
BUILTIN_INFIX['beginWith'] = (200, 'LEFT', 'CALC')
BUILTIN_INFIX['endWith'] = (200, 'LEFT', 'CALC')
BUILTIN_INFIX['in'] = (200, 'LEFT', 'CALC')
BUILTIN_PREFIX = ('-', '+', '!', 'not', 'AND', 'OR')
BUILTIN_POSTFIX = ('++', '--')


class RefError(Exception):
    pass


def hx(s):
    return s.encode('utf-8').hex()


DELIMS = ('(', ')', '[', ']', '{', '}')


def classify(tok, ops):
    """harness-written token text -> (kind, text); kind in name|num|str|bool|op|delim|,|;"""
    if isinstance(tok, tuple):
        return tok
    if tok in DELIMS:
        return ('delim', tok)
    if tok == ',':
        return (',', tok)
    if tok == ';':
        return (';', tok)
    if tok in ops or tok in ('?', ':'):
        return ('op', tok)
    if tok in ('true', 'True', 'false', 'False'):
        return ('bool', tok)
    if tok[0].isdigit():
        return ('num', tok)
    if tok[0] in '"\'':
        return ('str', tok[1:-1])
    if tok[0].isalpha() or tok[0] in '_.':
        return ('name', tok)
    return ('op', tok)


class RefParser:
    def __init__(self, tokens, infix, prefix=BUILTIN_PREFIX, postfix=BUILTIN_POSTFIX, gt=None, ge=None, any_prefix=False):
        """tokens: strings (classified here) or (kind, text) pairs.  infix: name -> (prec, assoc, ..).
        gt(a,b)/ge(a,b): decide comparisons of precedences (default: concrete ints).
        any_prefix: accept every operator token in operand position as a prefix operator (the set of
        registered prefix operators is open; used by the C05 recogniser)."""
        ops = set(infix) | set(prefix) | set(postfix) | {'not'}
        self.t = [classify(t, ops) for t in tokens]
        self.i = 0
        self.infix = infix
        self.prefix = set(prefix)
        self.postfix = set(postfix)
        self.any_prefix = any_prefix
        self.spans = False      # when True every node carries '_r': (first token index, one past last)
        self.gt = gt or (lambda a, b: a > b)
        self.ge = ge or (lambda a, b: a >= b)

    def peek(self, k=0):
        j = self.i + k
        return self.t[j] if j < len(self.t) else None

    def is_op(self, tok, text=None):
        return tok is not None and tok[0] == 'op' and (text is None or tok[1] == text)

    def is_delim(self, tok, text):
        return tok is not None and tok[0] == 'delim' and tok[1] == text

    def next(self):
        tok = self.peek()
        self.i += 1
        return tok

    def expect_op(self, s):
        if not self.is_op(self.peek(), s):
            raise RefError('expected %r at %d, got %r' % (s, self.i, self.peek()))
        self.i += 1

    def expect_delim(self, s):
        if not self.is_delim(self.peek(), s):
            raise RefError('expected %r at %d, got %r' % (s, self.i, self.peek()))
        self.i += 1

    def program(self):
        items = []
        while self.peek() is not None:
            items.append(self.expr())
            if self.peek() is not None and self.peek()[0] == ';':
                self.next()
        if len(items) == 1:
            return items[0]
        return {'k': 'stmt', 'items': items}

    def _sp(self, node, i0):
        if self.spans:
            node['_r'] = (i0, self.i)
        return node

    def expr(self):
        i0 = self.i
        lhs = self.chain(None, False)
        if self.is_op(self.peek(), '?'):
            self.next()
            a = self.expr()
            self.expect_op(':')
            b = self.expr()
            return self._sp({'k': 'ternary', 'c': lhs, 'a': a, 'b': b}, i0)
        return lhs

    def chain(self, min_p, strict):
        """operands joined by infix operators whose precedence is > min_p (strict) or >= min_p"""
        i0 = self.i
        lhs = self.operand()
        while True:
            tok = self.peek()
            if not self.is_op(tok):
                break
            neg = False
            op = tok[1]
            if op == 'not':
                nxt = self.peek(1)
                neg = True
                if not self.is_op(nxt) or nxt[1] not in self.infix:
                    raise RefError('`not` must be followed by an infix operator')
                op = nxt[1]
            if op not in self.infix:
                break
            p, assoc = self.infix[op][0], self.infix[op][1]
            if min_p is not None:
                ok = self.gt(p, min_p) if strict else self.ge(p, min_p)
                if not ok:
                    break
            if neg:
                self.next()
            self.next()
            rhs = self.chain(p, assoc == 'LEFT')
            lhs = {'k': 'binary', 'op': hx(op), 'l': lhs, 'r': rhs}
            if neg:
                lhs = {'k': 'unary', 'op': hx('not'), 'a': lhs, '_notform': True} if self.spans else {'k': 'unary', 'op': hx('not'), 'a': lhs}
            self._sp(lhs, i0)
        return lhs

    def operand(self):
        tok = self.peek()
        i0 = self.i
        if self.is_op(tok) and (tok[1] in self.prefix or self.any_prefix):
            self.next()
            # the operand of a prefix operator is a primary, which may itself start with a prefix operator
            return self._sp({'k': 'unary', 'op': hx(tok[1]), 'a': self.operand()}, i0)
        return self.primary()

    def primary(self):
        i0 = self.i
        a = self.atom()
        tok = self.peek()
        if self.is_op(tok) and tok[1] in self.postfix:
            self.next()
            return self._sp({'k': 'postfix', 'op': hx(tok[1]), 'a': a}, i0)
        return a

    def seq(self, close, item):
        items = []
        while not self.is_delim(self.peek(), close):
            if self.peek() is None:
                raise RefError('missing ' + close)
            items.append(item())
            if self.peek() is not None and self.peek()[0] == ',':
                self.next()
            elif not self.is_delim(self.peek(), close):
                raise RefError('expected , or ' + close)
        self.expect_delim(close)
        return items

    def atom(self):
        i0 = self.i
        r = self._atom()
        if self.spans and '_r' not in r:
            r['_r'] = (i0, self.i)
        return r

    def _atom(self):
        tok = self.next()
        if tok is None:
            raise RefError('unexpected end')
        kind, text = tok
        if kind == 'delim':
            if text == '(':
                e = self.expr()
                self.expect_delim(')')
                return e
            if text == '[':
                return {'k': 'list', 'items': self.seq(']', self.expr)}
            if text == '{':
                def entry():
                    k = self.expr()
                    self.expect_op(':')
                    v = self.expr()
                    return [k, v]
                return {'k': 'map', 'items': self.seq('}', entry)}
            raise RefError('unexpected closing delimiter ' + text)
        if kind == 'bool':
            return {'k': 'bool', 'v': text in ('true', 'True')}
        if kind == 'num':
            if '.' in text:
                ip, fp = text.split('.')
                return {'k': 'num', 'm': str(int((ip or '0') + fp)), 's': len(fp)}
            return {'k': 'num', 'm': str(int(text)), 's': 0}
        if kind == 'str':
            return {'k': 'str', 'hex': hx(text)}
        if kind == 'name':
            if self.is_delim(self.peek(), '('):
                self.next()
                return {'k': 'call', 'name': hx(text), 'args': self.seq(')', self.expr)}
            return {'k': 'ref', 'name': hx(text)}
        raise RefError('unexpected token %r' % (tok,))


def strip_spans(j):
    if isinstance(j, dict):
        return {k: strip_spans(v) for k, v in j.items() if k not in ('_r', '_notform')}
    if isinstance(j, list):
        return [strip_spans(x) for x in j]
    return j


def ref_parse(tokens, infix, gt=None, ge=None, prefix=BUILTIN_PREFIX, postfix=BUILTIN_POSTFIX, any_prefix=False, spans=False):
    p = RefParser(tokens, infix, prefix, postfix, gt, ge, any_prefix)
    p.spans = spans
    r = p.program()
    if p.peek() is not None:
        raise RefError('trailing tokens')
    return r


def paren_text(j):
    """fully parenthesised source text of an expected-AST JSON (used by C12)"""
    def un(h):
        return bytes.fromhex(h).decode('utf-8')
    k = j['k']
    if k == 'num':
        m, s = int(j['m']), j['s']
        t = str(abs(m))
        if s:
            t = t.rjust(s + 1, '0')
            t = t[:-s] + '.' + t[-s:]
        return ('-' if m < 0 else '') + t
    if k == 'bool':
        return 'true' if j['v'] else 'false'
    if k == 'str':
        return '"%s"' % un(j['hex'])
    if k == 'ref':
        return un(j['name'])
    if k == 'unary':
        if un(j['op']) == 'not' and j['a']['k'] == 'binary':
            b = j['a']
            return '(%s not %s %s)' % (paren_text(b['l']), un(b['op']), paren_text(b['r']))
        return '(%s %s)' % (un(j['op']), paren_text(j['a']))
    if k == 'binary':
        return '(%s %s %s)' % (paren_text(j['l']), un(j['op']), paren_text(j['r']))
    if k == 'postfix':
        return '(%s %s)' % (paren_text(j['a']), un(j['op']))
    if k == 'ternary':
        return '(%s ? %s : %s)' % (paren_text(j['c']), paren_text(j['a']), paren_text(j['b']))
    if k == 'call':
        return '%s(%s)' % (un(j['name']), ','.join(paren_text(x) for x in j['args']))
    if k == 'list':
        return '[%s]' % ','.join(paren_text(x) for x in j['items'])
    if k == 'map':
        return '{%s}' % ','.join('%s:%s' % (paren_text(a), paren_text(b)) for a, b in j['items'])
    if k == 'stmt':
        return ';'.join(paren_text(x) for x in j['items'])
    if k == 'none':
        return ''
    raise ValueError(k)
