"""Value model of the MIR symbolic executor.

All values are immutable; memory is a set of Cells (frame locals, statics, Arc/Box heap cells)
each holding one value tree.  A pointer is Ref(cell, path).  "Mutation" is a functional update
of the tree stored in a cell.  Scalars are Python ints/bools when concrete and z3 terms
(BitVecRef of the MIR type's width / BoolRef) when symbolic.
"""
import z3


class Cell:
    __slots__ = ('v', 'name')

    def __init__(self, v=None, name=None):
        self.v = v
        self.name = name

    def __repr__(self):
        return 'Cell(%s)' % (self.name or hex(id(self) & 0xffff))


class _Uninit:
    def __repr__(self):
        return 'UNINIT'


UNINIT = _Uninit()


class Ref:
    """pointer to a place: &T, &mut T, *const T, Box<T> (owning)"""
    __slots__ = ('cell', 'path')

    def __init__(self, cell, path=()):
        self.cell = cell
        self.path = path

    def __repr__(self):
        return 'Ref(%r,%r)' % (self.cell, self.path)


class Agg:
    """struct / tuple / closure-less aggregate; ty is the struct name or None for tuples"""
    __slots__ = ('ty', 'f')

    def __init__(self, ty, f):
        self.ty = ty
        self.f = tuple(f)

    def __repr__(self):
        return '%s%r' % (self.ty or '', self.f)


UNIT = Agg(None, ())


class Enum:
    __slots__ = ('ty', 'idx', 'name', 'f')

    def __init__(self, ty, idx, name, f=()):
        self.ty = ty
        self.idx = idx
        self.name = name
        self.f = tuple(f)

    def __repr__(self):
        return '%s::%s%r' % (self.ty, self.name, self.f) if self.f else '%s::%s' % (self.ty, self.name)


def Some(v):
    return Enum('Option', 1, 'Some', (v,))


NONE = Enum('Option', 0, 'None', ())


def Ok(v):
    return Enum('Result', 0, 'Ok', (v,))


def Err(v):
    return Enum('Result', 1, 'Err', (v,))


class Arr:
    """array / Vec contents / slice: items tuple.  kind: 'vec' | 'array'"""
    __slots__ = ('items', 'kind')

    def __init__(self, items, kind='vec'):
        self.items = tuple(items)
        self.kind = kind

    def __repr__(self):
        return '%s%r' % (self.kind, list(self.items))


class Str:
    """str / String contents: tuple of bytes (int 0..255 or z3 BitVec(8))"""
    __slots__ = ('b',)

    def __init__(self, b):
        self.b = tuple(b)

    def __repr__(self):
        if all(isinstance(x, int) for x in self.b):
            return 'Str(%r)' % bytes(self.b).decode('utf-8', 'replace')
        return 'Str(sym %d)' % len(self.b)

    def concrete(self):
        return all(isinstance(x, int) for x in self.b)

    def text(self):
        return bytes(self.b).decode('utf-8', 'replace')


def mkstr(s):
    if isinstance(s, str):
        s = s.encode('utf-8')
    return Str(tuple(s))


class Dec:
    """rust_decimal::Decimal = m * 10^-s ; m Python int or z3 Int term, s concrete 0..28"""
    __slots__ = ('m', 's', 'src')

    def __init__(self, m, s, src=None):
        self.m = m
        self.s = s
        self.src = src      # (neg, int_digit_bytes, frac_digit_bytes) when parsed from symbolic text

    def __repr__(self):
        return 'Dec(%r,%d)' % (self.m, self.s)


class DecStr:
    """the String produced by Decimal::to_string for a Decimal with symbolic mantissa"""
    __slots__ = ('d', 'text')

    def __init__(self, d, text=None):
        self.d = d
        self.text = text    # tuple of (symbolic) bytes when the digits are known, else None


class CatStr:
    """a String holding concrete bytes followed by the text of a symbolic decimal (write!(buf, "{}", d) into a non-empty buffer)"""
    __slots__ = ('prefix', 'ds')

    def __init__(self, prefix, ds):
        self.prefix = tuple(prefix)
        self.ds = ds


class Closure:
    __slots__ = ('key', 'caps')

    def __init__(self, key, caps=()):
        self.key = key
        self.caps = tuple(caps)

    def __repr__(self):
        return 'Closure(%s)' % self.key


class FnItem:
    __slots__ = ('name',)

    def __init__(self, name):
        self.name = name

    def __repr__(self):
        return 'FnItem(%s)' % self.name


class PyFn:
    """a closure supplied by the harness: fn(interp, args_list) -> value (may raise Unwind)"""
    __slots__ = ('fn', 'tag')

    def __init__(self, fn, tag=None):
        self.fn = fn
        self.tag = tag

    def __repr__(self):
        return 'PyFn(%s)' % self.tag


class ArcV:
    __slots__ = ('cell',)

    def __init__(self, cell):
        self.cell = cell

    def __repr__(self):
        return 'Arc(%r)' % (self.cell,)


class MutexV:
    __slots__ = ('data', 'held', 'poisoned')

    def __init__(self, data, held=None, poisoned=False):
        self.data = data
        self.held = held          # None | thread id (exclusive) | ('r', ((thread id, count), ...)) shared holders of an RwLock
        self.poisoned = poisoned

    def __repr__(self):
        return 'Mutex(held=%r,poisoned=%r,%r)' % (self.held, self.poisoned, self.data)


class GuardV:
    __slots__ = ('ref', 'mode')

    def __init__(self, ref, mode='x'):
        self.ref = ref
        self.mode = mode          # 'x' exclusive (Mutex, RwLock::write) | 'r' shared (RwLock::read)

    def __repr__(self):
        return 'Guard(%r)' % (self.ref,)


class OnceV:
    """once_cell::sync::OnceCell: state 0 empty, 1 running (by thread), 2 full"""
    __slots__ = ('state', 'val', 'owner')

    def __init__(self, state=0, val=None, owner=None):
        self.state = state
        self.val = val
        self.owner = owner

    def __repr__(self):
        return 'Once(%d,%r)' % (self.state, self.val)


class MapV:
    """HashMap as insertion-ordered association list of (key, value)"""
    __slots__ = ('items',)

    def __init__(self, items=()):
        self.items = tuple(items)

    def __repr__(self):
        return 'Map%r' % (self.items,)


class IterV:
    """iterators: kind 'into' (owned items), 'refs' (items are Refs), 'range' (items=(cur,end))"""
    __slots__ = ('kind', 'items', 'pos', 'extra')

    def __init__(self, kind, items, pos=0, extra=None):
        self.kind = kind
        self.items = items
        self.pos = pos
        self.extra = extra

    def __repr__(self):
        return 'Iter(%s,%d/%d)' % (self.kind, self.pos, len(self.items))


class CharIdx:
    """str::CharIndices over a byte tuple; pos = next byte offset"""
    __slots__ = ('b', 'pos')

    def __init__(self, b, pos=0):
        self.b = b
        self.pos = pos

    def __repr__(self):
        return 'CharIndices(@%d/%d)' % (self.pos, len(self.b))


class Opaque:
    """a value the model does not interpret (fmt machinery etc.)"""
    __slots__ = ('what',)

    def __init__(self, what):
        self.what = what

    def __repr__(self):
        return 'Opaque(%s)' % self.what


def is_sym(x):
    return isinstance(x, z3.ExprRef)


# ------------------------------------------------------------------ paths

class ModelError(Exception):
    """internal inconsistency of the executor (treated as Unsupported / inconclusive)"""


def proj(v, e):
    k = e[0]
    if k == 'f':
        i = e[1]
        if isinstance(v, (Agg, Enum)):
            try:
                return v.f[i]
            except IndexError:
                raise ModelError('field %d out of range in %r' % (i, v))
        if isinstance(v, Closure):
            return v.caps[i]
        raise ModelError('field projection .%d on %r' % (i, v))
    if k == 'i':
        return v.items[e[1]]
    if k == 'mx':
        return v.data
    if k == 'oc':
        return v.val
    if k == 'mv':
        return v.items[e[1]][1]
    if k == 'mk':
        return v.items[e[1]][0]
    raise ModelError('bad path elem %r' % (e,))


def get_path(v, path):
    for e in path:
        v = proj(v, e)
    return v


def set_path(v, path, new):
    if not path:
        return new
    e = path[0]
    k = e[0]
    sub = set_path(proj(v, e), path[1:], new) if len(path) > 1 else new
    if k == 'f':
        i = e[1]
        if isinstance(v, Agg):
            return Agg(v.ty, v.f[:i] + (sub,) + v.f[i + 1:])
        if isinstance(v, Enum):
            return Enum(v.ty, v.idx, v.name, v.f[:i] + (sub,) + v.f[i + 1:])
        if isinstance(v, Closure):
            return Closure(v.key, v.caps[:i] + (sub,) + v.caps[i + 1:])
        raise ModelError('field write .%d on %r' % (i, v))
    if k == 'i':
        i = e[1]
        return Arr(v.items[:i] + (sub,) + v.items[i + 1:], v.kind)
    if k == 'mx':
        return MutexV(sub, v.held, v.poisoned)
    if k == 'oc':
        return OnceV(v.state, sub, v.owner)
    if k == 'mv':
        i = e[1]
        return MapV(v.items[:i] + ((v.items[i][0], sub),) + v.items[i + 1:])
    raise ModelError('bad path elem %r' % (e,))


def rd(ref):
    return get_path(ref.cell.v, ref.path)


def wr(ref, val):
    if ref.path:
        ref.cell.v = set_path(ref.cell.v, ref.path, val)
    else:
        ref.cell.v = val
