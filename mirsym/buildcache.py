"""Build artefacts derived from /repo's *current working tree*: scratch copy, MIR dumps
(dev: overflow-checks on, release: off) and the native replay binaries.

Everything is regenerated whenever the content hash of the inputs changes (sources of
/repo, the overlay, the replay program).  The cache lives outside /repo and /verif
(${VERIF_CACHE:-/var/tmp/verif-cache}); it is an optimisation only: a missing entry is rebuilt.
"""
import fcntl
import hashlib
import os
import shutil
import subprocess
import sys
import time

VERIF = os.path.dirname(os.path.dirname(os.path.abspath(__file__)))
REPO = os.environ.get('VERIF_REPO', '/repo')
CACHE = os.environ.get('VERIF_CACHE', '/var/tmp/verif-cache')
KEEP = 24          # entries are ~5 MB each
MIN_AGE_S = 12 * 3600      # never evict an entry used in the last 12 hours (a concurrent run may be reading it)


def _hash_tree():
    h = hashlib.sha256()
    paths = []
    for root, dirs, files in os.walk(os.path.join(REPO, 'src')):
        dirs.sort()
        for f in sorted(files):
            paths.append(os.path.join(root, f))
    for f in ('Cargo.toml', 'Cargo.lock'):
        p = os.path.join(REPO, f)
        if os.path.exists(p):
            paths.append(p)
    paths.append(os.path.join(VERIF, 'overlay', 'verif_hooks.rs'))
    paths.append(os.path.join(VERIF, 'replay', 'src', 'main.rs'))
    paths.append(os.path.join(VERIF, 'replay', 'build.sh'))
    for p in paths:
        h.update(p.encode())
        h.update(b'\0')
        with open(p, 'rb') as fh:
            h.update(fh.read())
        h.update(b'\0')
    return h.hexdigest()[:20]


def _run(cmd, cwd=None, env=None, log=None):
    e = dict(os.environ)
    e['CARGO_NET_OFFLINE'] = 'true'
    if env:
        e.update(env)
    with open(log, 'wb') as lf:
        return subprocess.Popen(cmd, cwd=cwd, env=e, stdout=lf, stderr=subprocess.STDOUT)


def _evict(keep_key):
    try:
        ents = [d for d in os.listdir(CACHE) if os.path.isdir(os.path.join(CACHE, d)) and d != keep_key]
    except FileNotFoundError:
        return
    ents.sort(key=lambda d: os.path.getmtime(os.path.join(CACHE, d)), reverse=True)
    now = time.time()
    for d in ents[KEEP - 1:]:
        if now - os.path.getmtime(os.path.join(CACHE, d)) < MIN_AGE_S:
            continue
        shutil.rmtree(os.path.join(CACHE, d), ignore_errors=True)
        try:
            os.unlink(os.path.join(CACHE, d + '.lock'))
        except OSError:
            pass


class Artefacts:
    def __init__(self, d):
        self.dir = d
        self.crate = os.path.join(d, 'crate')
        self.mir_dev = os.path.join(d, 'mir.dev.txt')
        self.mir_rel = os.path.join(d, 'mir.rel.txt')
        self.replay_dev = os.path.join(d, 'vreplay-dev')
        self.replay_rel = os.path.join(d, 'vreplay-release')
        self.key = os.path.basename(d)

    def mir(self, profile):
        return self.mir_dev if profile == 'dev' else self.mir_rel


def ensure(need_replay=True, quiet=False):
    """Return Artefacts for the current working tree of /repo, building what is missing."""
    key = _hash_tree()
    os.makedirs(CACHE, exist_ok=True)
    d = os.path.join(CACHE, key)
    lock = open(os.path.join(CACHE, key + '.lock'), 'w')
    fcntl.flock(lock, fcntl.LOCK_EX)
    try:
        art = Artefacts(d)
        ok = os.path.exists(os.path.join(d, 'OK.mir'))
        okr = os.path.exists(os.path.join(d, 'OK.replay'))
        if ok and (okr or not need_replay):
            os.utime(d, None)
            return art
        t0 = time.time()
        os.makedirs(d, exist_ok=True)
        if not os.path.isdir(art.crate):
            tmp = art.crate + '.tmp'
            shutil.rmtree(tmp, ignore_errors=True)
            subprocess.check_call(['rsync', '-a', '--exclude', 'target', '--exclude', '.git', REPO + '/', tmp + '/'])
            os.rename(tmp, art.crate)
        procs = []
        if not ok:
            for prof, flag in (('dev', 'on'), ('rel', 'off')):
                tdir = os.path.join(d, 'target-' + prof)
                out = os.path.join(d, 'mir.%s.txt' % prof)
                cmd = ['bash', '-c',
                       'touch src/lib.rs && cargo +nightly rustc --offline --lib -- -Zunpretty=mir '
                       '-C debug-assertions=off -C overflow-checks=%s > %s.tmp && mv %s.tmp %s' % (flag, out, out, out)]
                procs.append(('mir-' + prof, _run(cmd, cwd=art.crate, env={'CARGO_TARGET_DIR': tdir},
                                                  log=os.path.join(d, 'build-mir-%s.log' % prof))))
        if need_replay and not okr:
            # replay build appends the overlay include to its own copy of the crate
            rcrate = os.path.join(d, 'crate-replay')
            shutil.rmtree(rcrate, ignore_errors=True)
            subprocess.check_call(['rsync', '-a', art.crate + '/', rcrate + '/'])
            procs.append(('replay', _run([os.path.join(VERIF, 'replay', 'build.sh'), rcrate, os.path.join(d, 'replay-out')],
                                         log=os.path.join(d, 'build-replay.log'))))
        failed = []
        for name, p in procs:
            rc = p.wait()
            if rc != 0:
                failed.append(name)
        if failed:
            msgs = []
            for name in failed:
                lg = {'mir-dev': 'build-mir-dev.log', 'mir-rel': 'build-mir-rel.log', 'replay': 'build-replay.log'}[name]
                try:
                    with open(os.path.join(d, lg), errors='replace') as fh:
                        msgs.append('--- %s ---\n%s' % (name, fh.read()[-3000:]))
                except OSError:
                    pass
            raise BuildError('build failed: %s\n%s' % (failed, '\n'.join(msgs)))
        if not ok:
            for prof in ('dev', 'rel'):
                shutil.rmtree(os.path.join(d, 'target-' + prof), ignore_errors=True)
            open(os.path.join(d, 'OK.mir'), 'w').write(str(time.time()))
        if need_replay and not okr:
            ro = os.path.join(d, 'replay-out')
            shutil.copy(os.path.join(ro, 'vreplay-dev'), art.replay_dev)
            shutil.copy(os.path.join(ro, 'vreplay-release'), art.replay_rel)
            shutil.rmtree(ro, ignore_errors=True)
            shutil.rmtree(os.path.join(d, 'crate-replay'), ignore_errors=True)
            open(os.path.join(d, 'OK.replay'), 'w').write(str(time.time()))
        if not quiet:
            print('[build] artefacts for tree %s built in %.1fs' % (key, time.time() - t0), file=sys.stderr)
        _evict(key)
        return art
    finally:
        fcntl.flock(lock, fcntl.LOCK_UN)
        lock.close()


class BuildError(Exception):
    pass


if __name__ == '__main__':
    a = ensure()
    print(a.dir)
