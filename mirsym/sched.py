"""Virtual threads for the MIR interpreter (C13 / concurrent half of C16).

Each virtual thread runs on its own Python thread, but only one runs at a time: control is handed
over explicitly at *synchronisation points* (Mutex::lock, guard release wake-ups, OnceCell
get/get_or_init/set, atomics, harness waits).  Which runnable thread continues is a decision of the
exploration context (a symbolic selector explored like any branch), bounded by a number of
preemptions.  Interleaving only at synchronisation points is sufficient for safe Rust without
`unsafe`: between two synchronisation operations a thread only touches data no other thread can
observe (data-race freedom by typing).
"""
import threading
import z3

from values import *
from interp import Unwind, Deadlock, Unsupported, ModelError, StepBudget, Abort
import models

threading.stack_size(512 * 1024 * 1024)


class PathAbort(BaseException):
    """unwinds a virtual thread when the whole path is being abandoned"""


class VThread:
    def __init__(self, tid, it, calls):
        self.tid = tid
        self.it = it
        self.calls = calls
        self.go = threading.Semaphore(0)
        self.status = 'new'          # new | runnable | blocked | done
        self.blocked_on = None
        self.results = []
        self.error = None
        self.py = None


class Sched:
    def __init__(self, px, engine, statics, max_preempt=2):
        self.px = px
        self.engine = engine
        self.statics = statics
        self.max_preempt = max_preempt
        self.threads = []
        self.cur = None
        self.preemptions = 0
        self.ndec = 0
        self.main_go = threading.Semaphore(0)
        self.abort = None
        self.deadlock = None
        self.trace = []
        self.flags = {}

    # ------------------------------------------------------------------ setup
    def add_thread(self, calls, run_call):
        tid = len(self.threads) + 1
        it = self.engine.new_interp()
        it.statics = self.statics
        it.x = self.px
        it.sched = self
        it.thread = tid
        it.step_limit = 5_000_000
        t = VThread(tid, it, calls)
        t.run_call = run_call
        self.threads.append(t)
        return t

    def _body(self, t):
        try:
            t.go.acquire()
            if self.abort is not None:
                return
            for c in t.calls:
                t.results.append(t.run_call(t.it, c))
        except PathAbort:
            return
        except BaseException as e:      # Unsupported, Inconclusive, Infeasible, internal errors: abandon the path
            if self.abort is None:
                self.abort = e
        finally:
            t.status = 'done'
            try:
                self._after_exit(t)
            except BaseException as e:
                if self.abort is None and not isinstance(e, PathAbort):
                    self.abort = e
                self.main_go.release()

    def _after_exit(self, t):
        if self.deadlock is not None:
            return
        if self.abort is not None:
            for o in self.threads:
                o.go.release()
            self.main_go.release()
            return
        nxt = self._pick(exclude_current=True)
        if nxt is None:
            self.main_go.release()
        else:
            self.cur = nxt
            nxt.go.release()

    def run(self):
        for t in self.threads:
            t.status = 'runnable'
            t.py = threading.Thread(target=self._body, args=(t,), daemon=True)
            t.py.start()
        first = self._pick(exclude_current=True)
        self.cur = first
        first.go.release()
        self.main_go.acquire()
        if self.abort is not None:
            for o in self.threads:
                o.go.release()
            for o in self.threads:
                o.py.join(timeout=5)
            raise self.abort
        # all done or deadlocked
        if self.deadlock is not None:
            for o in self.threads:
                o.go.release()      # let blocked threads unwind
            for o in self.threads:
                o.py.join(timeout=5)

    # ------------------------------------------------------------------ scheduling decisions
    def _runnable(self):
        return [t for t in self.threads if t.status == 'runnable']

    def _pick(self, exclude_current=False):
        """choose the next thread among the runnable ones (a symbolic decision)"""
        cands = self._runnable()
        if not cands:
            if any(t.status == 'blocked' for t in self.threads):
                self.deadlock = 'all live threads are blocked: %s' % ['T%d on %s' % (t.tid, t.blocked_on) for t in self.threads if t.status == 'blocked']
                for t in self.threads:
                    if t.status == 'blocked':
                        t.status = 'deadlocked'
            return None
        if len(cands) == 1:
            return cands[0]
        cur = self.cur
        if (not exclude_current) and cur is not None and cur.status == 'runnable' and self.preemptions >= self.max_preempt:
            return cur
        v = self.px.bv('sched_%d' % self.ndec, 8)
        self.ndec += 1
        # current thread first: "no preemption" is the decision explored first
        order = sorted(cands, key=lambda t: (0 if t is cur else 1, t.tid))
        self.px.add(z3.ULT(v, z3.BitVecVal(len(order), 8)))
        i = self.px.choose([v == z3.BitVecVal(k, 8) for k in range(len(order))])
        nxt = order[i]
        if (not exclude_current) and cur is not None and cur.status == 'runnable' and nxt is not cur:
            self.preemptions += 1
        return nxt

    def _switch_from(self, t, nxt):
        if nxt is t:
            return
        self.cur = nxt
        self.trace.append(nxt.tid)
        nxt.go.release()
        t.go.acquire()
        if self.abort is not None or t.status == 'deadlocked':
            raise PathAbort()

    def _thread_of(self, it):
        return self.threads[it.thread - 1]

    def yield_point(self, it, what):
        t = self._thread_of(it)
        nxt = self._pick()
        if nxt is None:
            return
        self._switch_from(t, nxt)

    def block(self, it, on):
        """the current thread cannot proceed: run somebody else until it is woken"""
        t = self._thread_of(it)
        t.status = 'blocked'
        t.blocked_on = on
        nxt = self._pick(exclude_current=True)
        if nxt is None:
            # deadlock: nobody can run
            self.main_go.release()
            t.go.acquire()
            raise PathAbort()
        self._switch_from(t, nxt)

    def wake(self, pred):
        for t in self.threads:
            if t.status == 'blocked' and pred(t.blocked_on):
                t.status = 'runnable'
                t.blocked_on = None

    # ------------------------------------------------------------------ synchronisation objects
    def lock(self, it, r):
        self.yield_point(it, 'lock')
        while True:
            m = rd(r)
            if not isinstance(m, MutexV):
                raise ModelError('lock on %r' % (m,))
            if m.held is None:
                break
            if m.held == it.thread:
                raise Deadlock('Mutex::lock on a mutex already held by this thread', it.where())
            self.block(it, ('mutex', id(r.cell), r.path))
        wr(r, MutexV(m.data, it.thread, m.poisoned))
        g = GuardV(r)
        return Err(g) if m.poisoned else Ok(g)

    def rwlock(self, it, r, op):
        """std::sync::RwLock under the scheduler: shared readers, one writer, writers preferred (a reader waits while a
        writer is queued — also when the reading thread already holds a read lock: that is the documented deadlock)"""
        self.yield_point(it, 'rwlock')
        me = it.thread
        key = ('mutex', id(r.cell), r.path)
        while True:
            m = rd(r)
            if not isinstance(m, MutexV):
                raise ModelError('RwLock::%s on %r' % (op, m))
            writer_waiting = any(t.status == 'blocked' and t.blocked_on == key and getattr(t, 'wants_write', False) for t in self.threads)
            if op == 'read':
                if m.held is None or isinstance(m.held, tuple):
                    if not writer_waiting:
                        break
                elif m.held == me:
                    raise Deadlock('RwLock::read while this thread holds the write lock', it.where())
            else:
                if m.held is None:
                    break
                holders = dict(m.held[1]) if isinstance(m.held, tuple) else {m.held: 1}
                if me in holders:
                    raise Deadlock('RwLock::write while this thread holds the lock', it.where())
            t = self._thread_of(it)
            t.wants_write = (op == 'write')
            self.block(it, key)
            t.wants_write = False
        if op == 'read':
            holders = dict(m.held[1]) if isinstance(m.held, tuple) else {}
            holders[me] = holders.get(me, 0) + 1
            wr(r, MutexV(m.data, ('r', tuple(sorted(holders.items()))), m.poisoned))
            g = GuardV(r, 'r')
        else:
            wr(r, MutexV(m.data, me, m.poisoned))
            g = GuardV(r, 'x')
        return Err(g) if m.poisoned else Ok(g)

    def released(self, r):
        self.wake(lambda on: on is not None and on[0] == 'mutex' and on[1] == id(r.cell) and on[2] == r.path)

    def once_get_or_init(self, it, r, f):
        self.yield_point(it, 'once')
        while True:
            o = rd(r)
            if o.state == 2:
                return Ref(r.cell, r.path + (('oc',),))
            if o.state == 0:
                break
            if o.owner == it.thread:
                raise Deadlock('OnceCell::get_or_init re-entered from its own initialiser', it.where())
            self.block(it, ('once', id(r.cell), r.path))
        wr(r, OnceV(1, None, it.thread))
        try:
            v = it.call_callable(f, [])
        except Unwind:
            wr(r, OnceV(0, None, None))
            self.wake(lambda on: on is not None and on[0] == 'once' and on[1] == id(r.cell))
            raise
        wr(r, OnceV(2, v, None))
        self.wake(lambda on: on is not None and on[0] == 'once' and on[1] == id(r.cell))
        return Ref(r.cell, r.path + (('oc',),))

    def once_call(self, it, r, f):
        self.once_get_or_init(it, r, f)
        return UNIT

    # harness-level waiting (a handler that waits for another thread)
    def wait_flag(self, it, name):
        while not self.flags.get(name):
            self.block(it, ('flag', name))
        return True

    def set_flag(self, it, name):
        self.flags[name] = True
        self.wake(lambda on: on is not None and on[0] == 'flag' and on[1] == name)
        self.yield_point(it, 'flag')
