"""Path exploration by re-execution from decision prefixes (DART/KLEE style), with a process pool.

A *harness* is a function  h(it, px, params) -> record(dict, JSON-able)  that builds symbolic
inputs through px, drives the interpreter `it`, and states assertions through px.check / px.violation.
Every symbolic branch inside the interpreter or a library model calls px.choose(), which either
replays the decision prefix or, at the frontier, asks the solver which alternatives are feasible
and schedules the others.
"""
import json
import multiprocessing as mp
import os
import random
import subprocess
import sys
import time
import traceback

import z3

from values import is_sym


class Inconclusive(Exception):
    """solver said unknown / timeout: the path cannot be judged"""


class Infeasible(Exception):
    """the path condition became unsatisfiable (after an assume)"""


class PathCtx:
    def __init__(self, prefix=(), timeout_ms=10000, seed=0):
        self.prefix = tuple(prefix)
        self.pos = 0
        self.decisions = []
        self.solver = z3.Solver()
        self.solver.set('timeout', timeout_ms)
        if seed:
            self.solver.set('random_seed', seed & 0x7fffffff)
        self.model = None
        self.model_valid = False
        self.new_prefixes = []
        self.pc_len = 0
        self.n_sat = 0
        self.n_unsat = 0
        self.n_unknown = 0
        self.solver_time = 0.0
        self.covers = set()
        self.findings = []
        self.notes = []
        self.syms = {}
        self.diff_log = None
        self.decided = {}      # ast id -> (expr kept alive, bool): conditions already decided on this path
        self.known = {}        # ast id of a BV constant symbol -> (symbol, int): pinned by the path condition
        self.probed = {}
        self.char_src = {}     # ast id of a decoded 1-byte char term -> its byte symbol
        self.pin_probe = False
        self.diff_rate = float(os.environ.get('VERIF_DIFF_RATE', '0') or 0)
        self.rng = random.Random((seed or 0) * 7919 + len(self.prefix))
        self.n_diff = 0
        self.n_diff_skipped = 0

    # ------------------------------------------------------------------ symbols
    def bv(self, name, w):
        v = z3.BitVec(name, w)
        self.syms[name] = v
        return v

    def int(self, name):
        v = z3.Int(name)
        self.syms[name] = v
        return v

    def bool(self, name):
        v = z3.Bool(name)
        self.syms[name] = v
        return v

    # ------------------------------------------------------------------ solver plumbing
    def _check(self, *extra):
        t = time.time()
        r = self.solver.check(*extra)
        self.solver_time += time.time() - t
        if r == z3.sat:
            self.n_sat += 1
        elif r == z3.unsat:
            self.n_unsat += 1
        else:
            self.n_unknown += 1
        if self.diff_rate and r in (z3.sat, z3.unsat) and self.rng.random() < self.diff_rate:
            self._cross_check(extra, r)
        return r

    def _cross_check(self, extra, r):
        """second opinion from cvc5 on the same query (SMT-LIB2 text); a disagreement makes the path inconclusive"""
        s2 = z3.Solver()
        s2.add(self.solver.assertions())
        for c in extra:
            s2.add(c)
        text = '(set-logic ALL)\n' + s2.to_smt2()
        try:
            p = subprocess.run(['cvc5', '--lang', 'smt2', '--tlimit=5000'], input=text.encode(), stdout=subprocess.PIPE, stderr=subprocess.PIPE, timeout=20)
            out = p.stdout.decode('utf-8', 'replace').strip().split('\n')[0] if p.stdout else ''
        except Exception:
            out = ''
        if out not in ('sat', 'unsat'):
            self.n_diff_skipped += 1      # cvc5 could not parse/decide it (e.g. z3-specific bv2int): not comparable
            return
        self.n_diff += 1
        if (out == 'sat') != (r == z3.sat):
            raise Inconclusive('z3 says %s, cvc5 says %s for the same query' % (r, out))

    def add(self, c, keep_model=False):
        """assert a constraint.  The cached model stays valid only when the caller knows it satisfies c."""
        self.solver.add(c)
        self.pc_len += 1
        if not keep_model:
            self.model_valid = False

    def get_model(self):
        if self.model is None or not self.model_valid:
            r = self._check()
            if r == z3.unsat:
                raise Infeasible()
            if r != z3.sat:
                raise Inconclusive('solver returned %s for the path condition' % r)
            self.model = self.solver.model()
            self.model_valid = True
        return self.model

    def assume(self, c):
        if isinstance(c, bool):
            if not c:
                raise Infeasible()
            return
        keep = self.model is not None and self.model_valid and z3.is_true(self.model.eval(c, model_completion=True))
        self.add(c, keep_model=keep)
        if self.pos >= len(self.prefix):
            self.get_model()

    def _remember(self, conds, chosen):
        for i, c in enumerate(conds):
            self.decided[c.get_id()] = (c, i == chosen)

    def learn(self, sym, val):
        """record that the path condition pins the BV symbol `sym` to the integer `val`"""
        self.known[sym.get_id()] = (sym, val)

    def conc(self, b):
        """concrete value of a symbol pinned by the path condition, else the term itself"""
        if self.known:
            k = self.known.get(b.get_id())
            if k is not None:
                return k[1]
        return b

    def pin(self, b):
        """ask the solver whether the path condition leaves exactly one value for byte symbol b
        (used by harnesses whose inputs range over a small alphabet); learns and returns it.
        The answer is recorded in the decision list so that replays behave identically."""
        k = self.known.get(b.get_id())
        if k is not None:
            return k[1]
        pr = self.probed.get(b.get_id())
        if pr is not None and pr[1] == self.pc_len:
            return None
        if self.pos < len(self.prefix):
            d = self.prefix[self.pos]
            self.pos += 1
            self.decisions.append(d)
            if not isinstance(d, tuple):
                raise Inconclusive('replay misaligned at a pin probe')
            if d[1] is not None:
                self.known[b.get_id()] = (b, d[1])
            else:
                self.probed[b.get_id()] = (b, self.pc_len)
            return d[1]
        m = self.get_model()
        c = m.eval(b, model_completion=True)
        r = self._check(b != c)
        self.pos += 1
        if r == z3.unsat:
            self.known[b.get_id()] = (b, c.as_long())
            self.decisions.append(('p', c.as_long()))
            return c.as_long()
        if r != z3.sat:
            raise Inconclusive('solver returned %s at a pin probe' % r)
        self.probed[b.get_id()] = (b, self.pc_len)
        self.decisions.append(('p', None))
        return None

    def choose(self, conds, hint=None):
        """conds: mutually exclusive, jointly exhaustive z3 Bools.  Returns the chosen index.
        Conditions already decided on this path are answered from a cache (deterministically, so
        replays stay aligned) without consuming a decision.  A decision whose alternatives are all
        infeasible is *forced*: it is recorded as ~index and its condition (implied by the path
        condition) is not asserted again."""
        live = []
        for i, c in enumerate(conds):
            d = self.decided.get(c.get_id())
            if d is not None:
                if d[1]:
                    return i
                continue
            live.append(i)
        if not live:
            raise Infeasible()
        if len(live) == 1 and len(conds) > 1:
            i = live[0]
            self.decided[conds[i].get_id()] = (conds[i], True)
            return i
        if self.pos < len(self.prefix):
            d = self.prefix[self.pos]
            self.pos += 1
            self.decisions.append(d)
            if isinstance(d, tuple):
                raise Inconclusive('replay misaligned at a branch')
            if d < 0:
                i = ~d
            else:
                i = d
                self.add(conds[i])
                self.model_valid = False
            self._remember(conds, i)
            return i
        m = self.get_model()
        chosen = None
        if hint is not None and hint in live:
            chosen = hint
        else:
            for i in live:
                if z3.is_true(m.eval(conds[i], model_completion=True)):
                    chosen = i
                    break
        if chosen is None:
            # the model is partial in an unlucky way: decide by query
            for i in live:
                r = self._check(conds[i])
                if r == z3.sat:
                    chosen = i
                    self.model = self.solver.model()
                    break
                if r != z3.unsat:
                    raise Inconclusive('solver returned %s at a branch' % r + (' [%s]' % str(conds[i])[:600].replace('\n', ' ') if os.environ.get('VERIF_DEBUG') else ''))
            if chosen is None:
                raise Infeasible()
        base = tuple(self.decisions)
        forked = False
        for i in live:
            if i == chosen:
                continue
            r = self._check(conds[i])
            if r == z3.sat:
                self.new_prefixes.append(base + (i,))
                forked = True
            elif r != z3.unsat:
                raise Inconclusive('solver returned %s at a branch' % r + (' [%s]' % str(conds[i])[:600].replace('\n', ' ') if os.environ.get('VERIF_DEBUG') else ''))
        self.pos += 1
        if forked:
            self.decisions.append(chosen)
            self.add(conds[chosen], keep_model=True)
        else:
            self.decisions.append(~chosen)
        self._remember(conds, chosen)
        # the cached model satisfies conds[chosen], so it remains a model of the path condition
        return chosen

    def pick_value(self, v, limit=64):
        """fork over the concrete values 0..limit-1 of a symbolic bit-vector (deterministic order)"""
        w = v.size()
        conds = [v == z3.BitVecVal(k, w) for k in range(limit)]
        conds.append(z3.UGE(v, z3.BitVecVal(limit, w)))
        i = self.choose(conds)
        if i == limit:
            raise Inconclusive('symbolic index/length >= %d' % limit)
        return i

    # ------------------------------------------------------------------ assertions
    def check(self, cond):
        """Is `cond` implied by the path condition?  -> (True, None) | (False, model)"""
        if isinstance(cond, bool):
            if cond:
                return True, None
            return False, self.get_model()
        r = self._check(z3.Not(cond))
        if r == z3.unsat:
            return True, None
        if r == z3.sat:
            return False, self.solver.model()
        # unknown (typically non-linear arithmetic): look for a counterexample among a few models of the path
        # condition (each one is a genuine solver model, so a hit is a real counterexample); no hit => inconclusive
        self.solver.push()
        try:
            for _ in range(12):
                rr = self._check()
                if rr != z3.sat:
                    break
                m = self.solver.model()
                if z3.is_false(m.eval(cond, model_completion=True)):
                    return False, m
                block = []
                for d in m.decls():
                    if d.arity() == 0:
                        c = d()
                        block.append(c != m[d])
                if not block:
                    break
                self.solver.add(z3.Or(block[:24]))
        finally:
            self.solver.pop()
        raise Inconclusive('solver returned %s for an assertion' % r)

    def feasible(self, cond):
        r = self._check(cond)
        if r == z3.sat:
            return self.solver.model()
        if r == z3.unsat:
            return None
        raise Inconclusive('solver returned %s' % r)

    def cover(self, name):
        self.covers.add(name)

    def finding(self, f):
        self.findings.append(f)

    def eval_int(self, model, v):
        if not is_sym(v):
            return int(v)
        r = model.eval(v, model_completion=True)
        return r.as_long()

    def eval_bytes(self, model, bs):
        return bytes(self.eval_int(model, b) for b in bs)


# ------------------------------------------------------------------------------------- pool driver

_G = {}
GLOBAL_STATS = {'explorations': 0, 'cvc5_agreed': 0, 'cvc5_skipped': 0, 'truncated': 0}


def _worker_init():
    pass


def _run_paths(task):
    """explore up to `quota` paths depth-first starting from the given prefixes"""
    prefixes, quota, params = task
    h = _G['harness']
    eng = _G['engine']
    it = _G.get('it')
    if it is None:
        it = eng.new_interp()
        if _G.get('snapshot') is not None:
            it.statics = {k: c for k, c in _G['statics'].items()}
        _G['it'] = it
    stack = list(prefixes)
    recs = []
    stats = {'paths': 0, 'sat': 0, 'unsat': 0, 'unknown': 0, 'solver_s': 0.0, 'steps': 0, 'decisions': 0,
             'max_depth': 0}
    t_end = time.time() + params.get('task_seconds', 20)
    while stack and stats['paths'] < quota and time.time() < t_end:
        pre = stack.pop()
        px = PathCtx(pre, params.get('timeout_ms', 10000), params.get('seed', 0))
        rec = run_one(it, px, h, params)
        stack.extend(px.new_prefixes)
        stats['paths'] += 1
        stats['sat'] += px.n_sat
        stats['unsat'] += px.n_unsat
        stats['unknown'] += px.n_unknown
        stats['solver_s'] += px.solver_time
        stats['steps'] += it.steps
        stats['decisions'] += len(px.decisions)
        stats['cvc5_agreed'] = stats.get('cvc5_agreed', 0) + px.n_diff
        stats['cvc5_skipped'] = stats.get('cvc5_skipped', 0) + px.n_diff_skipped
        stats['max_depth'] = max(stats['max_depth'], len(px.decisions))
        recs.append(rec)
    return recs, stack, stats, sorted(it.models_used), sorted(it.bodies_used)


def run_one(it, px, h, params):
    from interp import Unsupported, ModelError
    from models import OutsideModel
    snap = _G.get('snapshot')
    if snap is not None:
        for k, v in snap.items():
            it.statics[k].v = v
        # statics created after the snapshot are dropped
        for k in list(it.statics):
            if k not in snap:
                del it.statics[k]
    it.steps = 0
    it.stack.clear()
    it.x = px
    it.step_limit = params.get('step_limit', 2_000_000)
    rec = {'prefix_len': len(px.prefix)}
    try:
        out = h(it, px, params)
        rec.update(out or {})
        rec.setdefault('status', 'done')
        # final feasibility check of the path (and witness)
        px.get_model()
    except Infeasible:
        rec['status'] = 'infeasible'
    except OutsideModel as e:
        rec['status'] = 'outside'
        rec['detail'] = str(e)
    except Unsupported as e:
        rec['status'] = 'unsupported'
        rec['detail'] = str(e)
        rec['where'] = [w[0] for w in it.where()[-3:]]
    except Inconclusive as e:
        rec['status'] = 'inconclusive'
        rec['detail'] = str(e)
    except ModelError as e:
        rec['status'] = 'unsupported'
        rec['detail'] = 'ModelError: %s' % e
        rec['where'] = [w[0] for w in it.where()[-3:]]
    except z3.Z3Exception as e:
        rec['status'] = 'unsupported'
        rec['detail'] = 'Z3Exception: %s' % e
    except Exception as e:
        rec['status'] = 'unsupported'
        rec['detail'] = 'internal error %s: %s' % (type(e).__name__, e)
        rec['trace'] = traceback.format_exc()[-1500:]
    rec['findings'] = px.findings
    rec['covers'] = sorted(px.covers)
    rec['decisions'] = len(px.decisions)
    rec['steps'] = it.steps
    if px.notes:
        rec['notes'] = px.notes
    it.x = None
    return rec


def explore(engine, harness, params, workers=None, max_paths=None, wall_budget=None, prepare=None):
    """Explore all paths of `harness`.  Returns (records, summary).  `prepare(it)` runs once (concretely)
    before the fork, e.g. to execute init() and snapshot the registries."""
    workers = workers or int(os.environ.get('VERIF_WORKERS', '0')) or min(16, os.cpu_count() or 4)
    if wall_budget is None:
        wall_budget = params.get('wall_budget')
    if wall_budget is None:
        # every exploration is capped: a truncated exploration is reported as such (INCONCLUSIVE unless a
        # confirmed violation was already found), never as success
        tier = os.environ.get('VERIF_TIER_EFFECTIVE', 'quick')
        wall_budget = float(os.environ.get('VERIF_WALL_BUDGET', '0') or 0) or (900.0 if tier == 'quick' else 1500.0)
    cap = float(os.environ.get('VERIF_WALL_BUDGET', '0') or 0)
    if cap:
        wall_budget = min(wall_budget, cap)      # an explicit cap from the environment always wins
    _G.clear()
    _G['harness'] = harness
    _G['engine'] = engine
    it = engine.new_interp()
    if prepare is not None:
        prepare(it)
        _G['snapshot'] = {k: c.v for k, c in it.statics.items()}
        _G['statics'] = it.statics
        _G['it'] = it
    else:
        _G['snapshot'] = {}
        _G['statics'] = it.statics
        _G['it'] = it
    t0 = time.time()
    seed = params.get('seed', 0)
    rng = random.Random(seed)
    records = []
    total = {'paths': 0, 'sat': 0, 'unsat': 0, 'unknown': 0, 'solver_s': 0.0, 'steps': 0, 'decisions': 0,
             'max_depth': 0}
    models_used = set()
    bodies_used = set()
    pending = [()]
    truncated = False
    ctx = mp.get_context('fork')
    quota = params.get('task_paths', 40)
    with ctx.Pool(workers) as pool:
        inflight = []
        while pending or inflight:
            if wall_budget is not None and time.time() - t0 > wall_budget:
                truncated = True
                break
            if max_paths is not None and total['paths'] >= max_paths:
                truncated = True
                break
            while pending and len(inflight) < workers * 2:
                # hand out small batches; single prefix per task while the frontier is small
                # fair order: the frontier is visited in a (seeded) random order, so that a wall budget cuts every
                # configuration / template of a harness evenly instead of starving the ones enumerated last
                if len(pending) > 1:
                    k = rng.randrange(len(pending))
                    pending[k], pending[-1] = pending[-1], pending[k]
                n = 1 if len(pending) < workers * 4 else min(8, len(pending) // (workers * 2) + 1)
                batch = []
                for _ in range(min(n, len(pending))):
                    if len(pending) > 1:
                        k = rng.randrange(len(pending))
                        pending[k], pending[-1] = pending[-1], pending[k]
                    batch.append(pending.pop())
                q = 1 if len(pending) + len(inflight) < workers else quota
                inflight.append(pool.apply_async(_run_paths, ((batch, q, params),)))
            still = []
            progressed = False
            for r in inflight:
                if r.ready():
                    recs, rest, st, mu, bu = r.get()
                    records.extend(recs)
                    pending.extend(rest)
                    for k in ('paths', 'sat', 'unsat', 'unknown', 'solver_s', 'steps', 'decisions'):
                        total[k] += st[k]
                    for k in ('cvc5_agreed', 'cvc5_skipped'):
                        total[k] = total.get(k, 0) + st.get(k, 0)
                    total['max_depth'] = max(total['max_depth'], st['max_depth'])
                    models_used.update(mu)
                    bodies_used.update(bu)
                    progressed = True
                else:
                    still.append(r)
            inflight = still
            if not progressed:
                time.sleep(0.01)
        if truncated:
            pool.terminate()
    summary = dict(total)
    summary['wall_s'] = time.time() - t0
    summary['truncated'] = truncated
    summary['unexplored_prefixes'] = len(pending) if truncated else 0
    summary['workers'] = workers
    summary['models_used'] = sorted(models_used)
    summary['bodies_used'] = sorted(bodies_used)
    GLOBAL_STATS['explorations'] += 1
    GLOBAL_STATS['cvc5_agreed'] += total.get('cvc5_agreed', 0)
    GLOBAL_STATS['cvc5_skipped'] += total.get('cvc5_skipped', 0)
    GLOBAL_STATS['truncated'] += 1 if truncated else 0
    return records, summary


def explore_serial(engine, harness, params, prepare=None, max_paths=None):
    """single-process variant (debugging / tiny harnesses)"""
    _G.clear()
    _G['harness'] = harness
    _G['engine'] = engine
    it = engine.new_interp()
    if prepare is not None:
        prepare(it)
    _G['snapshot'] = {k: c.v for k, c in it.statics.items()}
    _G['statics'] = it.statics
    _G['it'] = it
    t0 = time.time()
    recs, rest, st, mu, bu = _run_paths(([()], max_paths or 10 ** 9, dict(params, task_seconds=10 ** 9)))
    st['wall_s'] = time.time() - t0
    st['truncated'] = bool(rest)
    st['unexplored_prefixes'] = len(rest)
    st['workers'] = 1
    st['models_used'] = mu
    st['bodies_used'] = bu
    return recs, st
