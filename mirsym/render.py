"""Canonical JSON renderings shared with the native replay binary (see replay/SPEC.md):
model values -> the same JSON the overlay's ast_json / the replay's Value printer produce,
so that E1 results and native observations can be compared structurally."""
import z3
from values import *


def hexs(s):
    if isinstance(s, Ref):
        s = rd(s)
    if not isinstance(s, Str):
        raise ModelError('expected Str, got %r' % (s,))
    if not s.concrete():
        raise ModelError('rendering a symbolic string')
    return bytes(s.b).hex()


def deref(v):
    while isinstance(v, Ref):
        v = rd(v)
    return v


def dec_json(d, key='num', tag='t'):
    if is_sym(d.m):
        raise ModelError('rendering a symbolic decimal')
    return {tag: key, 'm': ('-0' if (d.m == 0 and d.src == 'negzero') else str(d.m)), 's': d.s}


def ast_json(v):
    v = deref(v)
    if not isinstance(v, Enum) or v.ty != 'ExprAST':
        raise ModelError('not an ExprAST: %r' % (v,))
    n = v.name
    f = v.f
    if n == 'Literal':
        l = f[0]
        if l.name == 'Number':
            return dec_json(l.f[0], 'num', 'k')
        if l.name == 'Bool':
            b = l.f[0]
            if is_sym(b):
                raise ModelError('symbolic bool literal')
            return {'k': 'bool', 'v': bool(b)}
        return {'k': 'str', 'hex': hexs(l.f[0])}
    if n == 'Unary':
        return {'k': 'unary', 'op': hexs(f[0]), 'a': ast_json(f[1])}
    if n == 'Binary':
        return {'k': 'binary', 'op': hexs(f[0]), 'l': ast_json(f[1]), 'r': ast_json(f[2])}
    if n == 'Postfix':
        return {'k': 'postfix', 'op': hexs(f[1]), 'a': ast_json(f[0])}
    if n == 'Ternary':
        return {'k': 'ternary', 'c': ast_json(f[0]), 'a': ast_json(f[1]), 'b': ast_json(f[2])}
    if n == 'Reference':
        return {'k': 'ref', 'name': hexs(f[0])}
    if n == 'Function':
        return {'k': 'call', 'name': hexs(f[0]), 'args': [ast_json(x) for x in f[1].items]}
    if n == 'List':
        return {'k': 'list', 'items': [ast_json(x) for x in f[0].items]}
    if n == 'Map':
        return {'k': 'map', 'items': [[ast_json(p.f[0]), ast_json(p.f[1])] for p in f[0].items]}
    if n == 'Stmt':
        return {'k': 'stmt', 'items': [ast_json(x) for x in f[0].items]}
    if n == 'None':
        return {'k': 'none'}
    raise ModelError('unknown ExprAST variant ' + n)


def value_json(v, model=None):
    """Value -> JSON; symbolic parts are evaluated under `model` (z3 model) when given"""
    v = deref(v)
    if not isinstance(v, Enum) or v.ty != 'Value':
        raise ModelError('not a Value: %r' % (v,))
    n = v.name
    if n == 'Number':
        d = v.f[0]
        m = d.m
        if is_sym(m):
            if model is None:
                raise ModelError('symbolic decimal without model')
            m = model.eval(m, model_completion=True).as_long()
        return {'t': 'num', 'm': ('-0' if (m == 0 and d.src == 'negzero') else str(m)), 's': d.s}
    if n == 'Bool':
        b = v.f[0]
        if is_sym(b):
            if model is None:
                raise ModelError('symbolic bool without model')
            b = z3.is_true(model.eval(b, model_completion=True))
        return {'t': 'bool', 'v': bool(b)}
    if n == 'String':
        s = deref(v.f[0])
        bs = []
        for x in s.b:
            if is_sym(x):
                if model is None:
                    raise ModelError('symbolic string without model')
                x = model.eval(x, model_completion=True).as_long()
            bs.append(x)
        return {'t': 'str', 'hex': bytes(bs).hex()}
    if n == 'List':
        return {'t': 'list', 'v': [value_json(x, model) for x in v.f[0].items]}
    if n == 'Map':
        return {'t': 'map', 'v': [[value_json(p.f[0], model), value_json(p.f[1], model)] for p in v.f[0].items]}
    if n == 'None':
        return {'t': 'none'}
    raise ModelError('unknown Value variant ' + n)


def value_from_json(j):
    t = j['t']
    if t == 'num':
        return Enum('Value', 1, 'Number', (Dec(int(j['m']), int(j['s']), 'negzero' if j['m'] == '-0' else None),))
    if t == 'bool':
        return Enum('Value', 2, 'Bool', (bool(j['v']),))
    if t == 'str':
        return Enum('Value', 0, 'String', (Str(tuple(bytes.fromhex(j['hex']))),))
    if t == 'list':
        return Enum('Value', 3, 'List', (Arr(tuple(value_from_json(x) for x in j['v']), 'vec'),))
    if t == 'map':
        return Enum('Value', 4, 'Map', (Arr(tuple(Agg(None, (value_from_json(k), value_from_json(v))) for k, v in j['v']), 'vec'),))
    if t == 'none':
        return Enum('Value', 5, 'None', ())
    raise ValueError(t)


def norm_num(j):
    """numeric normal form of a Value JSON (strip trailing zeros; -0 == 0) for numeric comparison"""
    if isinstance(j, dict):
        if j.get('t') == 'num' or j.get('k') == 'num':
            m = int(j['m'].replace('-0', '0') if j['m'] in ('-0',) else j['m'])
            s = int(j['s'])
            while s > 0 and m % 10 == 0:
                m //= 10
                s -= 1
            if m == 0:
                s = 0
            out = dict(j)
            out['m'] = str(m)
            out['s'] = s
            return out
        return {k: norm_num(v) for k, v in j.items()}
    if isinstance(j, list):
        return [norm_num(x) for x in j]
    return j


def error_variant(v):
    v = deref(v)
    if isinstance(v, Enum) and v.ty == 'Error':
        return v.name
    return repr(v)
