"""Conformance corpus: every input string of the repo's own tests (extracted from src/*.rs at run
time) plus /verif/corpus/*.txt is run concretely through the MIR interpreter *and* natively
through the replay binary; AST, expr(), describe(), re-parse, tokens, evaluation result and
panic/no-panic must agree.  A disagreement means the encoder (MIR semantics or a library model)
does not conform, and every E1 check then refuses to give a verdict (exit 2)."""
import glob
import json
import os
import re
import sys
import time

sys.path.insert(0, os.path.dirname(os.path.abspath(__file__)))
import buildcache
import replay
import render
import api
from engine import Engine
from values import *
from interp import Unsupported, ModelError
from models import OutsideModel


def rust_unescape(s):
    out = []
    i = 0
    while i < len(s):
        c = s[i]
        if c != '\\':
            out.append(c)
            i += 1
            continue
        i += 1
        c = s[i]
        if c == 'n':
            out.append('\n')
        elif c == 't':
            out.append('\t')
        elif c == 'r':
            out.append('\r')
        elif c == '0':
            out.append('\0')
        elif c in '\\"\'':
            out.append(c)
        elif c == 'u':
            k = s.index('}', i)
            out.append(chr(int(s[i + 2:k], 16)))
            i = k
        elif c == 'x':
            out.append(chr(int(s[i + 1:i + 3], 16)))
            i += 2
        elif c == '\n':
            while i + 1 < len(s) and s[i + 1] in ' \t\n':
                i += 1
        else:
            out.append(c)
        i += 1
    return ''.join(out)


def corpus_inputs(crate_dir):
    inputs = []
    seen = set()
    for p in sorted(glob.glob(os.path.join(crate_dir, 'src', '*.rs'))):
        text = open(p, encoding='utf-8').read()
        for m in re.finditer(r'#\[case\(\s*"((?:[^"\\]|\\.)*)"', text, re.S):
            s = rust_unescape(m.group(1))
            if s not in seen:
                seen.add(s)
                inputs.append(s)
        for m in re.finditer(r'let\s+input\s*=\s*"((?:[^"\\]|\\.)*)"', text, re.S):
            s = rust_unescape(m.group(1))
            if s not in seen:
                seen.add(s)
                inputs.append(s)
    for p in sorted(glob.glob(os.path.join(buildcache.VERIF, 'corpus', '*.txt'))):
        for line in open(p, encoding='utf-8'):
            line = line.rstrip('\n')
            if not line or line.startswith('#'):
                continue
            if line.startswith('hex:'):
                s = bytes.fromhex(line[4:]).decode('utf-8')
            else:
                s = rust_unescape(line)
            if s not in seen:
                seen.add(s)
                inputs.append(s)
    return inputs


STD_CTX = [
    ('d', {'t': 'num', 'm': '2', 's': 0}),
    ('b', {'t': 'bool', 'v': True}),
    ('s', {'t': 'str', 'hex': '78c3a9'}),
    ('l', {'t': 'list', 'v': [{'t': 'num', 'm': '15', 's': 1}, {'t': 'bool', 'v': False}]}),
]


def native_obs(art, inputs, profile='dev'):
    steps = []
    for s in inputs:
        h = replay.hx(s)
        steps.append({'op': 'parse', 'hex': h})
        steps.append({'op': 'tokenize', 'hex': h})
        steps.append({'op': 'ctx_new', 'ctx': 'c'})
        for n, v in STD_CTX:
            steps.append({'op': 'ctx_set_var', 'ctx': 'c', 'name': replay.hx(n), 'value': v})
        steps.append({'op': 'ctx_set_func', 'ctx': 'c', 'name': replay.hx('f'),
                      'handler': {'h': 'const', 'value': {'t': 'num', 'm': '3', 's': 0}, 'id': 'F'}})
        steps.append({'op': 'execute', 'hex': h, 'ctx': 'c'})
        steps.append({'op': 'ctx_dump', 'ctx': 'c'})
    binary = art.replay_dev if profile == 'dev' else art.replay_rel
    obs = replay.run(binary, steps, timeout=120)
    per = 5 + len(STD_CTX) + 0
    out = []
    stride = 2 + 1 + len(STD_CTX) + 1 + 2
    for i, s in enumerate(inputs):
        base = i * stride
        out.append({'parse': obs[base], 'tokens': obs[base + 1], 'exec': obs[base + stride - 2], 'ctx': obs[base + stride - 1]})
    return out


def sym_obs(it, s):
    """the same observations computed by the MIR interpreter (interpreter state is restored afterwards, also when the
    interpretation is abandoned with Unsupported / OutsideModel in the middle of a critical section)"""
    snap = {k: c.v for k, c in it.statics.items()}
    try:
        return _sym_obs(it, s)
    except BaseException:
        # abandoned in the middle (possibly inside a critical section): back to the state before this input
        for k, c in list(it.statics.items()):
            if k in snap:
                c.v = snap[k]
            else:
                del it.statics[k]
        raise


def _sym_obs(it, s):
    res = {}
    snap = {k: c.v for k, c in it.statics.items()}
    # parse / expr / describe / reparse
    p = api.parse(it, s)
    if p.kind == 'ok':
        o = {'kind': 'ok', 'ast': render.ast_json(p.value)}
        e = api.expr(it, p.value)
        if e.kind == 'ret':
            o['expr'] = render.hexs(e.value)
            rp = api.parse(it, e.value)
            if rp.kind == 'ok':
                e2 = api.expr(it, rp.value)
                o['reparse'] = {'kind': 'ok', 'ast': render.ast_json(rp.value),
                                'expr': render.hexs(e2.value) if e2.kind == 'ret' else {'kind': e2.kind}}
            elif rp.kind == 'err':
                o['reparse'] = {'kind': 'err', 'variant': render.error_variant(rp.value)}
            else:
                o['reparse'] = {'kind': rp.kind}
        else:
            o['expr'] = {'kind': e.kind}
            o['reparse'] = {'kind': 'skipped'}
        dsc = api.describe(it, p.value)
        o['describe'] = render.hexs(dsc.value) if dsc.kind == 'ret' else {'kind': dsc.kind}
        res['parse'] = o
    elif p.kind == 'err':
        res['parse'] = {'kind': 'err', 'variant': render.error_variant(p.value)}
    else:
        res['parse'] = {'kind': p.kind, 'msg': p.detail}
    # tokens
    t = api.tokenize(it, s)
    if t.kind == 'ok':
        toks = []
        raw = s.encode('utf-8')
        for tok in t.value:
            kind, payload, a, b = api.token_tuple(tok)
            if kind in ('Number', 'Bool'):
                hx = raw[a:b].hex()
            elif kind == 'Delim':
                hx = raw[a:b].hex()
            else:
                hx = render.hexs(payload)
            toks.append({'kind': kind, 'hex': hx, 'start': a, 'end': b})
        res['tokens'] = {'kind': 'ok', 'tokens': toks}
    elif t.kind == 'err':
        res['tokens'] = {'kind': 'err', 'variant': render.error_variant(t.value)}
    else:
        res['tokens'] = {'kind': t.kind, 'msg': t.detail}
    # execute on the standard context
    binds = [(n, ('var', render.value_from_json(v))) for n, v in STD_CTX]
    binds.append(('f', ('func', PyFn(lambda it_, a: Ok(api.V_num(3)), 'F'))))
    ctx = api.new_context(it, binds)
    x = api.execute(it, s, ctx)
    if x.kind == 'ok':
        res['exec'] = {'kind': 'ok', 'value': render.value_json(x.value)}
    elif x.kind == 'err':
        res['exec'] = {'kind': 'err', 'variant': render.error_variant(x.value)}
    else:
        res['exec'] = {'kind': x.kind, 'msg': x.detail}
    try:
        ents = []
        for k, b in api.ctx_entries(ctx):
            if b[0] == 'var':
                ents.append({'name': render.hexs(k), 'var': render.value_json(b[1])})
            else:
                ents.append({'name': render.hexs(k), 'func': True})
        ents.sort(key=lambda e: bytes.fromhex(e['name']))
        mx = api.ctx_mutex(ctx)
        if mx.poisoned:
            res['ctx'] = {'kind': 'poisoned'}
        elif mx.held is not None:
            res['ctx'] = {'kind': 'locked'}
        else:
            res['ctx'] = {'kind': 'ok', 'entries': ents}
    except Exception as e:
        res['ctx'] = {'kind': 'error', 'detail': str(e)}
    for k, c in it.statics.items():
        if k in snap:
            c.v = snap[k]
    return res


def _nz(j):
    return json.loads(json.dumps(j).replace('"m": "-0"', '"m": "0"'))


def compare(nat, sym):
    """-> list of difference descriptions (empty = conform); negative zero is identified with zero"""
    diffs = []

    def kind_of(o):
        return o.get('kind') if isinstance(o, dict) else 'ok'
    # parse
    pn, ps = nat['parse'], sym['parse']
    if pn['kind'] != ps['kind']:
        diffs.append('parse kind native=%s model=%s (%s)' % (pn['kind'], ps['kind'], ps.get('msg') or pn.get('msg')))
    elif pn['kind'] == 'ok':
        for key in ('ast', 'expr', 'describe'):
            a_, b_ = pn.get(key), ps.get(key)
            if isinstance(a_, dict) and isinstance(b_, dict) and 'kind' in a_ and 'kind' in b_ and key != 'ast':
                if a_['kind'] != b_['kind']:
                    diffs.append('parse.%s outcome differs: native=%s model=%s' % (key, a_['kind'], b_['kind']))
                continue
            if a_ != b_:
                diffs.append('parse.%s differs: native=%s model=%s' % (key, json.dumps(pn.get(key))[:300], json.dumps(ps.get(key))[:300]))
        rn, rs = pn.get('reparse', {}), ps.get('reparse', {})
        if rn.get('kind') != rs.get('kind'):
            diffs.append('reparse kind native=%s model=%s' % (rn.get('kind'), rs.get('kind')))
        elif rn.get('kind') == 'ok':
            if rn.get('ast') != rs.get('ast') or rn.get('expr') != rs.get('expr'):
                diffs.append('reparse result differs')
        elif rn.get('kind') == 'err' and rn.get('variant') != rs.get('variant'):
            diffs.append('reparse error variant native=%s model=%s' % (rn.get('variant'), rs.get('variant')))
    elif pn['kind'] == 'err' and pn.get('variant') != ps.get('variant'):
        diffs.append('parse error variant native=%s model=%s' % (pn.get('variant'), ps.get('variant')))
    # tokens
    tn, ts = nat['tokens'], sym['tokens']
    if tn['kind'] != ts['kind']:
        diffs.append('tokenize kind native=%s model=%s' % (tn['kind'], ts['kind']))
    elif tn['kind'] == 'ok' and tn['tokens'] != ts['tokens']:
        diffs.append('tokens differ: native=%s model=%s' % (json.dumps(tn['tokens'])[:300], json.dumps(ts['tokens'])[:300]))
    elif tn['kind'] == 'err' and tn.get('variant') != ts.get('variant'):
        diffs.append('tokenize error variant native=%s model=%s' % (tn.get('variant'), ts.get('variant')))
    # exec
    en, es = nat['exec'], sym['exec']
    if en['kind'] != es['kind']:
        diffs.append('exec kind native=%s model=%s (%s / %s)' % (en['kind'], es['kind'], en.get('msg'), es.get('msg')))
    elif en['kind'] == 'ok':
        a, b = en['value'], es['value']
        if a != b and render.norm_num(a) != render.norm_num(b):
            diffs.append('exec value native=%s model=%s' % (json.dumps(a), json.dumps(b)))
    elif en['kind'] == 'err' and en.get('variant') != es.get('variant'):
        diffs.append('exec error variant native=%s model=%s' % (en.get('variant'), es.get('variant')))
    cn, cs = nat['ctx'], sym['ctx']
    if cn.get('kind') != cs.get('kind'):
        diffs.append('ctx state native=%s model=%s' % (cn.get('kind'), cs.get('kind')))
    elif cn.get('kind') == 'ok' and render.norm_num(cn['entries']) != render.norm_num(cs['entries']):
        diffs.append('ctx entries native=%s model=%s' % (json.dumps(cn['entries'])[:300], json.dumps(cs['entries'])[:300]))
    return diffs


def run_conformance(art, profile='dev', verbose=False, limit=None):
    eng = Engine(art.crate, art.mir(profile), profile)
    inputs = corpus_inputs(art.crate)
    if limit:
        inputs = inputs[:limit]
    nat = native_obs(art, inputs, profile)
    it = eng.new_interp()
    bad = []
    unsupported = []
    outside = []
    for s, n in zip(inputs, nat):
        try:
            it.steps = 0
            so = sym_obs(it, s)
        except OutsideModel as e:
            outside.append((s, str(e)))
            it.stack.clear()
            continue
        except Unsupported as e:
            unsupported.append((s, '%s: %s' % (type(e).__name__, e)))
            it.stack.clear()
            continue
        except ModelError as e:
            unsupported.append((s, 'ModelError: %s' % e))
            it.stack.clear()
            continue
        d = compare(n, so)
        if d:
            bad.append((s, d))
        elif verbose:
            print('ok   %r' % s)
    return {'inputs': len(inputs), 'disagreements': bad, 'unsupported': unsupported, 'outside': outside,
            'models_used': sorted(it.models_used)}


if __name__ == '__main__':
    t0 = time.time()
    art = buildcache.ensure()
    prof = sys.argv[1] if len(sys.argv) > 1 else 'dev'
    r = run_conformance(art, prof, verbose='-v' in sys.argv)
    print('conformance[%s]: %d inputs, %d disagreements, %d unsupported, %d outside the model (skipped), %.1fs' % (
        prof, r['inputs'], len(r['disagreements']), len(r['unsupported']), len(r['outside']), time.time() - t0))
    for s, d in r['disagreements']:
        print('DISAGREE %r' % s)
        for x in d:
            print('    ', x)
    for s, d in r['unsupported']:
        print('UNSUPPORTED %r: %s' % (s, d))
    sys.exit(0 if not r['disagreements'] and not r['unsupported'] else 2)
