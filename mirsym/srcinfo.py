"""Item declarations read from the crate's src/*.rs (re-read on every run):
enum variant order, struct field order, and what each `<impl at FILE:L:C: ..>` refers to.
MIR text identifies fields by index and impls by source span only, so these tables are
needed to interpret aggregates (`Token::Operator(..)`, `Tokenizer { input: .. }`) and to
resolve call targets (`<Value as From<bool>>::from`)."""
import os
import re

BUILTIN_ENUMS = {
    'Option': ['None', 'Some'],
    'Result': ['Ok', 'Err'],
    'ControlFlow': ['Continue', 'Break'],
    'Ordering': ['Less', 'Equal', 'Greater'],
}
BUILTIN_STRUCTS = {
    'Range': ['start', 'end'],
}


def _strip_comments(text):
    # remove // comments and /* */ blocks but keep line structure
    out = []
    for line in text.split('\n'):
        # naive: cut at // when not inside a string
        i = 0
        n = len(line)
        in_str = False
        cut = n
        while i < n:
            c = line[i]
            if in_str:
                if c == '\\':
                    i += 2
                    continue
                if c == '"':
                    in_str = False
            else:
                if c == '"':
                    in_str = True
                elif c == "'" and i + 2 < n and (line[i + 2] == "'" or (line[i + 1] == '\\' and i + 3 < n and line[i + 3] == "'")):
                    i += 4 if line[i + 1] == '\\' else 3
                    continue
                elif c == '/' and i + 1 < n and line[i + 1] == '/':
                    cut = i
                    break
            i += 1
        out.append(line[:cut])
    return '\n'.join(out)


def _last_ident(t):
    t = t.strip()
    t = re.sub(r"<.*$", '', t, flags=re.S)  # drop generics
    return t.split('::')[-1].strip()


class SrcInfo:
    def __init__(self, crate_dir):
        self.crate_dir = crate_dir
        self.files = {}
        self.enums = dict((k, list(v)) for k, v in BUILTIN_ENUMS.items())
        self.structs = dict((k, list(v)) for k, v in BUILTIN_STRUCTS.items())
        self.crate_types = set()
        src = os.path.join(crate_dir, 'src')
        for root, _, names in os.walk(src):
            for nm in names:
                if nm.endswith('.rs'):
                    p = os.path.join(root, nm)
                    rel = os.path.relpath(p, crate_dir)
                    with open(p, encoding='utf-8') as f:
                        self.files[rel] = f.read()
        for rel, text in self.files.items():
            self._scan_items(_strip_comments(text))

    def _scan_items(self, text):
        for m in re.finditer(r'\benum\s+([A-Za-z_0-9]+)\s*(<[^{]*>)?\s*\{', text):
            name = m.group(1)
            body = self._braced(text, m.end() - 1)
            variants = []
            for part in self._split_top(body):
                part = part.strip()
                part = re.sub(r'^(#\[[^\]]*\]\s*)+', '', part).strip()
                vm = re.match(r'([A-Za-z_0-9]+)', part)
                if vm:
                    variants.append(vm.group(1))
            self.enums[name] = variants
            self.crate_types.add(name)
        for m in re.finditer(r'\bstruct\s+([A-Za-z_0-9]+)\s*(<[^{(;]*>)?\s*([{(;])', text):
            name = m.group(1)
            self.crate_types.add(name)
            if m.group(3) == '{':
                body = self._braced(text, m.end() - 1)
                fields = []
                for part in self._split_top(body):
                    part = re.sub(r'^(\s*#\[[^\]]*\]\s*)+', '', part.strip()).strip()
                    fm = re.match(r'(?:pub(?:\([a-z]+\))?\s+)?([A-Za-z_0-9]+)\s*:', part)
                    if fm:
                        fields.append(fm.group(1))
                self.structs[name] = fields
            else:
                self.structs[name] = None   # tuple / unit struct: positional

    @staticmethod
    def _braced(text, i):
        depth = 0
        j = i
        while j < len(text):
            c = text[j]
            if c == '{':
                depth += 1
            elif c == '}':
                depth -= 1
                if depth == 0:
                    return text[i + 1:j]
            j += 1
        return text[i + 1:]

    @staticmethod
    def _split_top(body):
        out = []
        depth = 0
        cur = []
        for c in body:
            if c in '({[<':
                depth += 1
            elif c in ')}]>':
                depth -= 1
            if c == ',' and depth == 0:
                out.append(''.join(cur))
                cur = []
            else:
                cur.append(c)
        if ''.join(cur).strip():
            out.append(''.join(cur))
        return out

    def impl_at(self, rel, line, col):
        """Return (type_name, trait_name or None, trait_args or None) for `<impl at rel:line:col: ..>`."""
        text = self.files.get(rel)
        if text is None:
            return None
        lines = text.split('\n')
        if line - 1 >= len(lines):
            return None
        s = lines[line - 1][col - 1:]
        if s.startswith('impl'):
            # join following lines until '{'
            k = line - 1
            hdr = s
            while '{' not in hdr and k + 1 < len(lines):
                k += 1
                hdr += ' ' + lines[k]
            hdr = hdr.split('{')[0]
            hdr = re.sub(r'^impl\s*(<[^>]*>)?\s*', '', hdr).strip()
            hdr = re.sub(r'\bwhere\b.*$', '', hdr).strip()
            m = re.match(r'(.*)\s+for\s+(.*)$', hdr)
            if m:
                tr = m.group(1).strip()
                ty = m.group(2).strip()
                tm = re.match(r'([A-Za-z_0-9:]+)\s*(?:<(.*)>)?$', tr, re.S)
                tname = tm.group(1).split('::')[-1] if tm else tr
                targs = tm.group(2) if tm else None
                return (_last_ident(ty), tname, targs)
            return (_last_ident(hdr), None, None)
        # derive: s starts with the trait name inside #[derive(...)]
        m = re.match(r'([A-Za-z_0-9]+)', s)
        if not m:
            return None
        trait = m.group(1)
        rest = '\n'.join(lines[line - 1:line + 12])
        im = re.search(r'\b(?:enum|struct)\s+([A-Za-z_0-9]+)', rest)
        if not im:
            return None
        return (im.group(1), trait, None)
