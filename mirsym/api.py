"""Harness-side API over the interpreter: call the crate's functions by MIR path and build /
inspect crate values (Context, Value, ExprAST, tokens)."""
import z3
from values import *
from interp import Unsupported, Unwind, Deadlock, StepBudget, Abort, ModelError
from models import OutsideModel
import render


class Outcome:
    """result of one engine call: kind in ok|err|panic|deadlock|budget|abort|unsupported|outside"""
    __slots__ = ('kind', 'value', 'detail', 'where')

    def __init__(self, kind, value=None, detail=None, where=None):
        self.kind = kind
        self.value = value
        self.detail = detail
        self.where = where

    def __repr__(self):
        return 'Outcome(%s, %r, %r)' % (self.kind, self.value if self.kind in ('ok', 'err') else None, self.detail)


def guarded(it, fn, *a):
    """run fn(*a) and classify how it ended.  Unsupported/OutsideModel propagate (path-level)."""
    depth = len(it.stack)
    try:
        return Outcome('ret', fn(*a))
    except Unwind as u:
        del it.stack[depth:]
        return Outcome('panic', None, u.msg, u.where)
    except Deadlock as d:
        del it.stack[depth:]
        return Outcome('deadlock', None, d.what, d.where)
    except StepBudget as b:
        del it.stack[depth:]
        return Outcome('budget', None, str(b))
    except Abort as b:
        del it.stack[depth:]
        return Outcome('abort', None, str(b))
    except RecursionError:
        del it.stack[depth:]
        return Outcome('budget', None, 'python recursion limit (deep recursion)')


def as_result(o):
    """Outcome('ret', Result enum) -> Outcome('ok', v) / Outcome('err', e)"""
    if o.kind != 'ret':
        return o
    r = o.value
    if isinstance(r, Enum) and r.ty == 'Result':
        return Outcome('ok' if r.name == 'Ok' else 'err', r.f[0])
    return Outcome('ok', r)


def parse(it, s):
    if not isinstance(s, Str):
        s = mkstr(s)
    return as_result(guarded(it, it.call, 'parse_expression', [s]))


def expr(it, ast):
    return guarded(it, it.call, 'parser::ExprAST::expr', [Ref(Cell(ast, 'ast'), ())])


def describe(it, ast):
    return guarded(it, it.call, 'parser::ExprAST::describe', [Ref(Cell(ast, 'ast'), ())])


def new_context(it, bindings=()):
    """bindings: iterable of (name, ('var', Value) | ('func', PyFn))"""
    ctx = guarded(it, it.call, 'context::Context::new', [])
    if ctx.kind != 'ret':
        raise ModelError('Context::new failed: %r' % (ctx,))
    cell = Cell(ctx.value, 'ctx')
    for name, b in bindings:
        ctx_set(it, cell, name, b)
    return cell


def ctx_set(it, cell, name, b):
    nm = name if isinstance(name, Str) else mkstr(name)
    if b[0] == 'var':
        it.call('context::Context::set_variable', [Ref(cell, ()), nm, b[1]])
    else:
        it.call('context::Context::set_func', [Ref(cell, ()), nm, ArcV(Cell(b[1], 'ctxfn'))])


def ctx_entries(cell):
    """-> list of (name Str, ('var', Value) | ('func', callable)) in insertion order; raises if locked/poisoned"""
    ctx = cell.v
    arc = ctx.f[0]
    m = arc.cell.v
    out = []
    for k, v in m.data.items:
        if v.name == 'Variable':
            out.append((k, ('var', v.f[0])))
        else:
            out.append((k, ('func', v.f[0])))
    return out


def ctx_mutex(cell):
    return cell.v.f[0].cell.v


def exec_ast(it, ast, ctx_cell):
    return as_result(guarded(it, it.call, 'parser::ExprAST::exec', [Ref(Cell(ast, 'ast'), ()), Ref(ctx_cell, ())]))


def execute(it, s, ctx_cell):
    """the public execute(text, ctx), called through its own MIR body (the Context is an Arc handle: passing its value
    shares the map, so the caller's cell still sees the bindings afterwards)"""
    if not isinstance(s, Str):
        s = mkstr(s)
    try:
        it.resolve('execute')
    except Exception:
        p = parse(it, s)
        if p.kind != 'ok':
            return p
        return exec_ast(it, p.value, ctx_cell)
    return as_result(guarded(it, it.call, 'execute', [s, ctx_cell.v]))


def V_num(m, s=0):
    return Enum('Value', 1, 'Number', (Dec(m, s),))


def V_bool(b):
    return Enum('Value', 2, 'Bool', (b,))


def V_str(s):
    return Enum('Value', 0, 'String', (s if isinstance(s, Str) else mkstr(s),))


def V_list(items):
    return Enum('Value', 3, 'List', (Arr(tuple(items), 'vec'),))


def V_map(pairs):
    return Enum('Value', 4, 'Map', (Arr(tuple(Agg(None, (k, v)) for k, v in pairs), 'vec'),))


V_NONE = Enum('Value', 5, 'None', ())


def tokenize(it, s):
    """drive the private Tokenizer to EOF: -> Outcome('ok', [token Enum...]) | err | panic"""
    if not isinstance(s, Str):
        s = mkstr(s)

    def go():
        it.call('init::init', [])
        tk = it.call("Tokenizer::<'_>::new", [s])
        cell = Cell(tk, 'tokenizer')
        toks = []
        while True:
            r = it.call("Tokenizer::<'_>::next", [Ref(cell, ())])
            if r.name == 'Err':
                return r
            t = r.f[0]
            if t.name == 'EOF':
                return Ok(toks)
            toks.append(t)
            if len(toks) > 10000:
                raise StepBudget('tokenizer produced >10000 tokens')
    return as_result(guarded(it, go))


def token_tuple(t):
    """Token enum -> (kind, payload, start, end)"""
    if t.name == 'EOF':
        return ('EOF', None, None, None)
    span = t.f[1]
    return (t.name, t.f[0], span.f[0], span.f[1])
