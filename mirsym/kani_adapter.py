"""Run the E2 Kani kernels (/verif/kani/run_kani.py) for one property group and normalise the result."""
import json
import os
import subprocess
import sys
import tempfile

VERIF = os.path.dirname(os.path.dirname(os.path.abspath(__file__)))


def run_group(group, tier='quick', repo=None):
    out = tempfile.NamedTemporaryFile(prefix='kani-%s-' % group, suffix='.json', dir='/var/tmp', delete=False)
    out.close()
    cmd = [sys.executable.replace('python3-vt', 'python3') if False else 'python3', os.path.join(VERIF, 'kani', 'run_kani.py'),
           '--group', group, '--tier', tier, '--out', out.name]
    if repo:
        cmd += ['--repo', repo]
    env = dict(os.environ)
    env['CARGO_NET_OFFLINE'] = 'true'
    p = subprocess.run(cmd, stdout=subprocess.PIPE, stderr=subprocess.STDOUT, env=env)
    try:
        with open(out.name) as f:
            res = json.load(f)
    except Exception:
        res = None
    finally:
        try:
            os.unlink(out.name)
        except OSError:
            pass
    if res is None or p.returncode != 0:
        return {'ok': False, 'detail': p.stdout.decode('utf-8', 'replace')[-1500:], 'harnesses': []}
    res['ok'] = True
    return res


def summarize(res):
    """compact evidence entry"""
    return {'kani_version': res.get('kani_version'), 'wall_s': res.get('wall_s'),
            'harnesses': [{'name': h['name'], 'verdict': h['verdict'], 'time_s': h.get('time_s'), 'unwind': h.get('unwind'),
                           'stubs': h.get('stubs'), 'covers': h.get('covers'), 'expected': h.get('expected'),
                           'cex': h.get('cex'), 'failed_checks': [c.get('desc') for c in h.get('failed_checks', [])]}
                          for h in res.get('harnesses', [])],
            'dropped': res.get('dropped', [])}
