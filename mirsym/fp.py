"""IEEE-754 binary32/binary64 for the MIR interpreter.

Concrete values are Python floats (binary64; binary32 values are kept rounded to binary32), symbolic values are z3
floating-point terms of the matching sort.  Rust semantics: round-to-nearest-even arithmetic, saturating float->int
`as` casts (NaN -> 0), `round()` = half away from zero.
"""
import math
import struct
from fractions import Fraction

import z3

RNE = z3.RNE()
SORTS = {'f32': z3.Float32(), 'f64': z3.Float64()}


def is_fp(x):
    return isinstance(x, float) or (isinstance(x, z3.ExprRef) and z3.is_fp(x))


def r32(x):
    """round a Python float to binary32 (ties to even), keeping it as a Python float"""
    if x != x or x in (math.inf, -math.inf):
        return x
    try:
        return struct.unpack('<f', struct.pack('<f', x))[0]
    except OverflowError:
        return math.copysign(math.inf, x)


def rnd(x, ty):
    return r32(x) if ty == 'f32' else x


def const(text, ty):
    t = text.strip()
    if t in ('NaN', 'nan'):
        return math.nan
    if t in ('inf', '+inf'):
        return math.inf
    if t == '-inf':
        return -math.inf
    return rnd(float(t), ty)


def to_z3(x, ty):
    if isinstance(x, float):
        if x != x:
            return z3.fpNaN(SORTS[ty])
        if x == math.inf:
            return z3.fpPlusInfinity(SORTS[ty])
        if x == -math.inf:
            return z3.fpMinusInfinity(SORTS[ty])
        if x == 0.0 and math.copysign(1.0, x) < 0:
            return z3.fpMinusZero(SORTS[ty])
        return z3.FPVal(x, SORTS[ty])
    return x


def from_int(n, ty):
    """exact integer -> nearest float (ties to even), also for binary32 (no double rounding)"""
    if ty == 'f64':
        try:
            return float(n)         # CPython rounds correctly (half to even)
        except OverflowError:
            return math.copysign(math.inf, n)
    # binary32: 24-bit significand
    if n == 0:
        return 0.0
    s = -1 if n < 0 else 1
    a = abs(n)
    bl = a.bit_length()
    if bl <= 24:
        return float(n)
    sh = bl - 24
    q, r = a >> sh, a & ((1 << sh) - 1)
    half = 1 << (sh - 1)
    if r > half or (r == half and (q & 1)):
        q += 1
    v = q << sh
    if v.bit_length() > 128:
        return s * math.inf
    return r32(s * float(v))


def binop(op, a, b, ty, simp):
    if isinstance(a, float) and isinstance(b, float):
        if op == 'Add':
            return rnd(a + b, ty)
        if op == 'Sub':
            return rnd(a - b, ty)
        if op == 'Mul':
            return rnd(a * b, ty)
        if op == 'Div':
            if b == 0.0:
                if a != a or a == 0.0:
                    return math.nan
                return math.copysign(math.inf, a) * math.copysign(1.0, b)
            return rnd(a / b, ty)
        if op == 'Rem':
            if b == 0.0 or a in (math.inf, -math.inf) or a != a or b != b:
                return math.nan
            return rnd(math.fmod(a, b), ty)
        if op == 'Eq':
            return a == b
        if op == 'Ne':
            return a != b
        if op == 'Lt':
            return a < b
        if op == 'Le':
            return a <= b
        if op == 'Gt':
            return a > b
        if op == 'Ge':
            return a >= b
        raise NotImplementedError('float binop ' + op)
    A, B = to_z3(a, ty), to_z3(b, ty)
    if op == 'Add':
        return simp(z3.fpAdd(RNE, A, B))
    if op == 'Sub':
        return simp(z3.fpSub(RNE, A, B))
    if op == 'Mul':
        return simp(z3.fpMul(RNE, A, B))
    if op == 'Div':
        return simp(z3.fpDiv(RNE, A, B))
    if op == 'Rem':
        raise NotImplementedError('symbolic float remainder')
    if op == 'Eq':
        return simp(z3.fpEQ(A, B))
    if op == 'Ne':
        return simp(z3.Not(z3.fpEQ(A, B)))
    if op == 'Lt':
        return simp(z3.fpLT(A, B))
    if op == 'Le':
        return simp(z3.fpLEQ(A, B))
    if op == 'Gt':
        return simp(z3.fpGT(A, B))
    if op == 'Ge':
        return simp(z3.fpGEQ(A, B))
    raise NotImplementedError('float binop ' + op)


def neg(a, ty, simp):
    if isinstance(a, float):
        return -a
    return simp(z3.fpNeg(a))


def int_to_float(v, w, signed, ty, simp):
    if not isinstance(v, z3.ExprRef):
        return from_int(int(v), ty)
    return simp(z3.fpSignedToFP(RNE, v, SORTS[ty]) if signed else z3.fpUnsignedToFP(RNE, v, SORTS[ty]))


def float_to_int(v, w, signed, ty, simp):
    """Rust `as`: NaN -> 0, saturating, truncation toward zero"""
    lo = -(1 << (w - 1)) if signed else 0
    hi = (1 << (w - 1)) - 1 if signed else (1 << w) - 1
    if isinstance(v, float):
        if v != v:
            return 0
        if v == math.inf:
            return hi
        if v == -math.inf:
            return lo
        t = int(v)          # truncates toward zero
        return max(lo, min(hi, t))
    S = SORTS[ty]
    # bounds as floats: hi+1 = 2^(w-1) or 2^w is exactly representable; lo likewise
    top = z3.FPVal(float(hi + 1), S)
    bot = z3.FPVal(float(lo), S)
    conv = z3.fpToSBV(z3.RTZ(), v, z3.BitVecSort(w)) if signed else z3.fpToUBV(z3.RTZ(), v, z3.BitVecSort(w))
    return simp(z3.If(z3.fpIsNaN(v), z3.BitVecVal(0, w),
                      z3.If(z3.fpGEQ(v, top), z3.BitVecVal(hi, w),
                            z3.If(z3.fpLEQ(v, bot) if signed else z3.fpLT(v, z3.FPVal(0.0, S)), z3.BitVecVal(lo, w), conv))))


def float_to_float(v, fromty, toty, simp):
    if isinstance(v, float):
        return rnd(v, toty)
    return simp(z3.fpFPToFP(RNE, v, SORTS[toty]))


def is_integral_term(v):
    """syntactic: a float term that is certainly a whole number or non-finite (conversion of an integer, a rounding, or
    the negation / absolute value of such a term) — lets fract()/trunc() of converted integers fold without a query"""
    if not isinstance(v, z3.ExprRef) or not z3.is_fp(v):
        return False
    k = v.decl().kind()
    if k in (z3.Z3_OP_FPA_TO_FP_UNSIGNED, z3.Z3_OP_FPA_ROUND_TO_INTEGRAL):
        return True
    if k == z3.Z3_OP_FPA_TO_FP:
        ch = v.children()
        return len(ch) == 2 and z3.is_bv(ch[1])       # (rm, bit-vector): signed integer conversion
    if k in (z3.Z3_OP_FPA_NEG, z3.Z3_OP_FPA_ABS):
        return is_integral_term(v.children()[0])
    return False


def round_to_integral(v, mode, ty, simp):
    """mode: 'trunc' | 'floor' | 'ceil' | 'round' (half away from zero) | 'even'"""
    if is_integral_term(v):
        return v
    if isinstance(v, float):
        if v != v or v in (math.inf, -math.inf):
            return v
        if mode == 'trunc':
            r = float(math.trunc(v))
        elif mode == 'floor':
            r = float(math.floor(v))
        elif mode == 'ceil':
            r = float(math.ceil(v))
        elif mode == 'even':
            r = float(round(v))
        else:
            r = float(math.floor(abs(v) + 0.5)) if abs(v) < 4503599627370496.0 else abs(v)
            # floor(|v| + 0.5) can be off by one when |v| + 0.5 rounds up: correct it
            if r - abs(v) > 0.5:
                r -= 1.0
            r = math.copysign(r, v)
        return math.copysign(r, v) if r == 0.0 else r
    rm = {'trunc': z3.RTZ(), 'floor': z3.RTN(), 'ceil': z3.RTP(), 'round': z3.RNA(), 'even': z3.RNE()}[mode]
    return simp(z3.fpRoundToIntegral(rm, v))


def powi(a, n, ty):
    """compiler-rt __powidf2 / __powisf2: repeated squaring with the intermediate roundings of the type"""
    if not isinstance(a, float) or not isinstance(n, int):
        raise NotImplementedError('symbolic powi')
    recip = n < 0
    b = abs(n)
    r = 1.0
    while True:
        if b & 1:
            r = rnd(r * a, ty)
        b //= 2
        if b == 0:
            break
        a = rnd(a * a, ty)
    if recip:
        return rnd(1.0 / r, ty) if r != 0.0 else math.copysign(math.inf, r)
    return r
