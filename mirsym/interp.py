"""MIR interpreter (concrete + symbolic).  See DESIGN.md section 2."""
import re
import sys
import z3
import fp

from mirparse import INT_TYPES, split_top, MirParseError
from values import *

sys.setrecursionlimit(200000)


class Unsupported(Exception):
    """construct or callee not modelled -> path outcome Unsupported -> check INCONCLUSIVE"""


class Unwind(Exception):
    """a Rust panic travelling up the MIR call stack"""

    def __init__(self, msg, where=None, kind='panic'):
        Exception.__init__(self, msg)
        self.msg = msg
        self.where = where or []
        self.kind = kind


class Deadlock(Exception):
    def __init__(self, what, where=None):
        Exception.__init__(self, what)
        self.what = what
        self.where = where or []


class StepBudget(Exception):
    pass


class Abort(Exception):
    """process abort (panic in cleanup, unwind terminate)"""


def norm_int(v, w, signed):
    v &= (1 << w) - 1
    if signed and (v >> (w - 1)):
        v -= (1 << w)
    return v


_BVV = {}


def BVV(c, w):
    k = (c, w)
    r = _BVV.get(k)
    if r is None:
        r = z3.BitVecVal(c, w)
        if len(_BVV) < 200000:
            _BVV[k] = r
    return r


def to_bv(v, w):
    if is_sym(v):
        if z3.is_bool(v):
            return z3.If(v, z3.BitVecVal(1, w), z3.BitVecVal(0, w))
        if v.size() != w:
            raise ModelError('bitvector width %d where %d expected: %s' % (v.size(), w, v))
        return v
    if isinstance(v, bool):
        v = int(v)
    return BVV(v, w)


def to_bool(v):
    if is_sym(v):
        return v
    return z3.BoolVal(bool(v))


def simp(e):
    """simplify a z3 term; return Python int/bool when it became a literal"""
    if not is_sym(e):
        return e
    e = z3.simplify(e)
    if z3.is_true(e):
        return True
    if z3.is_false(e):
        return False
    if z3.is_bv_value(e):
        return e.as_long()
    return e


def path_segments(path):
    """'std::result::Result::<A, B>::Ok' -> ['std','result','Result','Ok']"""
    segs = [s for s in split_top(path, '::') if not s.startswith('<')]
    out = []
    for s in segs:
        s = re.sub(r'<.*$', '', s, flags=re.S).strip()
        if s:
            out.append(s)
    return out


_RANGE_CACHE = {}


def bv_range(e, depth=0):
    """(lo, hi): sound bounds on the unsigned value of a bit-vector term (full range when nothing better is known)"""
    w = e.size()
    full = (0, (1 << w) - 1)
    if z3.is_bv_value(e):
        v = e.as_long()
        return (v, v)
    if depth > 400:
        return full
    key = e.get_id()
    hit = _RANGE_CACHE.get(key)
    if hit is not None and hit[0].eq(e):
        return hit[1]
    k = e.decl().kind()
    ch = e.children()
    r = full
    if k == z3.Z3_OP_CONCAT:
        lo = hi = 0
        for c in ch:
            cl, chh = bv_range(c, depth + 1)
            lo = (lo << c.size()) + cl
            hi = (hi << c.size()) + chh
        r = (lo, hi)
    elif k == z3.Z3_OP_ZERO_EXT:
        r = bv_range(ch[0], depth + 1)
    elif k == z3.Z3_OP_SIGN_EXT:
        a = bv_range(ch[0], depth + 1)
        if a[1] < (1 << (ch[0].size() - 1)):
            r = a
    elif k == z3.Z3_OP_BADD:
        lo = hi = 0
        for c in ch:
            cl, chh = bv_range(c, depth + 1)
            lo += cl
            hi += chh
        if hi <= full[1]:
            r = (lo, hi)
    elif k == z3.Z3_OP_BMUL:
        lo = hi = 1
        for c in ch:
            cl, chh = bv_range(c, depth + 1)
            lo *= cl
            hi *= chh
        if hi <= full[1]:
            r = (lo, hi)
    elif k == z3.Z3_OP_EXTRACT:
        hi_i, lo_i = e.params()
        a = bv_range(ch[0], depth + 1)
        if lo_i == 0 and a[1] < (1 << (hi_i + 1)):
            r = a
    elif k == z3.Z3_OP_ITE:
        a, b = bv_range(ch[1], depth + 1), bv_range(ch[2], depth + 1)
        r = (min(a[0], b[0]), max(a[1], b[1]))
    elif k == z3.Z3_OP_BAND:
        r = (0, min(bv_range(c, depth + 1)[1] for c in ch))
    elif k == z3.Z3_OP_BUREM and len(ch) == 2:
        b = bv_range(ch[1], depth + 1)
        if b[0] > 0:
            r = (0, b[1] - 1)
    if len(_RANGE_CACHE) > 200000:
        _RANGE_CACHE.clear()
    _RANGE_CACHE[key] = (e, r)
    return r


class Interp:
    def __init__(self, mir, src):
        self.mir = mir
        self.src = src
        self.x = None                 # exploration context (symbolic decisions); None = concrete only
        self.statics = {}             # static body name -> Cell
        self.promoted_cache = {}
        self.resolve_cache = {}
        self.models = {}              # filled by models.install
        self.model_patterns = []      # (regex, fn)
        self.steps = 0
        self.step_limit = 5_000_000
        self.stack = []
        self.track_depth = False
        self.max_depth = 0
        self.max_stack = []
        self.thread = 0
        self.models_used = set()
        self.bodies_used = set()
        self.on_call = None           # optional observer(callee_name, body, args) / used for token logs
        self.on_return = None
        self.watch = {}               # body name -> callback(args, result)
        self.sched = None             # thread scheduler (C13) or None
        self.profile = 'dev'          # 'dev' (overflow-checks on) | 'release'
        self._index()

    # ------------------------------------------------------------------ indexing crate definitions
    def _index(self):
        self.by_method = {}     # method -> [(body, impl_type, impl_trait, trait_args)]
        self.free_fns = {}      # full name -> body
        self.closure_bodies = {}  # '{closure@...}' -> body
        for name, b in self.mir.bodies.items():
            if b.kind != 'fn':
                continue
            m = re.match(r'(?:(.*)::)?<impl at ([^:>]+):(\d+):(\d+): \d+:\d+>::(.*?)(?:#\d+)?$', name)
            if m:
                rest = m.group(5)
                info = self.src.impl_at(m.group(2), int(m.group(3)), int(m.group(4)))
                if '::' not in rest and info is not None:
                    self.by_method.setdefault(rest, []).append((b, info[0], info[1], info[2]))
                b_impl = info
            if '{closure#' in name:
                if b.params:
                    t = b.params[0][1]
                    cm = re.search(r'\{closure@[^}]*\}', t)
                    if cm:
                        self.closure_bodies[cm.group(0)] = b
                continue
            if not m:
                self.free_fns[name] = b

    def _norm_ty(self, t):
        t = t.strip()
        t = re.sub(r"'[A-Za-z_0-9]+\s*", '', t)
        t = re.sub(r'\b(?:[a-z_0-9]+::)+', '', t)   # drop module paths
        t = t.replace(' ', '')
        return t

    def resolve(self, callee):
        r = self.resolve_cache.get(callee)
        if r is not None:
            return r
        r = self._resolve(callee)
        self.resolve_cache[callee] = r
        return r

    def _resolve(self, callee):
        c = callee.strip()
        # trait-qualified:  <Self as Trait<Args>>::method[::<T>]
        if c.startswith('<'):
            from mirparse import mask_literals, match_paren
            # find matching '>' of the leading '<' (angle aware)
            depth = 0
            end = None
            i = 0
            while i < len(c):
                ch = c[i]
                if ch == '<':
                    depth += 1
                elif ch == '>' and not (i > 0 and c[i - 1] in '-='):
                    depth -= 1
                    if depth == 0:
                        end = i
                        break
                i += 1
            inner = c[1:end]
            tail = c[end + 1:]
            tm = re.match(r'::([A-Za-z_0-9]+)', tail)
            method = tm.group(1) if tm else None
            parts = split_top(inner, ' as ')
            if len(parts) == 2 and method:
                selfty, trait = parts
                tname = re.sub(r'<.*$', '', trait, flags=re.S).split('::')[-1].strip()
                targs = None
                am = re.match(r'[^<]*<(.*)>$', trait, re.S)
                if am:
                    targs = am.group(1)
                st = selfty.strip()
                if not st.startswith(('&', '*', '(', '[', 'dyn ')):
                    base = re.sub(r'<.*$', '', st, flags=re.S).split('::')[-1].strip()
                    if base in self.src.crate_types:
                        cands = [x for x in self.by_method.get(method, []) if x[1] == base and x[2] == tname]
                        if len(cands) > 1 and targs is not None:
                            want = self._norm_ty(targs)
                            c2 = [x for x in cands if x[0].params and self._norm_ty(x[0].params[0][1]) == want]
                            if c2:
                                cands = c2
                        if len(cands) == 1:
                            return ('body', cands[0][0])
                        if len(cands) > 1:
                            raise Unsupported('ambiguous trait call %s' % callee)
        else:
            segs = path_segments(c)
            if segs:
                method = segs[-1]
                if len(segs) >= 2 and segs[-2] in self.src.crate_types:
                    ty = segs[-2]
                    cands = [x for x in self.by_method.get(method, []) if x[1] == ty and x[2] is None]
                    if len(cands) == 1:
                        return ('body', cands[0][0])
                    if len(cands) > 1:
                        raise Unsupported('ambiguous inherent call %s' % callee)
                # free function: exact or suffix match
                joined = '::'.join(segs)
                cands = [b for n, b in self.free_fns.items()
                         if n == joined]
                if not cands:
                    cands = [b for n, b in self.free_fns.items()
                             if n.endswith('::' + joined) or joined.endswith('::' + n)]
                if len(cands) == 1:
                    return ('body', cands[0])
                if len(cands) > 1:
                    # prefer the longest name match
                    ex = [b for b in cands if b.name == joined]
                    if len(ex) == 1:
                        return ('body', ex[0])
                    raise Unsupported('ambiguous free fn %s' % callee)
        # library model
        c = re.sub(r'rust_decimal::[a-z_:]*<impl rust_decimal::Decimal>::', 'rust_decimal::Decimal::', c)
        fn = self.models.get(c)
        if fn is not None:
            return ('model', fn)
        for rx, fn in self.model_patterns:
            if rx.match(c):
                return ('model', fn)
        return ('missing', c)

    # ------------------------------------------------------------------ statics / consts
    def static_cell(self, alloc_name):
        a = self.mir.allocs.get(alloc_name)
        if a is None or a.get('kind') != 'static':
            raise Unsupported('const refers to non-static allocation %s' % alloc_name)
        sname = a['static']
        cell = self.statics.get(sname)
        if cell is None:
            body = self._find_static_body(sname)
            cell = Cell(None, 'static ' + sname)
            self.statics[sname] = cell
            cell.v = self.run_body(body, [])
        return cell

    def tls_cell(self, sname):
        key = 'tls[%d] %s' % (self.thread, sname)
        cell = self.statics.get(key)
        if cell is None:
            body = self._find_static_body(sname)
            cell = Cell(None, key)
            self.statics[key] = cell
            cell.v = self.run_body(body, [])
        return cell

    def _find_static_body(self, sname):
        for n, b in self.mir.bodies.items():
            if b.kind == 'static' and (n == sname or n.endswith('::' + sname) or sname.endswith('::' + n)):
                return b
        # name printed through an impl path:  Type::method::STATIC
        segs = sname.split('::')
        if len(segs) >= 3:
            try:
                r = self.resolve('::'.join(segs[:-1]))
            except Unsupported:
                r = None
            if r and r[0] == 'body':
                n = r[1].name + '::' + segs[-1]
                b = self.mir.bodies.get(n)
                if b is not None:
                    return b
        raise Unsupported('static body not found: ' + sname)

    def promoted(self, fnpath, idx):
        key = (fnpath, idx)
        v = self.promoted_cache.get(key)
        if v is not None:
            return v
        cand = None
        want = '%s::promoted[%d]' % (fnpath, idx)
        b = self.mir.bodies.get(want)
        if b is None:
            for n, bb in self.mir.bodies.items():
                if bb.kind == 'const' and n.endswith('::promoted[%d]' % idx):
                    base = n[:-len('::promoted[%d]' % idx)]
                    if base == fnpath or fnpath.endswith('::' + base) or base.endswith('::' + fnpath):
                        b = bb
                        break
                    if '<impl at ' in base:
                        # `mod::<impl at file:l:c: l:c>::method::{closure#k}` is referred to as `mod::Type::method::{closure#k}`
                        rx = '::'.join(r'[^:]+(<.*>)?' if seg.startswith('<impl at ') else re.escape(seg)
                                       for seg in re.split(r'::(?![^<]*>)', base))
                        if re.fullmatch(rx, fnpath) or re.fullmatch(r'(.*::)?' + rx, fnpath):
                            b = bb
                            break
        if b is None:
            try:
                r = self.resolve(fnpath)
            except Unsupported:
                r = None
            if r and r[0] == 'body':
                b = self.mir.bodies.get('%s::promoted[%d]' % (r[1].name, idx))
        if b is None:
            raise Unsupported('promoted not found: ' + want)
        v = self.run_body(b, [])
        self.promoted_cache[key] = v
        return v

    CONSTS = {}

    def const_value(self, v, ty):
        if isinstance(v, (int, bool)):
            return v
        k = v[0]
        if k == 'str':
            return Str(tuple(v[1]))
        if k == 'zst':
            t = v[1]
            cm = re.match(r'\{closure@[^}]*\}', t)
            if cm:
                return Closure(cm.group(0), ())
            fm = re.search(r'\{([^{}]+)\}$', t)
            if fm:
                return FnItem(fm.group(1))
            return UNIT
        if k == 'alloc':
            a = self.mir.allocs.get(v[1])
            if a is not None and a.get('kind') == 'static':
                return Ref(self.static_cell(v[1]), ())
            return Opaque('alloc ' + v[1])
        if k == 'promoted':
            return self.promoted(v[1], v[2])
        if k == 'unit':
            return UNIT
        if k == 'variant':
            return NONE
        if k == 'bytes':
            return Ref(Cell(Arr(tuple(v[1]), 'array'), 'bytes-const'), ())
        if k == 'float':
            return fp.const(v[1], ty if ty in ('f32', 'f64') else 'f64')
        if k == 'opaque':
            im = re.match(r'^(?:core::|std::)?(i8|i16|i32|i64|i128|isize|u8|u16|u32|u64|u128|usize)::(MIN|MAX|BITS)$', v[1])
            if im:
                w, signed = INT_TYPES[im.group(1)]
                if im.group(2) == 'BITS':
                    return w
                if im.group(2) == 'MIN':
                    return -(1 << (w - 1)) if signed else 0
                return (1 << (w - 1)) - 1 if signed else (1 << w) - 1
            c = self.CONSTS.get(v[1])
            if c is not None:
                return c
            for n, (cv, cty) in self.mir.simple_consts.items():
                if n == v[1] or v[1].endswith('::' + n) or n.endswith('::' + v[1]):
                    return self.const_value(cv, cty)
            # a named `const` item of the crate (e.g. a thread_local! key): evaluate its body
            for n, b in self.mir.bodies.items():
                if b.kind == 'const' and 'promoted[' not in n and (n == v[1] or v[1].endswith('::' + n) or n.endswith('::' + v[1])):
                    key = ('constitem', n)
                    r = self.promoted_cache.get(key)
                    if r is None:
                        r = self.run_body(b, [])
                        self.promoted_cache[key] = r
                    return r
            return Opaque('const ' + v[1])
        raise Unsupported('const kind %r' % (v,))

    # ------------------------------------------------------------------ places
    def resolve_place(self, cells, place):
        loc, elems = place
        cell = cells[loc]
        if not elems:
            return cell, ()
        path = ()
        for e in elems:
            k = e[0]
            if k == 'f':
                path = path + (e,)
            elif k == 'd':
                v = cell.v if not path else get_path(cell.v, path)
                if isinstance(v, Ref):
                    cell, path = v.cell, v.path
                elif isinstance(v, ArcV):
                    cell, path = v.cell, ()
                else:
                    raise ModelError('deref of non-pointer %r' % (v,))
            # 't' transparent and 'v' downcast: no-ops
        return cell, path

    def read_place(self, cells, place):
        loc, elems = place
        if not elems:
            return cells[loc].v
        cell, path = self.resolve_place(cells, place)
        return get_path(cell.v, path) if path else cell.v

    def operand(self, cells, op):
        k = op[0]
        if k == 'copy' or k == 'move':
            v = self.read_place(cells, op[1])
            if v is UNINIT:
                raise ModelError('read of uninitialised place %r' % (op[1],))
            return v
        if k == 'const':
            return self.const_value(op[1], op[2])
        if k == 'fn':
            return FnItem(op[1])
        raise ModelError('bad operand %r' % (op,))

    # ------------------------------------------------------------------ scalar ops
    def binop(self, op, a, b, ty):
        if isinstance(a, (Agg, Ref)) or isinstance(b, (Agg, Ref)):
            raise Unsupported('binop %s on non-scalar' % op)
        if ty == 'bool' or (ty is None and isinstance(a, bool) and isinstance(b, bool)) \
                or (is_sym(a) and z3.is_bool(a)) or (is_sym(b) and z3.is_bool(b)):
            if not is_sym(a) and not is_sym(b):
                a, b = bool(a), bool(b)
                if op == 'Eq': return a == b
                if op == 'Ne': return a != b
                if op == 'BitAnd': return a and b
                if op == 'BitOr': return a or b
                if op == 'BitXor': return a != b
                if op == 'Lt': return a < b
                if op == 'Le': return a <= b
                if op == 'Gt': return a > b
                if op == 'Ge': return a >= b
                raise Unsupported('bool binop ' + op)
            a, b = to_bool(a), to_bool(b)
            if op == 'Eq': return simp(a == b)
            if op == 'Ne': return simp(a != b)
            if op == 'BitAnd': return simp(z3.And(a, b))
            if op == 'BitOr': return simp(z3.Or(a, b))
            if op == 'BitXor': return simp(z3.Xor(a, b))
            raise Unsupported('symbolic bool binop ' + op)
        if ty in ('f32', 'f64') or isinstance(a, float) or isinstance(b, float) or fp.is_fp(a):
            fty = ty if ty in ('f32', 'f64') else 'f64'
            try:
                return fp.binop(op, a, b, fty, simp)
            except NotImplementedError as e:
                raise Unsupported(str(e))
        if ty not in INT_TYPES:
            raise Unsupported('binop %s on type %r' % (op, ty))
        w, signed = INT_TYPES[ty]
        if not is_sym(a) and not is_sym(b):
            a, b = int(a), int(b)
            if op == 'Eq': return a == b
            if op == 'Ne': return a != b
            if op == 'Lt': return a < b
            if op == 'Le': return a <= b
            if op == 'Gt': return a > b
            if op == 'Ge': return a >= b
            if op in ('Add', 'AddUnchecked'): return norm_int(a + b, w, signed)
            if op in ('Sub', 'SubUnchecked'): return norm_int(a - b, w, signed)
            if op in ('Mul', 'MulUnchecked'): return norm_int(a * b, w, signed)
            if op == 'BitAnd': return norm_int(a & b, w, signed)
            if op == 'BitOr': return norm_int(a | b, w, signed)
            if op == 'BitXor': return norm_int(a ^ b, w, signed)
            if op in ('Shl', 'ShlUnchecked'):
                return norm_int(a << (b & (w - 1)), w, signed)
            if op in ('Shr', 'ShrUnchecked'):
                return norm_int(a >> (b & (w - 1)), w, signed)   # python >> is arithmetic on negatives; a already in range
            if op in ('AddWithOverflow', 'SubWithOverflow', 'MulWithOverflow'):
                r = a + b if op[0] == 'A' else (a - b if op[0] == 'S' else a * b)
                n = norm_int(r, w, signed)
                return Agg(None, (n, n != r))
            if op == 'Div':
                if b == 0: raise Unsupported('Div by zero reached without assert')
                q = abs(a) // abs(b)
                return norm_int(q if (a < 0) == (b < 0) else -q, w, signed)
            if op == 'Rem':
                if b == 0: raise Unsupported('Rem by zero reached without assert')
                r = abs(a) % abs(b)
                return norm_int(r if a >= 0 else -r, w, signed)
            raise Unsupported('int binop ' + op)
        # symbolic
        A = to_bv(a, w)
        if op in ('Shl', 'Shr', 'ShlUnchecked', 'ShrUnchecked'):
            # rhs may have another width
            if is_sym(b):
                bw = b.size()
                if bw > w:
                    B = z3.Extract(w - 1, 0, b)
                elif bw < w:
                    B = z3.ZeroExt(w - bw, b)
                else:
                    B = b
            else:
                B = z3.BitVecVal(int(b) & (w - 1), w)
            B = B & z3.BitVecVal(w - 1, w)
            if op.startswith('Shl'):
                return simp(A << B)
            return simp((A >> B) if signed else z3.LShR(A, B))
        B = to_bv(b, w)
        if op == 'Eq': return simp(A == B)
        if op == 'Ne': return simp(A != B)
        if op == 'Lt': return simp(A < B if signed else z3.ULT(A, B))
        if op == 'Le': return simp(A <= B if signed else z3.ULE(A, B))
        if op == 'Gt': return simp(A > B if signed else z3.UGT(A, B))
        if op == 'Ge': return simp(A >= B if signed else z3.UGE(A, B))
        if op in ('Add', 'AddUnchecked'): return simp(A + B)
        if op in ('Sub', 'SubUnchecked'): return simp(A - B)
        if op in ('Mul', 'MulUnchecked'): return simp(A * B)
        if op == 'BitAnd': return simp(A & B)
        if op == 'BitOr': return simp(A | B)
        if op == 'BitXor': return simp(A ^ B)
        if op in ('AddWithOverflow', 'MulWithOverflow'):
            # interval shortcut: operands known to be small non-negative numbers cannot overflow
            ra, rb = bv_range(A), bv_range(B)
            top = ra[1] + rb[1] if op[0] == 'A' else ra[1] * rb[1]
            lim = (1 << (w - 1)) if signed else (1 << w)
            if ra[1] < lim and rb[1] < lim and top < lim:
                return Agg(None, (simp(A + B if op[0] == 'A' else A * B), False))
        if op in ('AddWithOverflow', 'SubWithOverflow', 'MulWithOverflow'):
            ext = z3.SignExt if signed else z3.ZeroExt
            k = w if op[0] == 'M' else 1
            EA, EB = ext(k, A), ext(k, B)
            wide = EA + EB if op[0] == 'A' else (EA - EB if op[0] == 'S' else EA * EB)
            res = A + B if op[0] == 'A' else (A - B if op[0] == 'S' else A * B)
            return Agg(None, (simp(res), simp(wide != ext(k, res))))
        if op == 'Div':
            return simp(A / B if signed else z3.UDiv(A, B))
        if op == 'Rem':
            return simp(z3.SRem(A, B) if signed else z3.URem(A, B))
        raise Unsupported('symbolic int binop ' + op)

    def unop(self, op, a, ty):
        if op == 'Not':
            if isinstance(a, bool):
                return not a
            if is_sym(a) and z3.is_bool(a):
                return simp(z3.Not(a))
            if ty in INT_TYPES:
                w, signed = INT_TYPES[ty]
                if is_sym(a):
                    return simp(~a)
                return norm_int(~int(a), w, signed)
        if op == 'Neg' and (ty in ('f32', 'f64') or fp.is_fp(a)):
            return fp.neg(a, ty if ty in ('f32', 'f64') else 'f64', simp)
        if op == 'Neg' and ty in INT_TYPES:
            w, signed = INT_TYPES[ty]
            if is_sym(a):
                return simp(-a)
            return norm_int(-int(a), w, signed)
        raise Unsupported('unop %s on %r' % (op, ty))

    def cast(self, kind, v, fromty, toty):
        if kind.startswith('PointerCoercion') or kind in ('Transmute', 'PtrToPtr', 'Subtype', 'PointerExposeProvenance', 'PointerWithExposedProvenance', 'FnPtrToPtr'):
            return v
        if kind == 'IntToInt':
            tw, ts = INT_TYPES.get(toty, (None, None))
            if tw is None:
                raise Unsupported('cast to ' + toty)
            if fromty == 'bool':
                if is_sym(v):
                    return z3.If(v, z3.BitVecVal(1, tw), z3.BitVecVal(0, tw))
                return int(bool(v))
            fw, fs = INT_TYPES.get(fromty, (None, None))
            if fw is None:
                raise Unsupported('cast from %r' % (fromty,))
            if not is_sym(v):
                return norm_int(int(v), tw, ts)
            if tw == fw:
                return v
            if tw < fw:
                return simp(z3.Extract(tw - 1, 0, v))
            return simp(z3.SignExt(tw - fw, v) if fs else z3.ZeroExt(tw - fw, v))
        if kind == 'IntToFloat' and toty in ('f32', 'f64'):
            if fromty == 'bool':
                raise Unsupported('bool as float')
            fw, fs = INT_TYPES.get(fromty, (None, None))
            if fw is None:
                raise Unsupported('cast from %r' % (fromty,))
            return fp.int_to_float(v, fw, fs, toty, simp)
        if kind == 'FloatToInt' and fromty in ('f32', 'f64'):
            tw, ts = INT_TYPES.get(toty, (None, None))
            if tw is None:
                raise Unsupported('cast to ' + toty)
            return fp.float_to_int(v, tw, ts, fromty, simp)
        if kind == 'FloatToFloat':
            return fp.float_to_float(v, fromty, toty, simp)
        raise Unsupported('cast kind ' + kind)

    # ------------------------------------------------------------------ rvalues
    _SEGS = {}

    def make_adt(self, path, vals, names):
        segs = self._SEGS.get(path)
        if segs is None:
            segs = path_segments(path)
            self._SEGS[path] = segs
        if not segs:
            raise Unsupported('adt path ' + path)
        enums = self.src.enums
        if len(segs) >= 2 and segs[-2] in enums and segs[-1] in enums[segs[-2]]:
            ty = segs[-2]
            return Enum(ty, enums[ty].index(segs[-1]), segs[-1], vals)
        ty = segs[-1]
        if not vals and ty in ('Less', 'Equal', 'Greater') and (len(segs) == 1 or segs[-2] == 'Ordering'):
            # std::cmp::Ordering variants are printed bare (`_0 = Less;`)
            return Enum('Ordering', ('Less', 'Equal', 'Greater').index(ty), ty)
        if names is not None:
            order = self.src.structs.get(ty)
            if order:
                d = dict(zip(names, vals))
                try:
                    vals = tuple(d[n] for n in order)
                except KeyError:
                    raise Unsupported('struct %s fields %r vs declared %r' % (ty, names, order))
            # else: unknown struct; keep textual order
        return Agg(ty, vals)

    def rvalue(self, cells, rv):
        k = rv[0]
        if k == 'use':
            return self.operand(cells, rv[1])
        if k == 'ref':
            cell, path = self.resolve_place(cells, rv[1])
            return Ref(cell, path)
        if k == 'discr':
            v = self.read_place(cells, rv[1])
            if isinstance(v, Enum):
                return v.idx
            raise ModelError('discriminant of %r' % (v,))
        if k == 'adt':
            vals = tuple(self.operand(cells, o) for o in rv[2])
            return self.make_adt(rv[1], vals, rv[3])
        if k == 'tuple':
            return Agg(None, tuple(self.operand(cells, o) for o in rv[1]))
        if k == 'bin':
            return self.binop(rv[1], self.operand(cells, rv[2]), self.operand(cells, rv[3]), rv[4])
        if k == 'cast':
            return self.cast(rv[1], self.operand(cells, rv[2]), rv[3], rv[4])
        if k == 'array':
            return Arr(tuple(self.operand(cells, o) for o in rv[1]), 'array')
        if k == 'un':
            return self.unop(rv[1], self.operand(cells, rv[2]), rv[3])
        if k == 'closure':
            return Closure(rv[1], tuple(self.operand(cells, o) for o in rv[2]))
        if k == 'tlsref':
            return Ref(self.tls_cell(rv[1]), ())
        if k == 'repeat':
            v = self.operand(cells, rv[1])
            return Arr((v,) * int(re.sub(r'_usize$', '', rv[2].replace('const ', '').strip())), 'array')
        raise Unsupported('rvalue ' + k)

    # ------------------------------------------------------------------ symbolic decisions
    def truth(self, c):
        """decide a (possibly symbolic) bool; forks via the exploration context"""
        if isinstance(c, bool):
            return c
        if isinstance(c, int):
            return c != 0
        c = simp(c)
        if isinstance(c, bool):
            return c
        if self.x is None:
            raise Unsupported('symbolic branch without exploration context')
        return self.x.choose([c, z3.Not(c)]) == 0

    def concretize(self, v, ty='usize', limit=64):
        """fork over the feasible values of a symbolic integer (used for lengths/indices)"""
        v = simp(v)
        if not is_sym(v):
            return v
        if self.x is None:
            raise Unsupported('symbolic value without exploration context')
        return self.x.pick_value(v, limit)

    # ------------------------------------------------------------------ calls
    def where(self):
        return [(b.name, bb) for (b, bb) in self.stack[-12:]]

    def panic(self, msg):
        raise Unwind(msg, self.where())

    def call(self, callee, args):
        r = self.resolve(callee)
        if r[0] == 'body':
            return self.run_body(r[1], args)
        if r[0] == 'model':
            self.models_used.add(callee if len(callee) < 90 else callee[:87] + '...')
            return r[1](self, args, callee)
        raise Unsupported('no model for callee: ' + callee)

    def call_callable(self, f, args):
        """invoke a closure / fn item / harness closure with positional args"""
        if isinstance(f, Ref):
            f = rd(f)
        if isinstance(f, ArcV):
            f = f.cell.v
        if isinstance(f, PyFn):
            return f.fn(self, list(args))
        if isinstance(f, FnItem):
            return self.call(f.name, list(args))
        if isinstance(f, Closure):
            body = self.closure_bodies.get(f.key)
            if body is None:
                raise Unsupported('closure body not found ' + f.key)
            t = body.params[0][1].strip()
            if t.startswith('&'):
                env = Ref(Cell(f, 'closure-env'), ())
            else:
                env = f
            return self.run_body(body, [env] + list(args))
        raise Unsupported('call of non-callable %r' % (f,))

    def drop_value(self, v, cleanup):
        """drop glue: only guards have an observable effect in this model"""
        if isinstance(v, GuardV):
            self.release_guard(v, cleanup)
        elif isinstance(v, Agg):
            for x in v.f:
                if isinstance(x, (GuardV, Agg, Enum)):
                    self.drop_value(x, cleanup)
        elif isinstance(v, Enum):
            for x in v.f:
                if isinstance(x, (GuardV, Agg, Enum)):
                    self.drop_value(x, cleanup)

    def release_guard(self, g, cleanup):
        m = rd(g.ref)
        if not isinstance(m, MutexV):
            raise ModelError('guard of non-mutex %r' % (m,))
        if getattr(g, 'mode', 'x') == 'r':
            # a read guard: drop one share of this thread; a panicking reader does not poison an RwLock
            holders = dict(m.held[1]) if isinstance(m.held, tuple) else {}
            n = holders.get(self.thread, 0) - 1
            if n > 0:
                holders[self.thread] = n
            else:
                holders.pop(self.thread, None)
            wr(g.ref, MutexV(m.data, ('r', tuple(sorted(holders.items()))) if holders else None, m.poisoned))
            if self.sched is not None:
                self.sched.released(g.ref)
            return
        wr(g.ref, MutexV(m.data, None, m.poisoned or bool(cleanup)))
        if self.sched is not None:
            self.sched.released(g.ref)

    def run_body(self, body, args):
        blocks = body.blocks
        nloc = (max(body.locals) + 1) if body.locals else 1
        cells = [Cell(UNINIT) for _ in range(nloc)]
        if len(args) != len(body.params):
            raise ModelError('arity mismatch calling %s: %d args for %d params' % (body.name, len(args), len(body.params)))
        for (loc, _), a in zip(body.params, args):
            cells[loc].v = a
        self.bodies_used.add(body.name)
        frame = [body, 0]
        self.stack.append(frame)
        if self.track_depth and len(self.stack) > self.max_depth:
            self.max_depth = len(self.stack)
            self.max_stack = [f[0].name for f in self.stack]
        if len(self.stack) > 3000:
            raise StepBudget('call depth > 3000 in ' + body.name)
        pending = None
        bb = 0
        cleanup_blocks = body.cleanup
        try:
            while True:
                self.steps += 1
                if self.steps > self.step_limit:
                    raise StepBudget('step limit %d exceeded in %s' % (self.step_limit, body.name))
                frame[1] = bb
                stmts, term = blocks[bb]
                for st in stmts:
                    k = st[0]
                    if k == 'assign':
                        val = self.rvalue(cells, st[2])
                        loc, elems = st[1]
                        if not elems:
                            cells[loc].v = val
                        else:
                            cell, path = self.resolve_place(cells, st[1])
                            if path:
                                cur = cell.v
                                if cur is UNINIT:
                                    cur = self._blank_for(path)
                                cell.v = set_path(cur, path, val)
                            else:
                                cell.v = val
                    elif k == 'nop':
                        pass
                    elif k == 'setdiscr':
                        raise Unsupported('SetDiscriminant')
                    else:
                        raise Unsupported('statement ' + k)
                k = term[0]
                try:
                    if k == 'goto':
                        bb = term[1]
                        continue
                    if k == 'switch':
                        v = self.operand(cells, term[1])
                        v = simp(v)
                        if isinstance(v, bool):
                            v = int(v)
                        if isinstance(v, int):
                            nxt = term[3]
                            for (c, t) in term[2]:
                                if c == v:
                                    nxt = t
                                    break
                            if nxt is None:
                                raise ModelError('switchInt without matching target')
                            bb = nxt
                            continue
                        bb = self._sym_switch(v, term)
                        continue
                    if k == 'call':
                        callee = term[1]
                        argv = [self.operand(cells, o) for o in term[2]]
                        res = self.call(callee, argv)
                        if term[3] is not None:
                            self._assign(cells, term[3], res)
                        if term[4] is None:
                            raise ModelError('diverging call returned: ' + callee)
                        bb = term[4]
                        continue
                    if k == 'return':
                        rv = cells[0].v if cells[0].v is not UNINIT else UNIT
                        if self.watch:
                            cb = self.watch.get(body.name)
                            if cb is not None:
                                cb(args, rv)
                        return rv
                    if k == 'drop':
                        v = self.read_place(cells, term[1])
                        if (v is UNINIT or v is None) and isinstance(term[1], (tuple, list)) and len(term[1]) == 2 and not term[1][1]:
                            # after drop elaboration a drop is only reached for an initialised place: a local that was never
                            # written is a zero-sized value (unit struct guard, `debug g => const Guard`)
                            lt = (body.locals.get(term[1][0]) or '').rsplit('::', 1)[-1]
                            if lt in self.src.crate_types and any(ity == lt and itr == 'Drop' for (_, ity, itr, _) in self.by_method.get('drop', [])):
                                v = Agg(lt, ())
                                cells[term[1][0]].v = v
                        if v is not UNINIT and v is not None:
                            # a `Drop` impl written in the crate (RAII scope guards) runs before the fields are dropped
                            ty = getattr(v, 'ty', None) if isinstance(v, (Agg, Enum)) else None
                            if ty is None or ty not in self.src.crate_types:
                                # a unit struct (zero-sized guard) has no runtime shape here: use the declared type of the local
                                pl = term[1]
                                loc = pl if isinstance(pl, int) else (pl[0] if isinstance(pl, (tuple, list)) and len(pl) == 2 and not pl[1] and isinstance(pl[0], int) else None)
                                lt = body.locals.get(loc) if loc is not None else None
                                if lt is not None:
                                    lt = lt.rsplit('::', 1)[-1]
                                    if lt in self.src.crate_types:
                                        ty = lt
                            if ty is not None and ty in self.src.crate_types:
                                for (db, ity, itr, _) in self.by_method.get('drop', []):
                                    if ity == ty and itr == 'Drop':
                                        cell_, path_ = self.resolve_place(cells, term[1])
                                        self.run_body(db, [Ref(cell_, path_)])
                                        v = self.read_place(cells, term[1])
                                        break
                            self.drop_value(v, bb in cleanup_blocks)
                        bb = term[2]
                        continue
                    if k == 'assert':
                        c = self.operand(cells, term[1])
                        if term[2]:
                            c = (not c) if isinstance(c, bool) else z3.Not(c)
                        if not self.truth(c):
                            msg = term[3]
                            argv = []
                            for o in term[6]:
                                try:
                                    argv.append(self.operand(cells, o))
                                except Exception:
                                    argv.append('?')
                            raise Unwind('assert failed: %s %r' % (msg, argv), self.where())
                        bb = term[4]
                        continue
                    if k == 'resume':
                        if pending is None:
                            raise ModelError('resume without pending unwind')
                        raise pending
                    if k == 'unreachable':
                        raise ModelError('reached `unreachable` in %s bb%d' % (body.name, bb))
                    if k == 'abort':
                        raise Abort('abort in ' + body.name)
                    if k == 'callptr':
                        f = self.operand(cells, term[1])
                        argv = [self.operand(cells, o) for o in term[2]]
                        res = self.call_callable(f, argv)
                        if term[3] is not None:
                            self._assign(cells, term[3], res)
                        bb = term[4]
                        continue
                    raise Unsupported('terminator ' + k)
                except Unwind as u:
                    if k == 'resume':
                        raise
                    unw = term[-1]
                    if bb in cleanup_blocks:
                        raise Abort('panic during cleanup in %s: %s' % (body.name, u.msg))
                    if isinstance(unw, int):
                        pending = u
                        bb = unw
                        continue
                    if unw == 'terminate':
                        raise Abort('unwind terminate in %s: %s' % (body.name, u.msg))
                    raise
        finally:
            self.stack.pop()

    def _blank_for(self, path):
        # writing a field of an uninitialised aggregate (field-by-field init): build lazily
        raise Unsupported('field write into uninitialised aggregate')

    def _assign(self, cells, place, val):
        loc, elems = place
        if not elems:
            cells[loc].v = val
            return
        cell, path = self.resolve_place(cells, place)
        if path:
            cell.v = set_path(cell.v, path, val)
        else:
            cell.v = val

    _SWITCH_CACHE = {}

    def _sym_switch(self, v, term):
        if self.x is None:
            raise Unsupported('symbolic switchInt without exploration context')
        key = (v.get_id(), id(term))
        ent = self._SWITCH_CACHE.get(key)
        if ent is None or ent[0] is not term:
            if z3.is_bool(v):
                tg = dict(term[2])
                if 0 in tg:
                    conds = [z3.Not(v), v]
                    dests = [tg[0], tg.get(1, term[3])]
                else:
                    conds = [v, z3.Not(v)]
                    dests = [tg.get(1, term[3]), term[3]]
                vals = None
            else:
                w = v.size()
                conds = []
                dests = []
                vals = []
                for (c, t) in term[2]:
                    conds.append(v == BVV(c & ((1 << w) - 1), w))
                    dests.append(t)
                    vals.append(c & ((1 << w) - 1))
                if term[3] is not None:
                    conds.append(z3.And([v != BVV(c & ((1 << w) - 1), w) for (c, _) in term[2]]) if term[2] else z3.BoolVal(True))
                    dests.append(term[3])
            ent = (term, v, conds, dests, vals)
            if len(self._SWITCH_CACHE) > 50000:
                self._SWITCH_CACHE.clear()
            self._SWITCH_CACHE[key] = ent
        _, _, conds, dests, vals = ent
        hint = None
        if vals is not None and self.x.pos >= len(self.x.prefix):
            try:
                cv = self.x.get_model().eval(v, model_completion=True).as_long()
                hint = vals.index(cv) if cv in vals else (len(conds) - 1 if len(conds) > len(vals) else None)
            except Exception:
                hint = None
        i = self.x.choose(conds, hint)
        if vals is not None and i < len(vals):
            src = self.x.char_src.get(v.get_id())
            if src is not None:
                self.x.learn(src[1], vals[i] & 0xFF)
        d = dests[i]
        if d is None:
            raise ModelError('switch to missing target')
        return d
