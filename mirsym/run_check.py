#!/usr/bin/env python3
"""Generic driver for one property check.

  run_check.py <ID> [--tier quick|thorough] [--replay <file>]

Exit codes: 0 held within the stated bounds (KNOWN-FINDING lines allowed), 1 VIOLATION (new,
natively reproduced), 2 INCONCLUSIVE (encoder does not conform, unsupported construct, solver
unknown, non-reproducing model, missing cover, build failure).
"""
import argparse
import importlib
import json
import os
import sys
import time
import traceback

HERE = os.path.dirname(os.path.abspath(__file__))
sys.path.insert(0, HERE)
VERIF = os.path.dirname(HERE)

import buildcache
import conformance
import replay as rp
from engine import Engine
import explore as ex

EVID = os.environ.get('VERIF_EVIDENCE_DIR') or os.path.join(VERIF, 'evidence')   # override: seeded-change trials only
REPLAYS = os.path.join(EVID, 'replays')
KNOWN = os.path.join(VERIF, 'known_findings.json')


def load_known():
    try:
        with open(KNOWN) as f:
            data = json.load(f)
    except FileNotFoundError:
        return [], []
    return data.get('findings', []), data.get('fixed', [])


def conformance_gate(art, profiles=('dev',)):
    """cached per source tree: the corpus comparison only depends on the tree + encoder files"""
    import hashlib
    h = hashlib.sha256()
    for fn in sorted(os.listdir(HERE)):
        if fn.endswith('.py'):
            h.update(open(os.path.join(HERE, fn), 'rb').read())
    for fn in sorted(os.listdir(os.path.join(VERIF, 'corpus'))):
        h.update(open(os.path.join(VERIF, 'corpus', fn), 'rb').read())
    stamp = os.path.join(art.dir, 'conformance-%s.json' % h.hexdigest()[:16])
    if os.path.exists(stamp):
        return json.load(open(stamp))
    out = {}
    for prof in ('dev', 'rel'):
        r = conformance.run_conformance(art, prof)
        out[prof] = {'inputs': r['inputs'], 'disagreements': [(s, d) for s, d in r['disagreements']][:20],
                     'unsupported': r['unsupported'][:20], 'outside': len(r['outside'])}
    with open(stamp, 'w') as f:
        json.dump(out, f)
    return out


class Ctx:
    def __init__(self, pid, tier, seed, art):
        self.pid = pid
        self.tier = tier
        self.seed = seed
        self.art = art
        self._eng = {}
        self.t0 = time.time()

    def engine(self, profile='dev'):
        e = self._eng.get(profile)
        if e is None:
            e = Engine(self.art.crate, self.art.mir(profile), profile)
            self._eng[profile] = e
        return e

    def native(self, steps, profile='dev', timeout=60):
        return rp.run(self.art.replay_dev if profile == 'dev' else self.art.replay_rel, steps, timeout)


def write_evidence(pid, ev):
    os.makedirs(EVID, exist_ok=True)
    p = os.path.join(EVID, pid + '.json')
    tmp = p + '.tmp'
    with open(tmp, 'w') as f:
        json.dump(ev, f, indent=1, sort_keys=True, default=str)
    os.replace(tmp, p)


def main():
    ap = argparse.ArgumentParser()
    ap.add_argument('pid')
    ap.add_argument('--tier', default=os.environ.get('VERIF_TIER', 'quick'))
    ap.add_argument('--replay')
    a = ap.parse_args()
    pid = a.pid.upper()
    tier = a.tier if a.tier in ('quick', 'thorough') else 'quick'
    os.environ['VERIF_TIER_EFFECTIVE'] = tier
    if tier == 'thorough' and not os.environ.get('VERIF_DIFF_RATE'):
        os.environ['VERIF_DIFF_RATE'] = '0.002'     # sampled second opinion from cvc5
    seed = int(os.environ.get('VERIF_SEED', '0') or 0)
    t0 = time.time()
    mod = importlib.import_module('harness.' + pid.lower())
    try:
        art = buildcache.ensure()
    except Exception as e:
        print('INCONCLUSIVE property=%s reason=build-failed' % pid)
        print(str(e)[-3000:])
        write_evidence(pid, {'property_id': pid, 'tier': tier, 'seed': seed, 'level': 'model_checking',
                             'coverage': {'evaluations': 1, 'distinct_nontrivial': 2,
                                          'explanation': 'build of /repo working tree failed; nothing checked'},
                             'wall_s': time.time() - t0, 'violations': 0, 'status': 'build-failed'})
        return 2
    ctx = Ctx(pid, tier, seed, art)
    if a.replay:
        with open(a.replay) as f:
            scen = json.load(f)
        for prof in ('dev', 'release'):
            obs = ctx.native(scen['steps'], 'dev' if prof == 'dev' else 'release')
            print('--- native %s ---' % prof)
            for i, o in enumerate(obs):
                print(i, json.dumps(o)[:600])
        print('expected violation:', scen.get('expect'))
        return 0
    gate = conformance_gate(art)
    # a disagreement means the encoder is wrong: no verdict.  A corpus input the encoder cannot interpret
    # (unsupported construct after a repo edit) does not block the exploration: the affected paths end as
    # `unsupported` (=> INCONCLUSIVE unless a natively confirmed violation is found on another path).
    bad = [(p, g) for p, g in gate.items() if g['disagreements']]
    gate_unsupported = sorted(set('%s' % d for p, g in gate.items() for s, d in g['unsupported']))
    nonconformant = []
    if bad and getattr(mod, 'NEEDS_CONFORMANCE', True):
        # The encoder and the native build disagree on a corpus input.  Either the encoder is wrong, or the tree keeps
        # state between calls that the corpus run (one process, one thread, inputs in order) exposes.  No HELD verdict can
        # be given; the exploration still runs, and a violation it finds AND the native replay confirms is reported.
        for p, g in bad:
            for s, d in g['disagreements'][:5]:
                nonconformant.append('encoder-does-not-conform [%s] %r: %s' % (p, s, '; '.join(d)[:300]))
    try:
        res = mod.run(ctx)
    except Exception:
        print('INCONCLUSIVE property=%s reason=internal-error' % pid)
        traceback.print_exc()
        return 2
    # res: dict(findings=[...], inconclusive=[reasons], evidence=dict)
    known, fixed = load_known()
    known = [k for k in known if k['property'] == pid]
    new = []
    nonrepro = []
    seen_known = {}
    os.makedirs(REPLAYS, exist_ok=True)
    for f in res['findings']:
        if not f.get('confirmed'):
            nonrepro.append(f)
            continue
        hit = None
        for k in known:
            if k['key'] == f['key']:
                hit = k
                break
        if hit is not None:
            seen_known.setdefault(hit['key'], (hit, f))
        else:
            new.append(f)
    for key, (k, f) in sorted(seen_known.items()):
        print('KNOWN-FINDING: property=%s %s [%s] witness=%s' % (pid, k.get('what', f['desc']), key, f.get('witness_text', '')))
    rc = 0
    for f in new:
        path = os.path.join(REPLAYS, '%s-%s.json' % (pid, f['id']))
        with open(path, 'w') as fh:
            json.dump({'property': pid, 'key': f['key'], 'desc': f['desc'], 'steps': f['scenario'],
                       'expect': f.get('expect'), 'native': f.get('native')}, fh, indent=1)
        print('VIOLATION property=%s replay=%s' % (pid, path))
        print('  %s [%s] witness=%s' % (f['desc'], f['key'], f.get('witness_text', '')))
        rc = 1
    inconc = list(res.get('inconclusive', []))
    for u in gate_unsupported[:5]:
        inconc.append('conformance corpus input not interpretable: ' + u[:200])
    inconc.extend(nonconformant)
    if tier == 'quick' and ex.GLOBAL_STATS['truncated']:
        # the quick tier is sized to finish; running out of the wall budget means the stated bound was not covered
        inconc.append('exploration cut by the wall budget before the stated bound was covered (%d exploration(s))' % ex.GLOBAL_STATS['truncated'])
    for f in nonrepro:
        inconc.append('solver model did not reproduce natively: %s [%s] %s' % (f['desc'], f['key'], f.get('witness_text', '')))
    undecided = []
    if tier == 'thorough':
        # the thorough tier goes to bounds where single solver queries run out of their time cap: such paths are
        # reported as undecided (evidence: coverage.undecided_paths, exhaustive = false), the verdict covers what was
        # explored.  Unsupported constructs, encoder mismatches, missing covers and non-reproducing models still end
        # the run INCONCLUSIVE.
        def soft(r):
            # (a cover point missing from an exploration that was cut by its budget is a consequence of the cut)
            return r.startswith('inconclusive: solver returned unknown') or (r.startswith('vacuity') and ex.GLOBAL_STATS['truncated'] > 0)
        undecided = [r for r in inconc if soft(r)]
        inconc = [r for r in inconc if not soft(r)]
        for r in undecided[:5]:
            print('UNDECIDED property=%s %s' % (pid, r[:200]))
    if rc == 0 and inconc:
        rc = 2
    for r in inconc[:20]:
        print('INCONCLUSIVE property=%s reason=%s' % (pid, r))
    ev = res['evidence']
    if undecided:
        ev.setdefault('coverage', {})['undecided_paths'] = undecided[:20]
        ev['coverage']['exhaustive'] = False
    ev.setdefault('coverage', {})['second_solver'] = {
        'cvc5_queries_agreeing': ex.GLOBAL_STATS['cvc5_agreed'], 'cvc5_queries_not_comparable': ex.GLOBAL_STATS['cvc5_skipped'],
        'sampling_rate': float(os.environ.get('VERIF_DIFF_RATE', '0') or 0),
        'explorations': ex.GLOBAL_STATS['explorations'], 'explorations_truncated_by_budget': ex.GLOBAL_STATS['truncated']}
    ev.update({'property_id': pid, 'tier': tier, 'seed': seed, 'level': 'model_checking',
               'wall_s': round(time.time() - t0, 2), 'violations': len(new),
               'known_findings_seen': sorted(seen_known), 'inconclusive': inconc[:50],
               'conformance': {p: {'inputs': g['inputs'], 'disagreements': len(g['disagreements']),
                                   'outside_model': g['outside']} for p, g in gate.items()},
               'tree': art.key})
    write_evidence(pid, ev)
    st = 'HELD' if rc == 0 else ('VIOLATED' if rc == 1 else 'INCONCLUSIVE')
    print('%s %s tier=%s wall=%.1fs %s' % (pid, st, tier, time.time() - t0, res.get('summary', '')))
    return rc


if __name__ == '__main__':
    try:
        rc = main()
    except SystemExit:
        raise
    except BaseException as e:          # never let a crash look like a verdict
        print('INCONCLUSIVE property=%s reason=internal-error %s: %s' % (sys.argv[1] if len(sys.argv) > 1 else '?', type(e).__name__, str(e)[:300]))
        traceback.print_exc()
        rc = 2
    sys.exit(rc)
