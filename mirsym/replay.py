"""Client for the native replay binary (replay/SPEC.md)."""
import json
import os
import subprocess
import tempfile


class ReplayError(Exception):
    pass


def run(binary, steps, timeout=60):
    """Run a scenario; returns list of observations (one per step).  A step the process died in
    (stack overflow / abort / timeout) is reported as {"kind":"crash", "detail":...}; later steps
    as {"kind":"not_run"}."""
    scen = json.dumps({'steps': steps})
    try:
        p = subprocess.run([binary, '-'], input=scen.encode(), stdout=subprocess.PIPE, stderr=subprocess.PIPE,
                           timeout=timeout)
        out, err, rc, timed = p.stdout, p.stderr, p.returncode, False
    except subprocess.TimeoutExpired as e:
        out, err, rc, timed = e.stdout or b'', e.stderr or b'', None, True
    if rc == 3:
        raise ReplayError('replay rejected the scenario: ' + err.decode('utf-8', 'replace')[-500:])
    obs = [None] * len(steps)
    done = False
    for line in out.decode('utf-8', 'replace').split('\n'):
        if line.startswith('OBS '):
            _, idx, js = line.split(' ', 2)
            obs[int(idx)] = json.loads(js)
        elif line.strip() == 'DONE':
            done = True
    if not done:
        first = True
        for i in range(len(obs)):
            if obs[i] is None:
                if first:
                    obs[i] = {'kind': 'crash' if not timed else 'timeout', 'rc': rc,
                              'detail': err.decode('utf-8', 'replace')[-300:]}
                    first = False
                else:
                    obs[i] = {'kind': 'not_run'}
    return obs


def hx(s):
    if isinstance(s, str):
        s = s.encode('utf-8')
    return bytes(s).hex()
