"""Second batch of library models: std APIs that plausible edits of the crate tend to use
(string searching/trimming, char predicates, integer parsing, slices, HashMap::get_mut/entry-free
updates, Option/Result combinators, iterator adaptors, mem::replace/take, Cell/RefCell, atomics).
Same rules as models.py: documented contract only; anything else is Unsupported."""
import re
import os
import z3

from values import *
from interp import Unsupported, Unwind, ModelError, Deadlock, simp, to_bv, norm_int, BVV
from mirparse import INT_TYPES
import models as M
from models import model, pattern, deref_all, as_str, sbytes, OutsideModel

INT_RX = r'(i8|i16|i32|i64|i128|isize|u8|u16|u32|u64|u128|usize)'


# =============================================================================== chars

def _char_pred(name, pred_concrete, pred_sym):
    def f(it, args, callee):
        c = deref_all(args[0])
        if not is_sym(c):
            return pred_concrete(chr(c))
        return simp(pred_sym(c))
    for prefix in ('char::methods::<impl char>::', 'core::char::methods::<impl char>::'):
        M.MODELS[prefix + name] = f


def _rng(c, lo, hi):
    return z3.And(z3.UGE(c, BVV(lo, 32)), z3.ULE(c, BVV(hi, 32)))


_char_pred('is_ascii_digit', lambda ch: ch.isascii() and ch.isdigit(), lambda c: _rng(c, 0x30, 0x39))
_char_pred('is_ascii_alphabetic', lambda ch: ch.isascii() and ch.isalpha(), lambda c: z3.Or(_rng(c, 0x41, 0x5A), _rng(c, 0x61, 0x7A)))
_char_pred('is_ascii_alphanumeric', lambda ch: ch.isascii() and ch.isalnum(),
           lambda c: z3.Or(_rng(c, 0x30, 0x39), _rng(c, 0x41, 0x5A), _rng(c, 0x61, 0x7A)))
_char_pred('is_ascii_uppercase', lambda ch: 'A' <= ch <= 'Z', lambda c: _rng(c, 0x41, 0x5A))
_char_pred('is_ascii_lowercase', lambda ch: 'a' <= ch <= 'z', lambda c: _rng(c, 0x61, 0x7A))
_char_pred('is_ascii_whitespace', lambda ch: ch in ' \t\n\x0c\r',
           lambda c: z3.Or(c == 0x20, c == 0x09, c == 0x0A, c == 0x0C, c == 0x0D))
_char_pred('is_ascii_punctuation', lambda ch: ch.isascii() and (33 <= ord(ch) <= 47 or 58 <= ord(ch) <= 64 or 91 <= ord(ch) <= 96 or 123 <= ord(ch) <= 126),
           lambda c: z3.Or(_rng(c, 33, 47), _rng(c, 58, 64), _rng(c, 91, 96), _rng(c, 123, 126)))
_char_pred('is_ascii', lambda ch: ord(ch) < 128, lambda c: z3.ULT(c, BVV(128, 32)))


def _u8_pred(name, pred_concrete, pred_sym):
    def f(it, args, callee):
        c = deref_all(args[0])
        if not is_sym(c):
            return pred_concrete(chr(c))
        return simp(pred_sym(z3.ZeroExt(24, c)))
    for prefix in ('core::num::<impl u8>::', 'u8::'):
        M.MODELS[prefix + name] = f


_u8_pred('is_ascii_digit', lambda ch: ch.isascii() and ch.isdigit(), lambda c: _rng(c, 0x30, 0x39))
_u8_pred('is_ascii_alphabetic', lambda ch: ch.isascii() and ch.isalpha(), lambda c: z3.Or(_rng(c, 0x41, 0x5A), _rng(c, 0x61, 0x7A)))
_u8_pred('is_ascii_alphanumeric', lambda ch: ch.isascii() and ch.isalnum(),
         lambda c: z3.Or(_rng(c, 0x30, 0x39), _rng(c, 0x41, 0x5A), _rng(c, 0x61, 0x7A)))
_u8_pred('is_ascii_whitespace', lambda ch: ch in ' \t\n\x0c\r', lambda c: z3.Or(c == 0x20, c == 0x09, c == 0x0A, c == 0x0C, c == 0x0D))
_u8_pred('is_ascii', lambda ch: ord(ch) < 128, lambda c: z3.ULT(c, BVV(128, 32)))


def _unicode_pred(name, py):
    def f(it, args, callee):
        c = deref_all(args[0])
        if not is_sym(c):
            return py(chr(c))
        # decide ASCII symbolically; non-ASCII symbolic characters are outside the model
        if it.truth(z3.ULT(c, BVV(128, 32))):
            conds = [c == BVV(k, 32) for k in range(128) if py(chr(k))]
            return simp(z3.Or(conds)) if conds else False
        raise OutsideModel('Unicode predicate %s on a symbolic non-ASCII character' % name)
    for prefix in ('char::methods::<impl char>::', 'core::char::methods::<impl char>::'):
        M.MODELS[prefix + name] = f


_unicode_pred('is_whitespace', lambda ch: ch.isspace())
_unicode_pred('is_alphabetic', lambda ch: ch.isalpha())
_unicode_pred('is_numeric', lambda ch: ch.isnumeric())
_unicode_pred('is_alphanumeric', lambda ch: ch.isalnum())
_unicode_pred('is_uppercase', lambda ch: ch.isupper())
_unicode_pred('is_lowercase', lambda ch: ch.islower())
_unicode_pred('is_control', lambda ch: ord(ch) < 32 or 127 <= ord(ch) < 160)


@pattern(r'^(core::)?char::methods::<impl char>::to_digit$')
def char_to_digit(it, args, callee):
    c, radix = args
    radix = it.concretize(radix, limit=64)
    if radix != 10:
        raise Unsupported('to_digit with radix %d' % radix)
    if not is_sym(c):
        return Some(c - 0x30) if 0x30 <= c <= 0x39 else NONE
    if it.truth(_rng(c, 0x30, 0x39)):
        return Some(simp(c - BVV(0x30, 32)))
    return NONE


@pattern(r'^(core::)?char::methods::<impl char>::(is_digit)$')
def char_is_digit(it, args, callee):
    c, radix = args
    radix = it.concretize(radix, limit=64)
    if radix != 10:
        raise Unsupported('is_digit with radix %d' % radix)
    if not is_sym(c):
        return 0x30 <= c <= 0x39
    return simp(_rng(c, 0x30, 0x39))


# =============================================================================== str search / trim / split_at

def _match_at(it, bs, i, pat):
    """pat: ('char', c) | ('str', bytes) | ('pred', callable) -> (matched: bool, width)"""
    kind = pat[0]
    if kind == 'str':
        n = len(pat[1])
        if i + n > len(bs):
            return False, n
        return it.truth(M.str_eq(it, bs[i:i + n], pat[1])), n
    c, w = M.decode_char(it, bs, i)
    if kind == 'char':
        want = pat[1]
        if not is_sym(c) and not is_sym(want):
            return c == want, w
        return it.truth(to_bv(c, 32) == to_bv(want, 32)), w
    if kind == 'chars':
        for want in pat[1]:
            if (c == want) if (not is_sym(c) and not is_sym(want)) else it.truth(to_bv(c, 32) == to_bv(want, 32)):
                return True, w
        return False, w
    r = it.call_callable(pat[1], [c])
    return it.truth(r), w


def _pattern_of(it, p, callee):
    p0 = p
    p = deref_all(p) if isinstance(p, Ref) and not isinstance(rd(p), (Closure, FnItem, PyFn)) else p
    if isinstance(p, (int,)) or (is_sym(p) and z3.is_bv(p) and p.size() == 32):
        return ('char', p)
    if isinstance(p, Str):
        return ('str', p.b)
    if isinstance(p, (Closure, FnItem, PyFn)) or (isinstance(p, Ref) and isinstance(rd(p), (Closure, FnItem, PyFn))):
        return ('pred', p)
    if isinstance(p, Arr) or isinstance(p, SliceRef) or (hasattr(p, 'items') and not isinstance(p, Str)):
        # &[char] / [char; N]: matches any of the characters
        items = [rd(r) for r in p.refs()] if isinstance(p, SliceRef) else list(p.items)
        if all(isinstance(x, int) or (is_sym(x) and z3.is_bv(x)) for x in items):
            return ('chars', tuple(items))
    raise Unsupported('string pattern of kind %r in %s' % (type(p).__name__, callee[:60]))


def _char_starts(it, bs):
    """byte offsets at which characters start (forks on symbolic lead bytes)"""
    out = []
    i = 0
    while i < len(bs):
        out.append(i)
        _, w = M.decode_char(it, bs, i)
        i += w
    return out


@pattern(r'^core::str::<impl str>::(find|rfind)::<.*>$')
def str_find(it, args, callee):
    bs = sbytes(as_str(args[0]), 'find')
    pat = _pattern_of(it, args[1], callee)
    starts = _char_starts(it, bs)
    order = starts if '::find::' in callee else list(reversed(starts))
    if pat[0] == 'str' and len(pat[1]) == 0:
        return Some(0 if '::find::' in callee else len(bs))
    for i in order:
        ok, _ = _match_at(it, bs, i, pat)
        if ok:
            return Some(i)
    return NONE


@pattern(r'^core::str::<impl str>::(starts_with|ends_with)::<(char|.*closure.*)>$')
def str_starts_with_char(it, args, callee):
    bs = sbytes(as_str(args[0]), 'starts_with')
    pat = _pattern_of(it, args[1], callee)
    if not bs:
        return False
    starts = _char_starts(it, bs)
    i = starts[0] if 'starts_with' in callee else starts[-1]
    ok, _ = _match_at(it, bs, i, pat)
    return ok


def _ws_char(it, c):
    if not is_sym(c):
        return chr(c).isspace()
    if it.truth(z3.ULT(c, BVV(128, 32))):
        return it.truth(z3.Or(c == 0x20, z3.And(z3.UGE(c, BVV(9, 32)), z3.ULE(c, BVV(13, 32)))))
    raise OutsideModel('str::trim on a symbolic non-ASCII character')


@pattern(r'^core::str::<impl str>::(trim|trim_start|trim_end)$')
def str_trim(it, args, callee):
    bs = sbytes(as_str(args[0]), 'trim')
    lo, hi = 0, len(bs)
    which = callee.rsplit('::', 1)[1]
    if which in ('trim', 'trim_start'):
        while lo < hi:
            c, w = M.decode_char(it, bs, lo)
            if not _ws_char(it, c):
                break
            lo += w
    if which in ('trim', 'trim_end'):
        starts = [s for s in _char_starts(it, bs) if s >= lo]
        while starts and hi > lo:
            s = starts[-1]
            c, w = M.decode_char(it, bs, s)
            if not _ws_char(it, c):
                break
            hi = s
            starts.pop()
    return Str(bs[lo:hi])


@model('core::str::<impl str>::is_char_boundary')
def str_is_char_boundary(it, args, callee):
    bs = sbytes(as_str(args[0]), 'is_char_boundary')
    i = it.concretize(args[1])
    return M.is_char_boundary(it, bs, i)


@model('core::str::<impl str>::split_at')
def str_split_at(it, args, callee):
    bs = sbytes(as_str(args[0]), 'split_at')
    i = it.concretize(args[1])
    if i > len(bs) or not M.is_char_boundary(it, bs, i):
        it.panic('byte index %d is not a char boundary' % i)
    return Agg(None, (Str(bs[:i]), Str(bs[i:])))


@pattern(r'^core::str::<impl str>::get::<(std::ops::|core::ops::)?Range(To|From)?<usize>>$')
def str_get_range(it, args, callee):
    bs = sbytes(as_str(args[0]), 'get')
    r = args[1]
    if 'RangeTo' in callee:
        lo, hi = 0, it.concretize(r.f[0])
    elif 'RangeFrom' in callee:
        lo, hi = it.concretize(r.f[0]), len(bs)
    else:
        lo, hi = it.concretize(r.f[0]), it.concretize(r.f[1])
    if lo > hi or hi > len(bs) or not M.is_char_boundary(it, bs, lo) or not M.is_char_boundary(it, bs, hi):
        return NONE
    return Some(Str(bs[lo:hi]))


@model('core::str::<impl str>::bytes')
def str_bytes(it, args, callee):
    return IterV('into', tuple(sbytes(as_str(args[0]), 'bytes')), 0)


@pattern(r'^<(std::str::|core::str::)?Bytes<\'_> as Iterator>::next$')
def bytes_next(it, args, callee):
    return M.iter_next(it, args, callee)


@pattern(r'^core::str::<impl str>::(to_lowercase|to_uppercase|to_ascii_lowercase|to_ascii_uppercase)$')
def str_case(it, args, callee):
    bs = sbytes(as_str(args[0]), 'case conversion')
    if not all(isinstance(b, int) for b in bs):
        raise OutsideModel('case conversion of a symbolic string')
    t = bytes(bs).decode('utf-8')
    t = t.lower() if 'lower' in callee else t.upper()
    return mkstr(t)


@model('core::str::<impl str>::eq_ignore_ascii_case')
def str_eq_ignore_case(it, args, callee):
    a, b = sbytes(as_str(args[0]), 'eq'), sbytes(as_str(args[1]), 'eq')
    if not (all(isinstance(x, int) for x in a) and all(isinstance(x, int) for x in b)):
        raise OutsideModel('eq_ignore_ascii_case on symbolic strings')
    return bytes(a).lower() == bytes(b).lower()


@model('std::string::String::clear', 'String::clear')
def string_clear(it, args, callee):
    wr(args[0], Str(()))
    return UNIT


@pattern(r'^(std::string::)?String::with_capacity$')
def string_with_capacity(it, args, callee):
    return Str(())


@pattern(r'^(std::string::)?String::(pop)$')
def string_pop(it, args, callee):
    s = rd(args[0])
    bs = sbytes(s, 'pop')
    if not bs:
        return NONE
    starts = _char_starts(it, bs)
    c, w = M.decode_char(it, bs, starts[-1])
    wr(args[0], Str(bs[:starts[-1]]))
    return Some(c)


@pattern(r'^(std::string::)?String::(truncate)$')
def string_truncate(it, args, callee):
    s = rd(args[0])
    n = it.concretize(args[1])
    bs = sbytes(s, 'truncate')
    if n <= len(bs):
        if not M.is_char_boundary(it, bs, n):
            it.panic('String::truncate: not a char boundary')
        wr(args[0], Str(bs[:n]))
    return UNIT


@pattern(r'^<(std::string::)?String as (Default)>::default$')
def string_default(it, args, callee):
    return Str(())


@pattern(r'^<(std::string::)?String as From<(std::string::)?String>>::from$')
def string_from_string(it, args, callee):
    return args[0]


@pattern(r'^<(std::string::)?String as From<char>>::from$')
def string_from_char(it, args, callee):
    return Str(M.encode_char(it, args[0]))


@pattern(r'^<(std::string::)?String as PartialOrd>::(lt|le|gt|ge)$')
def string_cmp(it, args, callee):
    raise OutsideModel('lexicographic string ordering')


# =============================================================================== integer parsing / int helpers

@pattern(r'^<' + INT_RX + r' as (std::str::|core::str::)?FromStr>::from_str$')
def int_from_str(it, args, callee):
    ty = re.match(r'^<(\w+) as', callee).group(1)
    w, signed = INT_TYPES[ty]
    s = as_str(args[0])
    bs = sbytes(s, 'from_str')
    lo = -(1 << (w - 1)) if signed else 0
    hi = (1 << (w - 1)) - 1 if signed else (1 << w) - 1
    if all(isinstance(b, int) for b in bs):
        try:
            t = bytes(bs).decode('utf-8')
        except UnicodeDecodeError:
            return Err(Opaque('ParseIntError'))
        if not re.fullmatch(r'[+-]?[0-9]+', t) or (not signed and t.startswith('-')):
            return Err(Opaque('ParseIntError'))
        v = int(t)
        return Ok(v) if lo <= v <= hi else Err(Opaque('ParseIntError'))
    # symbolic bytes: classify each
    n = len(bs)
    if n == 0:
        return Err(Opaque('ParseIntError'))
    i = 0
    neg = False

    def is_(b, lo_, hi_=None):
        if isinstance(b, int):
            return lo_ <= b <= (hi_ if hi_ is not None else lo_)
        if hi_ is None:
            return it.truth(b == BVV(lo_, 8))
        return it.truth(z3.And(z3.UGE(b, BVV(lo_, 8)), z3.ULE(b, BVV(hi_, 8))))
    if is_(bs[0], 0x2B):
        i = 1
    elif signed and is_(bs[0], 0x2D):
        neg = True
        i = 1
    if i >= n:
        return Err(Opaque('ParseIntError'))
    val = 0
    ndig = n - i
    if 10 ** ndig - 1 <= hi:
        # cannot overflow: accumulate in the bit-vector domain of the result (no int/bit-vector tie for the solver)
        acc = BVV(0, w)
        while i < n:
            if not is_(bs[i], 0x30, 0x39):
                return Err(Opaque('ParseIntError'))
            d = BVV(bs[i] - 0x30, w) if isinstance(bs[i], int) else z3.ZeroExt(w - 8, bs[i] - BVV(0x30, 8))
            acc = acc * BVV(10, w) + d
            i += 1
        acc = simp(-acc if neg else acc)
        return Ok(acc.as_signed_long() if z3.is_bv_value(acc) and signed else (acc.as_long() if z3.is_bv_value(acc) else acc))
    while i < n:
        if not is_(bs[i], 0x30, 0x39):
            return Err(Opaque('ParseIntError'))
        d = (bs[i] - 0x30) if isinstance(bs[i], int) else z3.BV2Int(bs[i] - BVV(0x30, 8), False)
        val = val * 10 + d
        i += 1
    if neg:
        val = -val
    if not is_sym(val):
        return Ok(val) if lo <= val <= hi else Err(Opaque('ParseIntError'))
    if it.truth(z3.And(val >= lo, val <= hi)):
        return Ok(M._to_bv_from_int(it, val, w, signed, 'parsed'))
    return Err(Opaque('ParseIntError'))


@pattern(r'^core::str::<impl str>::parse::<' + INT_RX + r'>$')
def str_parse_int(it, args, callee):
    ty = re.match(r'.*parse::<(\w+)>$', callee).group(1)
    if ty == 'i64':
        return M.str_parse_i64(it, args, callee)
    return int_from_str(it, args, '<%s as FromStr>::from_str' % ty)


@pattern(r'^core::num::<impl ' + INT_RX + r'>::(unsigned_abs|abs|wrapping_abs)$')
def int_abs(it, args, callee):
    m = re.match(r'^core::num::<impl (\w+)>::(\w+)$', callee)
    ty, op = m.group(1), m.group(2)
    w, signed = INT_TYPES[ty]
    v = args[0]
    if not is_sym(v):
        if op == 'abs' and v == -(1 << (w - 1)):
            if it.profile == 'dev':
                it.panic('attempt to negate with overflow')
            return v
        r = abs(v)
        return norm_int(r, w, op != 'unsigned_abs' and signed)
    if op == 'abs' and it.profile == 'dev' and it.truth(v == BVV(1 << (w - 1), w)):
        it.panic('attempt to negate with overflow')
    return simp(z3.If(v < 0, -v, v))


@pattern(r'^core::num::<impl ' + INT_RX + r'>::(wrapping_add|wrapping_sub|wrapping_mul|wrapping_neg|wrapping_shl|wrapping_shr)$')
def int_wrapping(it, args, callee):
    m = re.match(r'^core::num::<impl (\w+)>::wrapping_(\w+)$', callee)
    ty, op = m.group(1), m.group(2)
    if op == 'neg':
        return it.unop('Neg', args[0], ty)
    return it.binop({'add': 'Add', 'sub': 'Sub', 'mul': 'Mul', 'shl': 'Shl', 'shr': 'Shr'}[op], args[0], args[1], ty)


@pattern(r'^core::num::<impl ' + INT_RX + r'>::(overflowing_add|overflowing_sub|overflowing_mul)$')
def int_overflowing(it, args, callee):
    m = re.match(r'^core::num::<impl (\w+)>::overflowing_(\w+)$', callee)
    ty, op = m.group(1), m.group(2)
    return it.binop({'add': 'AddWithOverflow', 'sub': 'SubWithOverflow', 'mul': 'MulWithOverflow'}[op], args[0], args[1], ty)


@pattern(r'^core::num::<impl ' + INT_RX + r'>::(checked_div|checked_rem|checked_neg|checked_abs)$')
def int_checked_div(it, args, callee):
    m = re.match(r'^core::num::<impl (\w+)>::checked_(\w+)$', callee)
    ty, op = m.group(1), m.group(2)
    w, signed = INT_TYPES[ty]
    a = args[0]
    MIN = -(1 << (w - 1))
    if op in ('neg', 'abs'):
        if signed:
            ismin = it.truth(it.binop('Eq', a, MIN, ty))
            if ismin:
                return NONE
            if op == 'neg':
                return Some(it.unop('Neg', a, ty))
            return Some(int_abs(it, [a], 'core::num::<impl %s>::wrapping_abs' % ty))
        if op == 'neg':
            return Some(0) if it.truth(it.binop('Eq', a, 0, ty)) else NONE
        return Some(a)
    b = args[1]
    if it.truth(it.binop('Eq', b, 0, ty)):
        return NONE
    if signed and it.truth(it.binop('Eq', a, MIN, ty)) and it.truth(it.binop('Eq', b, -1, ty)):
        return NONE
    return Some(it.binop('Div' if op == 'div' else 'Rem', a, b, ty))


@pattern(r'^core::num::<impl ' + INT_RX + r'>::(pow|checked_pow|leading_zeros|trailing_zeros|count_ones|rotate_left|rotate_right|swap_bytes|rem_euclid|div_euclid|signum|is_negative|is_positive|min_value|max_value)$')
def int_misc(it, args, callee):
    m = re.match(r'^core::num::<impl (\w+)>::(\w+)$', callee)
    ty, op = m.group(1), m.group(2)
    w, signed = INT_TYPES[ty]
    if op == 'min_value':
        return -(1 << (w - 1)) if signed else 0
    if op == 'max_value':
        return (1 << (w - 1)) - 1 if signed else (1 << w) - 1
    a = args[0]
    if op == 'is_negative':
        return it.binop('Lt', a, 0, ty)
    if op == 'is_positive':
        return it.binop('Gt', a, 0, ty)
    if op == 'signum':
        if it.truth(it.binop('Lt', a, 0, ty)):
            return -1
        return 0 if it.truth(it.binop('Eq', a, 0, ty)) else 1
    if all(not is_sym(x) for x in args):
        a = int(a)
        if op == 'pow':
            r = a ** int(args[1])
            n = norm_int(r, w, signed)
            if n != r and it.profile == 'dev':
                it.panic('attempt to multiply with overflow')
            return n
        if op == 'checked_pow':
            r = a ** int(args[1])
            return Some(r) if norm_int(r, w, signed) == r else NONE
        u = a & ((1 << w) - 1)
        if op == 'leading_zeros':
            return w - u.bit_length()
        if op == 'trailing_zeros':
            return w if u == 0 else (u & -u).bit_length() - 1
        if op == 'count_ones':
            return bin(u).count('1')
        if op == 'rem_euclid':
            b = int(args[1])
            if b == 0:
                it.panic('attempt to calculate the remainder with a divisor of zero')
            return a % abs(b)
        if op == 'div_euclid':
            b = int(args[1])
            if b == 0:
                it.panic('attempt to divide by zero')
            q = (a - (a % abs(b))) // b
            return norm_int(q, w, signed)
    raise Unsupported('integer helper %s on symbolic operands' % op)


@pattern(r'^(std|core)::cmp::(min|max)::<' + INT_RX + r'>$')
def cmp_minmax(it, args, callee):
    m = re.match(r'^(?:std|core)::cmp::(min|max)::<(\w+)>$', callee)
    op, ty = m.group(1), m.group(2)
    a, b = args
    lt = it.truth(it.binop('Lt', b, a, ty))
    if op == 'min':
        return b if lt else a
    return a if lt else b


@pattern(r'^<' + INT_RX + r' as Ord>::(min|max|cmp)$')
def int_ord(it, args, callee):
    m = re.match(r'^<(\w+) as Ord>::(\w+)$', callee)
    ty, op = m.group(1), m.group(2)
    a, b = deref_all(args[0]), deref_all(args[1])
    if op == 'cmp':
        if it.truth(it.binop('Lt', a, b, ty)):
            return Enum('Ordering', 0, 'Less')
        if it.truth(it.binop('Eq', a, b, ty)):
            return Enum('Ordering', 1, 'Equal')
        return Enum('Ordering', 2, 'Greater')
    lt = it.truth(it.binop('Lt', b, a, ty))
    if op == 'min':
        return b if lt else a
    return a if lt else b


@pattern(r'^<' + INT_RX + r' as PartialOrd>::(lt|le|gt|ge)$')
def int_partial_ord(it, args, callee):
    m = re.match(r'^<(\w+) as PartialOrd>::(\w+)$', callee)
    ty, op = m.group(1), m.group(2)
    return it.binop({'lt': 'Lt', 'le': 'Le', 'gt': 'Gt', 'ge': 'Ge'}[op], deref_all(args[0]), deref_all(args[1]), ty)


@pattern(r'^<' + INT_RX + r' as From<' + INT_RX + r'>>::from$')
def int_from_int(it, args, callee):
    m = re.match(r'^<(\w+) as From<(\w+)>>::from$', callee)
    return it.cast('IntToInt', args[0], m.group(2), m.group(1))


@pattern(r'^<(u32|u64|usize|u8) as From<(char|bool)>>::from$')
def int_from_char(it, args, callee):
    m = re.match(r'^<(\w+) as From<(\w+)>>::from$', callee)
    return it.cast('IntToInt', args[0], m.group(2), m.group(1))


@pattern(r'^<' + INT_RX + r' as (Default)>::default$')
def int_default(it, args, callee):
    return 0


@model('<bool as Default>::default')
def bool_default(it, args, callee):
    return False


@pattern(r'^<' + INT_RX + r' as ToString>::to_string$')
def int_to_string(it, args, callee):
    v = deref_all(args[0])
    if is_sym(v):
        raise OutsideModel('to_string of a symbolic integer')
    return mkstr(str(v))


# =============================================================================== ranges

@pattern(r'^<(std::ops::|core::ops::)?Range<' + INT_RX + r'> as Iterator>::next$')
def range_int_next(it, args, callee):
    ty = re.search(r'Range<(\w+)>', callee).group(1)
    r = args[0]
    v = rd(r)
    lo, hi = v.f
    if it.truth(it.binop('Ge', lo, hi, ty)):
        return NONE
    wr(r, Agg(v.ty, (it.binop('Add', lo, 1, ty), hi)))
    return Some(lo)


@pattern(r'^<(std::ops::|core::ops::)?Range<' + INT_RX + r'> as IntoIterator>::into_iter$')
def range_int_into_iter(it, args, callee):
    return args[0]


@pattern(r'^(std::ops::|core::ops::)?RangeInclusive::<' + INT_RX + r'>::new$')
def range_incl_new(it, args, callee):
    return Agg('RangeInclusive', (args[0], args[1], False))


@pattern(r'^<(std::ops::|core::ops::)?RangeInclusive<' + INT_RX + r'> as (IntoIterator)>::into_iter$')
def range_incl_into_iter(it, args, callee):
    return args[0]


@pattern(r'^<(std::ops::|core::ops::)?RangeInclusive<' + INT_RX + r'> as Iterator>::next$')
def range_incl_next(it, args, callee):
    ty = re.search(r'RangeInclusive<(\w+)>', callee).group(1)
    r = args[0]
    v = rd(r)
    lo, hi, done = v.f
    if done or it.truth(it.binop('Gt', lo, hi, ty)):
        return NONE
    if it.truth(it.binop('Eq', lo, hi, ty)):
        wr(r, Agg(v.ty, (lo, hi, True)))
    else:
        wr(r, Agg(v.ty, (it.binop('Add', lo, 1, ty), hi, False)))
    return Some(lo)


@pattern(r'^(std::ops::|core::ops::)?RangeInclusive::<' + INT_RX + r'>::(start|end)$')
def range_incl_bounds(it, args, callee):
    v = deref_all(args[0])
    return Ref(Cell(v.f[0] if callee.endswith('start') else v.f[1], 'bound'), ())


@pattern(r'^(std::ops::|core::ops::)?Range(Inclusive)?::<' + INT_RX + r'>::contains::<.*>$')
def range_contains(it, args, callee):
    ty = re.search(r'::<(\w+)>::contains', callee).group(1)
    r = deref_all(args[0])
    x = deref_all(args[1])
    lo, hi = r.f[0], r.f[1]
    a = it.binop('Le', lo, x, ty)
    b = it.binop('Le' if 'Inclusive' in callee else 'Lt', x, hi, ty)
    return it.binop('BitAnd', a, b, 'bool')


# =============================================================================== Vec / slices

def _vec_ref(r):
    while isinstance(rd(r), Ref):
        r = rd(r)
    return r


@pattern(r'^<(std::vec::)?Vec<.*> as Index<(std::ops::|core::ops::)?Range(To|From|Full)?(<usize>)?>>::index$')
def vec_index_range(it, args, callee):
    r = _vec_ref(args[0])
    a = rd(r)
    n = len(a.items)
    rg = args[1]
    if 'RangeTo' in callee:
        lo, hi = 0, it.concretize(rg.f[0])
    elif 'RangeFrom' in callee:
        lo, hi = it.concretize(rg.f[0]), n
    elif 'RangeFull' in callee:
        lo, hi = 0, n
    else:
        lo, hi = it.concretize(rg.f[0]), it.concretize(rg.f[1])
    if lo > hi:
        it.panic('slice index starts at %d but ends at %d' % (lo, hi))
    if hi > n:
        it.panic('range end index %d out of range for slice of length %d' % (hi, n))
    return SliceRef(r, lo, hi)


class SliceRef:
    """&[T] view into a Vec/array cell: elements are Refs into the backing store"""
    __slots__ = ('base', 'lo', 'hi')

    def __init__(self, base, lo, hi):
        self.base = base
        self.lo = lo
        self.hi = hi

    def refs(self):
        return tuple(Ref(self.base.cell, self.base.path + (('i', i),)) for i in range(self.lo, self.hi))


def _items_refs(x):
    """element Refs of a &Vec / &[T] / SliceRef"""
    if isinstance(x, SliceRef):
        return x.refs()
    return M._elem_refs(x)


@pattern(r'^<&(mut )?\[.*\] as IntoIterator>::into_iter$')
def slice_ref_into_iter(it, args, callee):
    return IterV('refs', _items_refs(args[0]), 0)


_old_slice_iter = M.slice_iter


@pattern(r'^(core|std)::slice::<impl \[.*\]>::(iter|iter_mut)$')
def slice_iter2(it, args, callee):
    return IterV('refs', _items_refs(args[0]), 0)


@pattern(r'^(core|std)::slice::<impl \[.*\]>::(len)$')
def slice_len2(it, args, callee):
    x = args[0]
    if isinstance(x, SliceRef):
        return x.hi - x.lo
    return len(deref_all(x).items)


@pattern(r'^(core|std)::slice::<impl \[.*\]>::(is_empty)$')
def slice_is_empty(it, args, callee):
    return slice_len2(it, args, callee) == 0


@pattern(r'^(core|std)::slice::<impl \[.*\]>::(first|last)$')
def slice_first_last(it, args, callee):
    refs = _items_refs(args[0])
    if not refs:
        return NONE
    return Some(refs[0] if callee.endswith('first') else refs[-1])


def _stable_sort(it, refs, less_eq):
    """stable insertion sort of the elements behind `refs`; less_eq(a_ref, b_ref) -> bool (may fork the path)"""
    vals = [rd(r) for r in refs]
    out = []
    for v in vals:
        cv = Ref(Cell(v, 'sort-elem'), ())
        pos = len(out)
        while pos > 0:
            co = Ref(Cell(out[pos - 1], 'sort-elem'), ())
            if less_eq(co, cv):
                break
            pos -= 1
        out.insert(pos, v)
    for r, v in zip(refs, out):
        wr(r, v)
    return UNIT


def _ord_le(it, o):
    if not (isinstance(o, Enum) and o.ty == 'Ordering'):
        raise Unsupported('comparator result %r' % (o,))
    return o.name != 'Greater'


@pattern(r'^(core|std|alloc)::slice::<impl \[.*\]>::(sort_by|sort_unstable_by)::<.*>$')
def slice_sort_by(it, args, callee):
    refs = _items_refs(args[0])
    f = args[1]
    if 'unstable' in callee and len(refs) > 1:
        # an unstable sort may order equal elements either way: only decided when no two elements compare equal
        def le(a, b):
            o = it.call_callable(f, [a, b])
            if o.name == 'Equal':
                raise OutsideModel('sort_unstable_by with elements that compare equal')
            return _ord_le(it, o)
        return _stable_sort(it, refs, le)
    return _stable_sort(it, refs, lambda a, b: _ord_le(it, it.call_callable(f, [a, b])))


@pattern(r'^(core|std|alloc)::slice::<impl \[.*\]>::(sort_by_key|sort_by_cached_key)::<.*>$')
def slice_sort_by_key(it, args, callee):
    refs = _items_refs(args[0])
    f = args[1]

    def le(a, b):
        ka = Ref(Cell(it.call_callable(f, [a]), 'key'), ())
        kb = Ref(Cell(it.call_callable(f, [b]), 'key'), ())
        return _ord_le(it, M.generic_cmp(it, ka, kb)) if hasattr(M, 'generic_cmp') else _key_le(it, ka, kb)
    return _stable_sort(it, refs, le)


def _key_le(it, ka, kb):
    a, b = deref_all(ka), deref_all(kb)
    if isinstance(a, (int, bool)) or is_sym(a):
        raise Unsupported('sort_by_key on integer keys of unknown type')
    raise Unsupported('sort_by_key on keys of kind %s' % type(a).__name__)


@pattern(r'^(core|std)::slice::<impl \[.*\]>::get::<usize>$')
def slice_get(it, args, callee):
    refs = _items_refs(args[0])
    i = it.concretize(args[1])
    return Some(refs[i]) if i < len(refs) else NONE


@pattern(r'^(core|std)::slice::<impl \[.*\]>::contains$')
def slice_contains(it, args, callee):
    refs = _items_refs(args[0])
    for r in refs:
        if it.truth(M.generic_eq(it, r, args[1])):
            return True
    return False


@pattern(r'^<\[.*\] as Index<usize>>::index$')
def slice_index(it, args, callee):
    refs = _items_refs(args[0])
    i = it.concretize(args[1])
    if i >= len(refs):
        it.panic('index out of bounds: the len is %d but the index is %d' % (len(refs), i))
    return refs[i]


@pattern(r'^(std::vec::)?Vec::<.*>::(first|last|get|contains|iter_mut|as_slice|is_empty)(::<usize>)?$')
def vec_slice_methods(it, args, callee):
    name = re.search(r'::(first|last|get|contains|iter_mut|as_slice|is_empty)(::<usize>)?$', callee).group(1)
    if name == 'as_slice':
        return args[0]
    if name == 'iter_mut':
        return IterV('refs', M._elem_refs(args[0]), 0)
    if name == 'is_empty':
        return len(deref_all(args[0]).items) == 0
    if name in ('first', 'last'):
        return slice_first_last(it, args, 'x::' + name)
    if name == 'get':
        return slice_get(it, args, callee)
    return slice_contains(it, args, callee)


@pattern(r'^(std::vec::)?Vec::<.*>::(insert|remove|clear|truncate|extend_from_slice|append|swap_remove|reverse|dedup|retain)(::<.*>)?$')
def vec_mutators(it, args, callee):
    name = re.search(r'::(insert|remove|clear|truncate|extend_from_slice|append|swap_remove|reverse)(::<.*>)?$', callee)
    if not name:
        raise Unsupported('Vec method ' + callee[-40:])
    name = name.group(1)
    r = args[0]
    a = rd(r)
    items = a.items
    if name == 'clear':
        wr(r, Arr((), 'vec'))
        return UNIT
    if name == 'reverse':
        wr(r, Arr(tuple(reversed(items)), 'vec'))
        return UNIT
    if name == 'truncate':
        n = it.concretize(args[1])
        wr(r, Arr(items[:n], 'vec'))
        return UNIT
    if name == 'insert':
        i = it.concretize(args[1])
        if i > len(items):
            it.panic('insertion index (is %d) should be <= len (is %d)' % (i, len(items)))
        wr(r, Arr(items[:i] + (args[2],) + items[i:], 'vec'))
        return UNIT
    if name == 'remove':
        i = it.concretize(args[1])
        if i >= len(items):
            it.panic('removal index (is %d) should be < len (is %d)' % (i, len(items)))
        wr(r, Arr(items[:i] + items[i + 1:], 'vec'))
        return items[i]
    if name == 'swap_remove':
        i = it.concretize(args[1])
        if i >= len(items):
            it.panic('swap_remove index out of bounds')
        new = list(items)
        v = new[i]
        new[i] = new[-1]
        new.pop()
        wr(r, Arr(tuple(new), 'vec'))
        return v
    if name == 'extend_from_slice':
        other = [rd(x) for x in _items_refs(args[1])]
        wr(r, Arr(items + tuple(other), 'vec'))
        return UNIT
    if name == 'append':
        o = rd(args[1])
        wr(r, Arr(items + o.items, 'vec'))
        wr(args[1], Arr((), 'vec'))
        return UNIT
    raise Unsupported('Vec method ' + name)


@pattern(r'^<(std::vec::)?Vec<.*> as (Default)>::default$')
def vec_default(it, args, callee):
    return Arr((), 'vec')


@pattern(r'^<(std::vec::)?Vec<.*> as Extend<.*>>::extend::<.*>$')
def vec_extend(it, args, callee):
    r, src = args
    a = rd(r)
    if isinstance(src, IterV) and src.kind == 'into':
        wr(r, Arr(a.items + tuple(src.items[src.pos:]), 'vec'))
        return UNIT
    if isinstance(src, Arr):
        wr(r, Arr(a.items + src.items, 'vec'))
        return UNIT
    raise Unsupported('Vec::extend from %r' % (src,))


@pattern(r'^<(std::vec::)?Vec<.*> as FromIterator<.*>>::from_iter::<.*>$')
def vec_from_iter(it, args, callee):
    return _collect(it, args[0])


@pattern(r'^(std::slice::|core::slice::)?<impl \[.*\]>::to_vec$')
def slice_to_vec(it, args, callee):
    return Arr(tuple(rd(x) for x in _items_refs(args[0])), 'vec')


@pattern(r'^(std|core)::slice::<impl \[.*\]>::to_vec$')
def slice_to_vec2(it, args, callee):
    return Arr(tuple(rd(x) for x in _items_refs(args[0])), 'vec')


# =============================================================================== iterator adaptors (over IterV)

def _drain(it, v):
    """all remaining items of an iterator value (applies pending map/filter stages)"""
    if isinstance(v, IterV):
        if v.kind in ('into', 'refs'):
            return list(v.items[v.pos:])
        if v.kind == 'map':
            k, f = v.extra
            return [it.call_callable(f, [x]) for x in v.items[v.pos:]]
        if v.kind == 'stage':
            base, op, f = v.extra
            src = _drain(it, base)
            if op == 'map':
                return [it.call_callable(f, [x]) for x in src]
            if op == 'filter':
                return [x for x in src if it.truth(it.call_callable(f, [Ref(Cell(x, 'filter-arg'), ())]))]
            if op in ('flat_map', 'filter_map', 'flatten'):
                out = []
                for x in src:
                    r = x if op == 'flatten' else it.call_callable(f, [x])
                    if isinstance(r, Enum) and r.name in ('Ok', 'Some'):
                        out.append(r.f[0])            # Result / Option as IntoIterator: one item or none
                    elif isinstance(r, Enum) and r.name in ('Err', 'None'):
                        pass
                    elif op == 'filter_map':
                        raise Unsupported('filter_map closure result %r' % (r,))
                    else:
                        out.extend(_drain(it, r))
                return out
            if op in ('take_while', 'map_while'):
                out = []
                for x in src:
                    if op == 'take_while':
                        if not it.truth(it.call_callable(f, [Ref(Cell(x, 'take_while-arg'), ())])):
                            break
                        out.append(x)
                    else:
                        r = it.call_callable(f, [x])
                        if r.name != 'Some':
                            break
                        out.append(r.f[0])
                return out
            if op == 'enumerate':
                return [Agg(None, (i, x)) for i, x in enumerate(src)]
            if op == 'rev':
                return list(reversed(src))
            if op == 'skip':
                return src[f:]
            if op == 'take':
                return src[:f]
            if op == 'cloned':
                return [rd(x) if isinstance(x, Ref) else x for x in src]
            if op == 'zip':
                other = _drain(it, f)
                return [Agg(None, (a, b)) for a, b in zip(src, other)]
            if op == 'chain':
                return src + _drain(it, f)
    if isinstance(v, Arr):
        return list(v.items)         # a Vec / array used where an IntoIterator is expected (zip, chain, extend)
    if isinstance(v, CharIdx):
        out = []
        pos = v.pos
        while pos < len(v.b):
            c, w = M.decode_char(it, v.b, pos)
            out.append(c)
            pos += w
        return out
    if isinstance(v, Agg) and v.ty == 'Range':
        lo, hi = it.concretize(v.f[0], limit=4096), it.concretize(v.f[1], limit=4096)
        return list(range(lo, hi))
    raise Unsupported('iteration over %r' % (v,))


def _collect(it, v):
    return Arr(tuple(_drain(it, v)), 'vec')


def _stage(base, op, f):
    return IterV('stage', (), 0, (base, op, f))


@pattern(r'^<.* as Iterator>::(map|filter|flat_map|filter_map|take_while|map_while)::<.*>$')
def iter_stage_fn(it, args, callee):
    op = re.search(r' as Iterator>::(\w+)::<', callee).group(1)
    return _stage(args[0], op, args[1])


@pattern(r'^<.* as Iterator>::flatten$')
def iter_flatten(it, args, callee):
    return _stage(args[0], 'flatten', None)


@pattern(r'^<.* as Iterator>::(enumerate|rev|cloned|copied|peekable|fuse|by_ref)$')
def iter_stage0(it, args, callee):
    op = callee.rsplit('::', 1)[1]
    if op in ('peekable', 'fuse', 'by_ref'):
        return args[0]
    if op == 'copied':
        op = 'cloned'
    return _stage(args[0], op, None)


@pattern(r'^<.* as DoubleEndedIterator>::(rev)$')
def iter_rev(it, args, callee):
    return _stage(args[0], 'rev', None)


@pattern(r'^<.* as Iterator>::(skip|take)$')
def iter_skip_take(it, args, callee):
    return _stage(args[0], callee.rsplit('::', 1)[1], it.concretize(args[1], limit=4096))


@pattern(r'^<.* as Iterator>::(zip|chain)::<.*>$')
def iter_zip(it, args, callee):
    return _stage(args[0], 'zip' if '::zip::<' in callee else 'chain', args[1])


@pattern(r'^<.* as Iterator>::collect::<(std::vec::)?Vec<.*>>$')
def iter_collect_vec(it, args, callee):
    return _collect(it, args[0])


@pattern(r'^<.* as Iterator>::collect::<(std::collections::)?HashMap<.*>>$')
def iter_collect_hashmap(it, args, callee):
    items = ()
    for x in _drain(it, args[0]):
        x = rd(x) if isinstance(x, Ref) else x
        k, v = x.f
        for i, (kk, vv) in enumerate(items):
            if M.key_eq(it, kk, k):
                items = items[:i] + ((kk, v),) + items[i + 1:]
                break
        else:
            items += ((k, v),)
    return MapV(items)


@pattern(r'^<.* as Iterator>::collect::<(std::string::)?String>$')
def iter_collect_string(it, args, callee):
    out = ()
    for x in _drain(it, args[0]):
        x = deref_all(x)
        if isinstance(x, Str):
            out += x.b
        else:
            out += M.encode_char(it, x)
    return Str(out)


@pattern(r'^<.* as Iterator>::(count)$')
def iter_count(it, args, callee):
    return len(_drain(it, args[0]))


@pattern(r'^<.* as Iterator>::(last)$')
def iter_last(it, args, callee):
    xs = _drain(it, args[0])
    return Some(xs[-1]) if xs else NONE


@pattern(r'^<.* as Iterator>::(any|all|position|find|for_each|find_map)::<.*>$')
def iter_search(it, args, callee):
    op = re.search(r'::(any|all|position|find|for_each|find_map)::<', callee).group(1)
    src = args[0]
    if isinstance(src, Ref):
        src = rd(src)
    xs = _drain(it, src)
    f = args[1]
    if op == 'for_each':
        for x in xs:
            it.call_callable(f, [x])
        return UNIT
    for i, x in enumerate(xs):
        if op == 'find':
            r = it.call_callable(f, [Ref(Cell(x, 'find-arg'), ())])
            if it.truth(r):
                return Some(x)
            continue
        r = it.call_callable(f, [x])
        if op == 'find_map':
            if r.name == 'Some':
                return r
            continue
        t = it.truth(r)
        if op == 'any' and t:
            return True
        if op == 'all' and not t:
            return False
        if op == 'position' and t:
            return Some(i)
    if op == 'any':
        return False
    if op == 'all':
        return True
    return NONE


@pattern(r'^<.* as Iterator>::fold::<.*>$')
def iter_fold(it, args, callee):
    acc = args[1]
    for x in _drain(it, args[0]):
        acc = it.call_callable(args[2], [acc, x])
    return acc


@pattern(r"^<(std::iter::|core::iter::)?(Enumerate|Rev|Map|Filter|FlatMap|FilterMap|Flatten|TakeWhile|MapWhile|Cloned|Copied|Skip|Take|Zip|Chain|Peekable)<.*> as Iterator>::next$")
def stage_next(it, args, callee):
    r = args[0]
    v = rd(r)
    if isinstance(v, IterV) and v.kind == 'stage':
        items = tuple(_drain(it, v))
        v = IterV('into', items, 0)
    if v.pos >= len(v.items):
        wr(r, v)
        return NONE
    wr(r, IterV(v.kind, v.items, v.pos + 1, v.extra))
    return Some(v.items[v.pos])


@pattern(r"^<(std::iter::|core::iter::)?(Enumerate|Rev|Map|Filter|FlatMap|FilterMap|Flatten|TakeWhile|MapWhile|Cloned|Copied|Skip|Take|Zip|Chain|Peekable)<.*> as IntoIterator>::into_iter$")
def stage_into_iter(it, args, callee):
    return args[0]


# =============================================================================== HashMap extras

@pattern(r'^(std::collections::)?HashMap::<.*>::get_mut::<.*>$')
def hashmap_get_mut(it, args, callee):
    return M.hashmap_get(it, args, callee)


@pattern(r'^(std::collections::)?HashMap::<.*>::(is_empty)$')
def hashmap_is_empty(it, args, callee):
    return len(deref_all(args[0]).items) == 0


@pattern(r'^(std::collections::)?HashMap::<.*>::(clear)$')
def hashmap_clear(it, args, callee):
    wr(args[0], MapV(()))
    return UNIT


@pattern(r'^(std::collections::)?HashMap::<.*>::(iter|keys|values|into_iter|iter_mut|values_mut|drain)$')
def hashmap_iter(it, args, callee):
    m = deref_all(args[0])
    if True:
        # the iteration order of a HashMap is unspecified: insertion order and its reverse are explored (one decision per
        # path); behaviour that depends on any other order is outside the model
        order = list(range(len(m.items)))
        if len(order) > 1 and it.x is not None:
            if getattr(it.x, 'hash_order', None) is None:
                v = it.x.bv('hash_order', 1)
                it.x.hash_order = it.x.choose([v == z3.BitVecVal(0, 1), v == z3.BitVecVal(1, 1)])
            if it.x.hash_order == 1:
                order.reverse()
        r = args[0]
        while isinstance(rd(r), Ref):
            r = rd(r)
        name = callee.rsplit('::', 1)[1]
        if name == 'keys':
            return IterV('refs', tuple(Ref(r.cell, r.path + (('mk', i),)) for i in order), 0)
        if name in ('values', 'values_mut'):
            return IterV('refs', tuple(Ref(r.cell, r.path + (('mv', i),)) for i in order), 0)
        return IterV('into', tuple(Agg(None, (Ref(r.cell, r.path + (('mk', i),)), Ref(r.cell, r.path + (('mv', i),)))) for i in order), 0)


@pattern(r'^(std::collections::)?HashMap::<.*>::entry$')
def hashmap_entry(it, args, callee):
    r, k = args
    while isinstance(rd(r), Ref):
        r = rd(r)
    return Agg('HashMapEntry', (r, k))


def _entry_slot(it, e, make):
    r, k = e.f
    m = rd(r)
    for i, (kk, vv) in enumerate(m.items):
        if M.key_eq(it, kk, k):
            return Ref(r.cell, r.path + (('mv', i),))
    wr(r, MapV(m.items + ((k, make()),)))
    return Ref(r.cell, r.path + (('mv', len(m.items)),))


@pattern(r'^(std::collections::hash_map::)?Entry::<.*>::(or_insert|or_default)$')
def entry_or_insert(it, args, callee):
    if callee.endswith('or_default'):
        raise Unsupported('Entry::or_default')
    return _entry_slot(it, args[0], lambda: args[1])


@pattern(r'^(std::collections::hash_map::)?Entry::<.*>::or_insert_with::<.*>$')
def entry_or_insert_with(it, args, callee):
    return _entry_slot(it, args[0], lambda: it.call_callable(args[1], []))


@pattern(r'^(std::collections::hash_map::)?Entry::<.*>::and_modify::<.*>$')
def entry_and_modify(it, args, callee):
    r, k = args[0].f
    m = rd(r)
    for i, (kk, vv) in enumerate(m.items):
        if M.key_eq(it, kk, k):
            it.call_callable(args[1], [Ref(r.cell, r.path + (('mv', i),))])
            break
    return args[0]


@pattern(r'^<(std::boxed::)?Box<.*> as Drop>::drop$')
def box_drop(it, args, callee):
    # deallocation only: the content has been dropped by the drop glue before
    return UNIT


@pattern(r'^(std::collections::)?HashMap::<.*>::(retain|extend|with_capacity|insert_unique_unchecked|get_or_insert_with|get_key_value)(::<.*>)?$')
def hashmap_other(it, args, callee):
    if '::with_capacity' in callee:
        return MapV(())
    raise Unsupported('HashMap API ' + callee[-50:])


# --------------------------------------------------------------------------- HashSet = map to unit

@pattern(r'^(std::collections::)?HashSet::<.*>::(new|with_capacity)$')
def hashset_new(it, args, callee):
    return MapV(())


@pattern(r'^<(std::collections::)?HashSet<.*> as (Default)>::default$')
def hashset_default(it, args, callee):
    return MapV(())


@pattern(r'^(std::collections::)?HashSet::<.*>::insert$')
def hashset_insert(it, args, callee):
    return M.hashmap_insert(it, [args[0], args[1], UNIT], callee).name == 'None'


@pattern(r'^(std::collections::)?HashSet::<.*>::contains::<.*>$')
def hashset_contains(it, args, callee):
    return M.hashmap_get(it, args, callee).name == 'Some'


@pattern(r'^(std::collections::)?HashSet::<.*>::remove::<.*>$')
def hashset_remove(it, args, callee):
    return M.hashmap_remove(it, args, callee).name == 'Some'


@pattern(r'^(std::collections::)?HashSet::<.*>::(len)$')
def hashset_len(it, args, callee):
    return len(deref_all(args[0]).items)


@pattern(r'^(std::collections::)?HashSet::<.*>::(is_empty)$')
def hashset_is_empty(it, args, callee):
    return len(deref_all(args[0]).items) == 0


@pattern(r'^(std::collections::)?HashSet::<.*>::(clear)$')
def hashset_clear(it, args, callee):
    wr(args[0], MapV(()))
    return UNIT


@pattern(r'^(std::collections::)?HashSet::<.*>::(iter|into_iter|drain)$')
def hashset_iter(it, args, callee):
    return hashmap_iter(it, args, callee.rsplit('::', 1)[0] + '::keys')


@pattern(r'^<(std::collections::)?HashSet<.*> as Clone>::clone$')
def hashset_clone(it, args, callee):
    return rd(args[0])


@pattern(r'^<(std::collections::)?HashMap<.*> as (Default)>::default$')
def hashmap_default(it, args, callee):
    return MapV(())


@pattern(r'^<(std::collections::)?HashMap<.*> as Clone>::clone$')
def hashmap_clone(it, args, callee):
    return rd(args[0])


# =============================================================================== Option / Result extras

@pattern(r'^(std::option::)?Option::<.*>::(as_ref|as_mut|as_deref)$')
def option_as_ref(it, args, callee):
    r = args[0]
    o = rd(r)
    if o.name == 'None':
        return NONE
    return Some(Ref(r.cell, r.path + (('f', 0),)))


@pattern(r'^(std::option::)?Option::<.*>::(take)$')
def option_take(it, args, callee):
    o = rd(args[0])
    wr(args[0], NONE)
    return o


@pattern(r'^(std::option::)?Option::<.*>::(replace|insert)$')
def option_replace(it, args, callee):
    o = rd(args[0])
    wr(args[0], Some(args[1]))
    if callee.endswith('insert'):
        return Ref(args[0].cell, args[0].path + (('f', 0),))
    return o


@pattern(r'^(std::option::)?Option::<&(mut )?.*>::(cloned|copied)$')
def option_cloned(it, args, callee):
    o = args[0]
    if o.name == 'None':
        return NONE
    return Some(rd(o.f[0]))


@pattern(r'^(std::option::)?Option::<.*>::(filter|is_some_and|is_none_or|map_or|map_or_else|or_else|get_or_insert_with|and_then|or|and|xor|zip|flatten)(::<.*>)?$')
def option_combinators(it, args, callee):
    op = re.search(r'::(filter|is_some_and|is_none_or|map_or_else|map_or|or_else|get_or_insert_with|and_then|or|and|xor|zip|flatten)(::<.*>)?$', callee).group(1)
    o = args[0]
    if op == 'get_or_insert_with':
        cur = rd(o)
        if cur.name == 'None':
            wr(o, Some(it.call_callable(args[1], [])))
        return Ref(o.cell, o.path + (('f', 0),))
    some = o.name == 'Some'
    if op == 'filter':
        if some and it.truth(it.call_callable(args[1], [Ref(Cell(o.f[0], 'opt'), ())])):
            return o
        return NONE
    if op == 'is_some_and':
        return it.truth(it.call_callable(args[1], [o.f[0]])) if some else False
    if op == 'is_none_or':
        return it.truth(it.call_callable(args[1], [o.f[0]])) if some else True
    if op == 'map_or':
        return it.call_callable(args[2], [o.f[0]]) if some else args[1]
    if op == 'map_or_else':
        return it.call_callable(args[2], [o.f[0]]) if some else it.call_callable(args[1], [])
    if op == 'or_else':
        return o if some else it.call_callable(args[1], [])
    if op == 'and_then':
        return it.call_callable(args[1], [o.f[0]]) if some else NONE
    if op == 'or':
        return o if some else args[1]
    if op == 'and':
        return args[1] if some else NONE
    if op == 'xor':
        b = args[1]
        if some != (b.name == 'Some'):
            return o if some else b
        return NONE
    if op == 'zip':
        b = args[1]
        return Some(Agg(None, (o.f[0], b.f[0]))) if some and b.name == 'Some' else NONE
    if op == 'flatten':
        return o.f[0] if some else NONE
    raise Unsupported('Option::' + op)


@pattern(r'^<(std::option::)?Option<.*> as (Default)>::default$')
def option_default(it, args, callee):
    return NONE


@pattern(r'^(std::result::)?Result::<.*>::(and_then|or_else|unwrap_or|unwrap_or_else|err|as_ref|map_or_else|is_ok_and|is_err_and|unwrap_err|expect_err|and|or)(::<.*>)?$')
def result_combinators(it, args, callee):
    op = re.search(r'::(and_then|or_else|unwrap_or_else|unwrap_or|err|as_ref|map_or_else|is_ok_and|is_err_and|unwrap_err|expect_err|and|or)(::<.*>)?$', callee).group(1)
    r = args[0]
    if op == 'as_ref':
        v = rd(r)
        return Enum('Result', v.idx, v.name, (Ref(r.cell, r.path + (('f', 0),)),))
    ok = r.name == 'Ok'
    if op == 'and_then':
        return it.call_callable(args[1], [r.f[0]]) if ok else r
    if op == 'or_else':
        return r if ok else it.call_callable(args[1], [r.f[0]])
    if op == 'unwrap_or':
        return r.f[0] if ok else args[1]
    if op == 'unwrap_or_else':
        return r.f[0] if ok else it.call_callable(args[1], [r.f[0]])
    if op == 'err':
        return NONE if ok else Some(r.f[0])
    if op == 'map_or_else':
        return it.call_callable(args[2], [r.f[0]]) if ok else it.call_callable(args[1], [r.f[0]])
    if op == 'is_ok_and':
        return it.truth(it.call_callable(args[1], [r.f[0]])) if ok else False
    if op == 'is_err_and':
        return it.truth(it.call_callable(args[1], [r.f[0]])) if not ok else False
    if op in ('unwrap_err', 'expect_err'):
        if ok:
            it.panic('called `Result::unwrap_err()` on an `Ok` value')
        return r.f[0]
    if op == 'and':
        return args[1] if ok else r
    if op == 'or':
        return r if ok else args[1]
    raise Unsupported('Result::' + op)


# =============================================================================== mem / Cell / RefCell / atomics / thread_local

@pattern(r'^(std|core)::mem::(replace|take|swap)::<.*>$')
def mem_ops(it, args, callee):
    op = re.search(r'::mem::(\w+)::<', callee).group(1)
    if op == 'replace':
        old = rd(args[0])
        wr(args[0], args[1])
        return old
    if op == 'swap':
        a, b = rd(args[0]), rd(args[1])
        wr(args[0], b)
        wr(args[1], a)
        return UNIT
    old = rd(args[0])
    ty = re.search(r'::take::<(.*)>$', callee).group(1)
    if 'String' in ty and 'Vec' not in ty and 'Option' not in ty:
        new = Str(())
    elif ty.startswith(('Vec', 'std::vec::Vec')):
        new = Arr((), 'vec')
    elif ty.startswith(('Option', 'std::option::Option')):
        new = NONE
    elif ty in INT_TYPES:
        new = 0
    elif ty == 'bool':
        new = False
    else:
        raise Unsupported('mem::take of ' + ty)
    wr(args[0], new)
    return old


@pattern(r'^(std|core)::mem::(drop)::<.*>$')
def mem_drop(it, args, callee):
    it.drop_value(args[0], False)
    return UNIT


@pattern(r'^(std::cell::|core::cell::)?(Cell|RefCell)::<.*>::new$')
def cell_new(it, args, callee):
    return Agg('CellBox', (args[0],))


@pattern(r'^(std::cell::|core::cell::)?Cell::<.*>::(get|set|replace|take)$')
def cell_ops(it, args, callee):
    op = callee.rsplit('::', 1)[1]
    r = args[0]
    box = rd(r)
    inner = Ref(r.cell, r.path + (('f', 0),))
    if op == 'get':
        return box.f[0]
    old = box.f[0]
    if op == 'take':
        raise Unsupported('Cell::take')
    wr(inner, args[1])
    return UNIT if op == 'set' else old


@pattern(r'^(std::cell::|core::cell::)?RefCell::<.*>::(borrow|borrow_mut)$')
def refcell_borrow(it, args, callee):
    r = args[0]
    return Agg('RefGuard', (Ref(r.cell, r.path + (('f', 0),)),))


@pattern(r'^<(std::cell::|core::cell::)?Ref(Mut)?<.*> as Deref(Mut)?>::deref(_mut)?$')
def refguard_deref(it, args, callee):
    return rd(args[0]).f[0]


@pattern(r'^(std::sync::atomic::|core::sync::atomic::)?Atomic(Bool|Usize|U64|U32|I64|I32|Isize|U8)::new$|^(std::sync::atomic::|core::sync::atomic::)?Atomic::<(bool|usize|u64|u32|i64|i32|isize|u8)>::new$')
def atomic_new(it, args, callee):
    return Agg('Atomic', (args[0],))


@pattern(r'^(std::sync::atomic::|core::sync::atomic::)?Atomic(Bool|Usize|U64|U32|I64|I32|Isize|U8|::<\w+>)::(load|store|swap|fetch_add|fetch_sub|fetch_or|fetch_and|fetch_xor|fetch_max|fetch_min|fetch_update|compare_exchange|compare_exchange_weak|compare_and_swap)$')
def atomic_ops(it, args, callee):
    m = re.search(r'Atomic(\w+|::<\w+>)::(\w+)$', callee)
    kind, op = m.group(1), m.group(2)
    if kind.startswith('::<'):
        ty = kind[3:-1]
    else:
        ty = {'Bool': 'bool', 'Usize': 'usize', 'U64': 'u64', 'U32': 'u32', 'I64': 'i64', 'I32': 'i32', 'Isize': 'isize', 'U8': 'u8'}[kind]
    if it.sched is not None:
        it.sched.yield_point(it, 'atomic ' + op)
    r = args[0]
    while isinstance(rd(r), Ref):
        r = rd(r)
    inner = Ref(r.cell, r.path + (('f', 0),))
    old = rd(inner)
    if op == 'load':
        return old
    if op == 'store':
        wr(inner, args[1])
        return UNIT
    if op == 'swap':
        wr(inner, args[1])
        return old
    if op in ('fetch_add', 'fetch_sub'):
        wr(inner, it.binop('Add' if op == 'fetch_add' else 'Sub', old, args[1], ty))
        return old
    if op in ('fetch_or', 'fetch_and', 'fetch_xor'):
        wr(inner, it.binop({'fetch_or': 'BitOr', 'fetch_and': 'BitAnd', 'fetch_xor': 'BitXor'}[op], old, args[1], ty))
        return old
    if op in ('fetch_max', 'fetch_min'):
        if it.truth(it.binop('Lt' if op == 'fetch_max' else 'Gt', old, args[1], ty)):
            wr(inner, args[1])
        return old
    if op.startswith('compare_exchange'):
        if it.truth(it.binop('Eq', old, args[1], ty)):
            wr(inner, args[2])
            return Ok(old)
        return Err(old)
    if op == 'compare_and_swap':
        if it.truth(it.binop('Eq', old, args[1], ty)):
            wr(inner, args[2])
        return old
    raise Unsupported('atomic ' + op)


@pattern(r'^(std::sync::)?(Once)::(new|call_once|is_completed)(::<.*>)?$')
def std_once(it, args, callee):
    op = re.search(r'Once::(\w+)', callee).group(1)
    if op == 'new':
        return OnceV(0, None, None)
    r = args[0]
    o = rd(r)
    if op == 'is_completed':
        return o.state == 2
    if it.sched is not None:
        return it.sched.once_call(it, r, args[1])
    if o.state == 2:
        return UNIT
    wr(r, OnceV(1, None, it.thread))
    it.call_callable(args[1], [])
    wr(r, OnceV(2, UNIT, None))
    return UNIT


@pattern(r'^(std::sync::)?OnceLock::<.*>::(new|get|get_or_init|set)(::<.*>)?$')
def std_oncelock(it, args, callee):
    op = re.search(r'OnceLock::<.*>::(\w+)', callee).group(1)
    if op == 'new':
        return OnceV(0, None, None)
    if op == 'get':
        return M.once_get(it, args, callee)
    if op == 'get_or_init':
        return M.once_get_or_init(it, args, callee)
    r = args[0]
    o = rd(r)
    if o.state == 2:
        return Err(args[1])
    wr(r, OnceV(2, args[1], None))
    return Ok(UNIT)


@pattern(r'^(std::sync::)?Mutex::<.*>::(try_lock|into_inner|get_mut|is_poisoned|clear_poison)$')
def mutex_extras(it, args, callee):
    op = callee.rsplit('::', 1)[1]
    r = args[0]
    if op == 'into_inner':
        m = r if isinstance(r, MutexV) else rd(r)
        return Err(m.data) if m.poisoned else Ok(m.data)
    while isinstance(rd(r), Ref):
        r = rd(r)
    m = rd(r)
    if op == 'is_poisoned':
        return m.poisoned
    if op == 'clear_poison':
        wr(r, MutexV(m.data, m.held, False))
        return UNIT
    if op == 'get_mut':
        ref = Ref(r.cell, r.path + (('mx',),))
        return Err(ref) if m.poisoned else Ok(ref)
    if m.held is not None:
        return Err(Enum('TryLockError', 1, 'WouldBlock', ()))
    wr(r, MutexV(m.data, it.thread, m.poisoned))
    g = GuardV(r)
    return Err(Enum('TryLockError', 0, 'Poisoned', (g,))) if m.poisoned else Ok(g)


@pattern(r'^(std::sync::)?(RwLock)::<.*>::(new|read|write)$')
def rwlock_ops(it, args, callee):
    op = callee.rsplit('::', 1)[1]
    if op == 'new':
        return MutexV(args[0], None, False)
    r = args[0]
    while isinstance(rd(r), Ref):
        r = rd(r)
    if it.sched is not None:
        return it.sched.rwlock(it, r, op)
    m = rd(r)
    if not isinstance(m, MutexV):
        raise ModelError('RwLock::%s on %r' % (op, m))
    me = it.thread
    if op == 'read':
        if m.held is None or isinstance(m.held, tuple):
            holders = dict(m.held[1]) if isinstance(m.held, tuple) else {}
            holders[me] = holders.get(me, 0) + 1          # recursive read on one thread: no writer can be waiting here
            wr(r, MutexV(m.data, ('r', tuple(sorted(holders.items()))), m.poisoned))
            g = GuardV(r, 'r')
            return Err(g) if m.poisoned else Ok(g)
        raise Deadlock('RwLock::read while this thread holds the write lock (%s)' % (r.cell.name or 'rwlock'), it.where())
    if m.held is not None:
        raise Deadlock('RwLock::write while this thread holds %s (%s)' % ('a read lock' if isinstance(m.held, tuple) else 'the write lock', r.cell.name or 'rwlock'), it.where())
    wr(r, MutexV(m.data, me, m.poisoned))
    g = GuardV(r, 'x')
    return Err(g) if m.poisoned else Ok(g)


@pattern(r'^<(std::sync::)?RwLock(Read|Write)Guard<.*> as Deref(Mut)?>::deref(_mut)?$')
def rwguard_deref(it, args, callee):
    return M.guard_deref(it, args, callee)


@pattern(r'^(std::sync::)?Arc::<.*>::(ptr_eq|strong_count)$')
def arc_misc(it, args, callee):
    if callee.endswith('ptr_eq'):
        return rd(args[0]).cell is rd(args[1]).cell
    raise Unsupported('Arc::strong_count')


@pattern(r'^(std::rc::)?Rc::<.*>::new$')
def rc_new(it, args, callee):
    return ArcV(Cell(args[0], 'rc'))


@pattern(r'^<(std::rc::)?Rc<.*> as (Clone|Deref)>::(clone|deref)$')
def rc_ops(it, args, callee):
    if callee.endswith('clone'):
        return rd(args[0])
    return Ref(rd(args[0]).cell, ())


@pattern(r'^<(std::boxed::)?Box<.*> as (Deref|DerefMut|AsRef<.*>|Borrow<.*>)>::(deref|deref_mut|as_ref|borrow)$')
def box_deref(it, args, callee):
    return rd(args[0])


@pattern(r'^<&(mut )?.* as Deref(Mut)?>::deref(_mut)?$')
def ref_deref(it, args, callee):
    return rd(args[0])


# =============================================================================== thread_local! (LocalKey / LazyStorage)

@pattern(r'^(std::thread::)?LocalKey::<.*>::new$')
def localkey_new(it, args, callee):
    a = args[0]
    what = a.what if isinstance(a, Opaque) else repr(a)
    return Agg('LocalKey', (what,))


@pattern(r'^(std::thread::)?LocalKey::<.*>::(with|try_with)::<.*>$')
def localkey_with2(it, args, callee):
    key = deref_all(args[0])
    f = args[1]
    if not (isinstance(key, Agg) and key.ty == 'LocalKey'):
        raise Unsupported('LocalKey::with on %r' % (key,))
    name = key.f[0]
    if name.startswith('const '):
        name = name[len('const '):]
    # the accessor generated by thread_local!:  <KEY>::{constant#0}::{closure#0|1}
    acc = None
    for n, b in it.mir.bodies.items():
        base = n.split('::{closure#')[0]
        if '::{closure#' in n and (base == name or name.endswith('::' + base) or base.endswith('::' + name)) and n.count('{closure#') == 1:
            acc = b
            break
    if acc is None:
        raise Unsupported('thread_local accessor not found for ' + name)
    ptr = it.run_body(acc, [Ref(Cell(Closure('tls-accessor', ()), 'env'), ()), NONE])
    r = it.call_callable(f, [ptr])
    return Ok(r) if '::try_with::' in callee else r


@pattern(r'^std::thread::local_impl::LazyStorage::<.*>::new$')
def lazystorage_new(it, args, callee):
    return OnceV(0, None, None)


@pattern(r'^std::thread::local_impl::LazyStorage::<.*>::get_or_init::<.*>$')
def lazystorage_get_or_init(it, args, callee):
    r, init_opt, f = args
    o = rd(r)
    if o.state != 2:
        v = None
        if isinstance(init_opt, Enum) and init_opt.name == 'Some':
            slot = init_opt.f[0]
            cur = rd(slot)
            if cur.name == 'Some':
                v = cur.f[0]
                wr(slot, NONE)
        if v is None:
            v = it.call_callable(f, [])
        wr(r, OnceV(2, v, None))
    return Ref(r.cell, r.path + (('oc',),))


@pattern(r'^(std|core)::mem::needs_drop::<.*>$')
def mem_needs_drop(it, args, callee):
    return True


# =============================================================================== fmt: format!/write!/to_string via Display

class FmtError(Exception):
    pass


def _render_template(it, tmpl, fargs, out):
    """new compact fmt template: n<0x80 => literal of n bytes; 0xC0 => next argument, default spec; 0 => end"""
    i = 0
    ai = 0
    n = len(tmpl)
    while i < n:
        b = tmpl[i]
        i += 1
        if b == 0:
            break
        if b == 0xC0:
            if ai >= len(fargs):
                raise Unsupported('fmt template refers to a missing argument')
            _display(it, fargs[ai], out)
            ai += 1
        elif b < 0x80:
            out.extend(tmpl[i:i + b])
            i += b
        else:
            raise Unsupported('fmt template with formatting options (0x%02x)' % b)


def _display(it, farg, out):
    kind, ref = farg.f
    v = ref
    depth = 0
    while isinstance(v, Ref) and depth < 8:
        inner = rd(v)
        if isinstance(inner, (Enum, Agg)) and getattr(inner, 'ty', None) in it.src.crate_types:
            break
        v = inner
        depth += 1
    if isinstance(v, Ref):
        val = rd(v)
        trait = 'Display' if kind == 'display' else 'Debug'
        for (b, ity, itr, _) in it.by_method.get('fmt', []):
            if ity == val.ty and itr == trait:
                fcell = Cell(Agg('Formatter', (out,)), 'formatter')
                res = it.run_body(b, [v, Ref(fcell, ())])
                return
        raise Unsupported('no %s impl found for %s' % (trait, val.ty))
    if isinstance(v, Str):
        if kind == 'debug':
            raise Unsupported('Debug rendering of a string')
        out.extend(v.b)
        return
    if isinstance(v, DecStr):
        out.extend(sbytes(v, 'format'))
        return
    if isinstance(v, bool):
        out.extend(b'true' if v else b'false')
        return
    if isinstance(v, int):
        out.extend(str(v).encode())
        return
    if isinstance(v, Dec):
        if is_sym(v.m):
            raise OutsideModel('formatting a symbolic decimal')
        out.extend(M.dec_to_text(v).encode())
        return
    if isinstance(v, ArcV) or isinstance(v, Enum) or isinstance(v, Agg):
        val = v
        trait = 'Display' if kind == 'display' else 'Debug'
        ty = getattr(val, 'ty', None)
        for (b, ity, itr, _) in it.by_method.get('fmt', []):
            if ity == ty and itr == trait:
                fcell = Cell(Agg('Formatter', (out,)), 'formatter')
                it.run_body(b, [Ref(Cell(val, 'fmt-arg'), ()), Ref(fcell, ())])
                return
    if is_sym(v):
        raise OutsideModel('formatting a symbolic scalar')
    raise Unsupported('fmt of %r' % (v,))


# remove the blanket "fmt machinery is unsupported" patterns of models.py
M.PATTERNS[:] = [(rx, fn) for (rx, fn) in M.PATTERNS if fn is not M.fmt_any]
for _k in ('format', 'std::fmt::format', 'alloc::fmt::format'):
    M.MODELS.pop(_k, None)


@pattern(r"^core::fmt::rt::Argument::<'_>::new_(display|debug)::<.*>$")
def fmt_argument_new(it, args, callee):
    return Agg('FmtArg', ('display' if '::new_display::<' in callee else 'debug', args[0]))


@pattern(r"^(core::fmt::|std::fmt::)?Arguments::<'_>::new::<.*>$")
def fmt_arguments_new(it, args, callee):
    tmpl = rd(args[0]) if isinstance(args[0], Ref) else args[0]
    arr = rd(args[1]) if isinstance(args[1], Ref) else args[1]
    return Agg('FmtArgs', (tuple(tmpl.items), tuple(arr.items)))


@pattern(r"^(core::fmt::|std::fmt::)?Arguments::<'_>::(from_str|new_const)(::<.*>)?$")
def fmt_arguments_from_str(it, args, callee):
    s = deref_all(args[0])
    if isinstance(s, Str):
        return Agg('FmtArgs', ((), (), tuple(s.b)))
    raise Unsupported('Arguments::from_str of %r' % (s,))


def _render_args(it, fa, out):
    if len(fa.f) == 3:
        out.extend(fa.f[2])
    else:
        _render_template(it, fa.f[0], fa.f[1], out)


@model('format', 'std::fmt::format', 'alloc::fmt::format')
def fmt_format2(it, args, callee):
    out = []
    _render_args(it, args[0], out)
    return Str(tuple(out))


@pattern(r"^(core::fmt::|std::fmt::)?Formatter::<'_>::write_fmt$")
def formatter_write_fmt(it, args, callee):
    f = rd(args[0])
    _render_args(it, args[1], f.f[0])
    return Ok(UNIT)


@pattern(r"^(core::fmt::|std::fmt::)?Formatter::<'_>::write_str$")
def formatter_write_str(it, args, callee):
    f = rd(args[0])
    f.f[0].extend(sbytes(as_str(args[1]), 'write_str'))
    return Ok(UNIT)


@pattern(r"^<(core::fmt::|std::fmt::)?Formatter<'_> as (core::fmt::|std::fmt::)?Write>::write_(str|char)$")
def formatter_write_trait(it, args, callee):
    f = rd(args[0])
    if callee.endswith('write_char'):
        f.f[0].extend(M.encode_char(it, args[1]))
    else:
        f.f[0].extend(sbytes(as_str(args[1]), 'write_str'))
    return Ok(UNIT)


@pattern(r"^<(std::string::)?String as (core::fmt::|std::fmt::)?Write>::write_(str|char|fmt)$")
def string_write_trait(it, args, callee):
    s = rd(args[0])
    if callee.endswith('write_fmt') and isinstance(s, Str) and s.concrete():
        # write!(buf, "{}", d) of a decimal with a symbolic mantissa: the buffer becomes (bytes ++) the text of d
        fa = args[1]
        if len(fa.f) == 2 and tuple(fa.f[0]) in ((0xC0,), (0xC0, 0)) and len(fa.f[1]) == 1:
            v = fa.f[1][0].f[1]
            d = deref_all(v)
            if fa.f[1][0].f[0] == 'display' and isinstance(d, Dec) and is_sym(d.m):
                ds = M.dec_to_string(it, [v], 'to_string')
                if isinstance(ds, DecStr):
                    wr(args[0], ds if len(s.b) == 0 else CatStr(s.b, ds))
                    return Ok(UNIT)
    out = list(sbytes(s, 'write'))
    if callee.endswith('write_char'):
        out.extend(M.encode_char(it, args[1]))
    elif callee.endswith('write_fmt'):
        _render_args(it, args[1], out)
    else:
        out.extend(sbytes(as_str(args[1]), 'write_str'))
    wr(args[0], Str(tuple(out)))
    return Ok(UNIT)


@pattern(r"^(core::fmt::|std::fmt::)?Formatter::<'_>::(debug_tuple_field\d_finish|debug_struct_field\d_finish|pad|pad_integral|debug_list|debug_struct|debug_tuple)$")
def formatter_debug(it, args, callee):
    raise Unsupported('Debug formatting helpers are not modelled')


@pattern(r'^<.* as ToString>::to_string$')
def generic_to_string(it, args, callee):
    v = args[0]
    out = []
    _display(it, Agg('FmtArg', ('display', v)), out)
    return Str(tuple(out))


@pattern(r'^core::str::<impl str>::(trim_start_matches|trim_end_matches|trim_matches)::<.*>$')
def str_trim_matches(it, args, callee):
    bs = sbytes(as_str(args[0]), 'trim_matches')
    pat = _pattern_of(it, args[1], callee)
    which = re.search(r'::(trim_\w+)::<', callee).group(1)
    lo, hi = 0, len(bs)
    if which in ('trim_start_matches', 'trim_matches'):
        while lo < hi:
            ok, w = _match_at(it, bs, lo, pat)
            if not ok or w == 0:
                break
            lo += w
    if which in ('trim_end_matches', 'trim_matches'):
        if pat[0] == 'str':
            n = len(pat[1])
            while n and hi - n >= lo and it.truth(M.str_eq(it, bs[hi - n:hi], pat[1])):
                hi -= n
        else:
            starts = [s_ for s_ in _char_starts(it, bs) if s_ >= lo]
            while starts and hi > lo:
                ok, w = _match_at(it, bs, starts[-1], pat)
                if not ok:
                    break
                hi = starts.pop()
    return Str(bs[lo:hi])


@pattern(r'^core::str::<impl str>::(strip_prefix|strip_suffix)::<.*>$')
def str_strip(it, args, callee):
    bs = sbytes(as_str(args[0]), 'strip')
    pat = _pattern_of(it, args[1], callee)
    if 'strip_prefix' in callee:
        if not bs and pat[0] != 'str':
            return NONE
        if pat[0] == 'str' and len(pat[1]) == 0:
            return Some(Str(bs))
        ok, w = _match_at(it, bs, 0, pat) if bs else (False, 0)
        return Some(Str(bs[w:])) if ok else NONE
    if pat[0] == 'str':
        n = len(pat[1])
        if n <= len(bs) and it.truth(M.str_eq(it, bs[len(bs) - n:], pat[1])):
            return Some(Str(bs[:len(bs) - n]))
        return NONE
    starts = _char_starts(it, bs)
    if not starts:
        return NONE
    ok, w = _match_at(it, bs, starts[-1], pat)
    return Some(Str(bs[:starts[-1]])) if ok else NONE


@pattern(r'^core::str::<impl str>::(split|splitn|rsplit|split_whitespace|lines|split_terminator|split_once|rsplit_once|char_indices_rev|matches|match_indices|replace|replacen|repeat)(::<.*>)?$')
def str_split_family(it, args, callee):
    raise Unsupported('str API not modelled: ' + callee[-40:])


# =============================================================================== addresses (only their equality is observable)

@pattern(r'^core::str::<impl str>::as_ptr$|^(std::string::)?String::as_ptr$|^(core|std)::slice::<impl \[.*\]>::as_ptr$|^(std::vec::)?Vec::<.*>::as_ptr$')
def as_ptr(it, args, callee):
    """the address of a buffer: a fresh symbolic word per distinct buffer object.  Two buffers that are
    not alive at the same time may or may not share an address (allocator reuse), so the solver is free
    to make them equal; whether a model is realisable is settled by the native replay."""
    v = args[0]
    while isinstance(v, Ref):
        v = rd(v)
    key = v.b if isinstance(v, Str) else (v.items if isinstance(v, Arr) else v)
    if it.x is None:
        raise Unsupported('as_ptr without exploration context')
    tab = it.x.__dict__.setdefault('ptrs', {})
    ent = tab.get(id(key))
    if ent is None:
        sym = it.x.bv('addr_%d' % len(tab), 64)
        ent = (key, sym)
        tab[id(key)] = ent
    return ent[1]


@pattern(r'^(std::sync::)?Arc::<.*>::as_ptr$|^(std::rc::)?Rc::<.*>::as_ptr$|^(std::boxed::)?Box::<.*>::as_ptr$')
def arc_as_ptr(it, args, callee):
    """the address of a shared allocation: one symbolic word per allocation (the model's cell).  An allocation made
    after another one was dropped may reuse its address; the solver may identify them, the replay settles it."""
    v = args[0]
    while isinstance(v, Ref):
        v = rd(v)
    cell = getattr(v, 'cell', None)
    if cell is None:
        raise Unsupported('as_ptr of %s' % type(v).__name__)
    if it.x is None:
        return id(cell) & ((1 << 63) - 1)
    tab = it.x.__dict__.setdefault('ptrs', {})
    ent = tab.get(id(cell))
    if ent is None:
        sym = it.x.bv('addr_%d' % len(tab), 64)
        ent = (cell, sym)
        tab[id(cell)] = ent
    return ent[1]


@pattern(r'^<(std::vec::IntoIter|std::slice::Iter|std::iter::\w+)<.*> as Iterator>::unzip::<.*>$')
def iter_unzip(it, args, callee):
    v = args[0]
    items = v.items[v.pos:] if isinstance(v, IterV) else None
    if items is None or v.kind not in ('into', 'refs'):
        raise Unsupported('unzip on %r' % (v,))
    a, b = [], []
    for x in items:
        x = rd(x) if isinstance(x, Ref) else x
        a.append(x.f[0])
        b.append(x.f[1])
    return Agg(None, (Arr(tuple(a), 'vec'), Arr(tuple(b), 'vec')))


@pattern(r'^<\*(const|mut) .* as PartialEq>::eq$')
def rawptr_eq(it, args, callee):
    return M.generic_eq(it, args[0], args[1])


# =============================================================================== binary floating point (mirsym/fp.py)
import math
import fp as FPM


def _fty(callee):
    m = re.search(r'f(32|64)', callee)
    return 'f' + m.group(1) if m else 'f64'


@pattern(r'^(core::|std::)?f(32|64)::<impl f(32|64)>::(trunc|floor|ceil|round|round_ties_even)$')
def float_round(it, args, callee):
    mode = callee.rsplit('::', 1)[1]
    mode = {'round_ties_even': 'even'}.get(mode, mode)
    return FPM.round_to_integral(args[0], mode, _fty(callee), simp)


@pattern(r'^(core::|std::)?intrinsics::(truncf|floorf|ceilf|roundf|round_ties_even_f|rintf|nearbyintf)(32|64)$')
def float_round_intrinsic(it, args, callee):
    m = re.search(r'(truncf|floorf|ceilf|roundf|round_ties_even_f|rintf|nearbyintf)(32|64)$', callee)
    mode = {'truncf': 'trunc', 'floorf': 'floor', 'ceilf': 'ceil', 'roundf': 'round'}.get(m.group(1), 'even')
    return FPM.round_to_integral(args[0], mode, 'f' + m.group(2), simp)


@pattern(r'^(core::|std::)?f(32|64)::<impl f(32|64)>::fract$')
def float_fract(it, args, callee):
    ty = _fty(callee)
    v = args[0]
    if FPM.is_integral_term(v):
        # x - trunc(x) with trunc(x) == x: +0.0 for finite x, NaN for an infinity (f64 conversions of <=128-bit integers are finite)
        S = FPM.SORTS[ty]
        return simp(z3.If(z3.fpIsInf(v), z3.fpNaN(S), z3.FPVal(0.0, S))) if ty == 'f32' else 0.0
    return FPM.binop('Sub', v, FPM.round_to_integral(v, 'trunc', ty, simp), ty, simp)


@pattern(r'^(core::|std::)?f(32|64)::<impl f(32|64)>::abs$|^(core::|std::)?intrinsics::fabsf(32|64)$')
def float_abs(it, args, callee):
    v = args[0]
    return abs(v) if isinstance(v, float) else simp(z3.fpAbs(v))


@pattern(r'^(core::|std::)?f(32|64)::<impl f(32|64)>::(is_nan|is_infinite|is_finite|is_sign_negative|is_sign_positive)$')
def float_class(it, args, callee):
    v = args[0]
    k = callee.rsplit('::', 1)[1]
    if isinstance(v, float):
        return {'is_nan': v != v, 'is_infinite': v in (math.inf, -math.inf), 'is_finite': v == v and v not in (math.inf, -math.inf),
                'is_sign_negative': math.copysign(1.0, v) < 0, 'is_sign_positive': math.copysign(1.0, v) > 0}[k]
    if k == 'is_nan':
        return simp(z3.fpIsNaN(v))
    if k == 'is_infinite':
        return simp(z3.fpIsInf(v))
    if k == 'is_finite':
        return simp(z3.Not(z3.Or(z3.fpIsNaN(v), z3.fpIsInf(v))))
    if k == 'is_sign_negative':
        return simp(z3.fpIsNegative(v))
    return simp(z3.fpIsPositive(v))


@pattern(r'^(core::|std::)?f(32|64)::<impl f(32|64)>::powi$|^(core::|std::)?intrinsics::powif(32|64)$')
def float_powi(it, args, callee):
    a, n = args
    if is_sym(a) or is_sym(n):
        n = it.concretize(n) if is_sym(n) else n
        if is_sym(a):
            raise Unsupported('powi of a symbolic float')
    try:
        return FPM.powi(a, int(n), _fty(callee))
    except OverflowError:
        return math.inf


@pattern(r'^(core::|std::)?f(32|64)::<impl f(32|64)>::(max|min)$')
def float_minmax(it, args, callee):
    a, b = args
    if isinstance(a, float) and isinstance(b, float):
        if a != a:
            return b
        if b != b:
            return a
        return max(a, b) if callee.endswith('max') else min(a, b)
    ty = _fty(callee)
    A, B = FPM.to_z3(a, ty), FPM.to_z3(b, ty)
    return simp(z3.fpMax(A, B) if callee.endswith('max') else z3.fpMin(A, B))


@pattern(r'^<f64 as From<(f32|i8|i16|i32|u8|u16|u32)>>::from$|^<f32 as From<(i8|i16|u8|u16)>>::from$')
def float_from(it, args, callee):
    m = re.match(r'^<(f32|f64) as From<(\w+)>>', callee)
    toty, fromty = m.group(1), m.group(2)
    if fromty == 'f32':
        return FPM.float_to_float(args[0], 'f32', 'f64', simp)
    w, signed = INT_TYPES[fromty]
    return FPM.int_to_float(args[0], w, signed, toty, simp)


def _dec_bv128(it, d):
    """|mantissa| of a Dec as a 128-bit vector term (fresh variable tied to the Int term when symbolic) and the sign"""
    m = d.m
    if not is_sym(m):
        return abs(int(m)), (m < 0 or (m == 0 and d.src == 'negzero'))
    if d.src is not None and d.src != 'negzero' and isinstance(d.src, tuple) and d.src[0] == 'bv':
        v, signed = d.src[1], d.src[2]
        w = v.size()
        ext = z3.SignExt(128 - w, v) if signed else z3.ZeroExt(128 - w, v)
        neg = it.truth(ext < 0)
        return (simp(-ext) if neg else ext), neg
    if not os.environ.get('VERIF_FP_INT_TIE'):
        # tying a fresh bit-vector to an integer-sorted mantissa (bv2int) and feeding it to float conversions is not decided
        # by z3 within the time caps; bit-vector sourced numbers (kinds i64 / i128 of the harnesses) are
        raise OutsideModel('Decimal::to_f64 of an integer-sorted symbolic mantissa')
    neg = it.truth(m < 0)
    a = simp(-m) if neg else m
    if it.x is None:
        raise Unsupported('symbolic decimal to float without exploration context')
    k = getattr(it.x, '_fpk', 0)
    it.x._fpk = k + 1
    bv = it.x.bv('dec2f_%d' % k, 128)
    it.x.add(z3.BV2Int(bv, False) == a)
    return bv, neg


@pattern(r'^<rust_decimal::Decimal as (rust_decimal::prelude::|num_traits::)?ToPrimitive>::to_f64$')
def dec_to_f64(it, args, callee):
    """rust_decimal 1.31 ToPrimitive::to_f64: scale 0 -> (i128 as f64); else integral + frac/10^s, times 10^s, round, / 10^s"""
    d = deref_all(args[0])
    mag, neg = _dec_bv128(it, d)
    s = d.s
    if s == 0:
        if isinstance(mag, int):
            return Some(FPM.from_int(-mag if neg else mag, 'f64'))
        f = FPM.int_to_float(mag, 128, False, 'f64', simp)
        return Some(simp(z3.fpNeg(f)) if neg else f)
    prec = 10 ** s
    round_to = FPM.powi(10.0, s, 'f64')
    if isinstance(mag, int):
        ip, fpart = divmod(mag, prec)
        frac = FPM.from_int(fpart, 'f64') / FPM.from_int(prec, 'f64')
        value = (-1.0 if neg else 1.0) * (FPM.from_int(ip, 'f64') + frac)
        return Some(FPM.round_to_integral(value * round_to, 'round', 'f64', simp) / round_to)
    if not os.environ.get('VERIF_FP_SCALED'):
        # 128-bit division by 10^s feeding two float divisions and a rounding: z3 does not decide it within the time caps
        raise OutsideModel('Decimal::to_f64 of a symbolic decimal with a fraction part')
    P = z3.BitVecVal(prec, 128)
    ip = FPM.int_to_float(simp(z3.UDiv(mag, P)), 128, False, 'f64', simp)
    fpart = FPM.int_to_float(simp(z3.URem(mag, P)), 128, False, 'f64', simp)
    S = FPM.SORTS['f64']
    frac = z3.fpDiv(FPM.RNE, fpart, z3.FPVal(FPM.from_int(prec, 'f64'), S))
    value = z3.fpMul(FPM.RNE, z3.FPVal(-1.0 if neg else 1.0, S), z3.fpAdd(FPM.RNE, ip, frac))
    rt = z3.FPVal(round_to, S)
    return Some(simp(z3.fpDiv(FPM.RNE, z3.fpRoundToIntegral(z3.RNA(), z3.fpMul(FPM.RNE, value, rt)), rt)))


# the older catch-all (to_f32 / to_f64 unsupported) now only answers for to_f32
M.PATTERNS[:] = [(rx, f) for (rx, f) in M.PATTERNS if not (getattr(f, '__module__', '') == 'models' and getattr(f, '__name__', '') in ('dec_to_float', 'dec_from_float'))]


@pattern(r'^<rust_decimal::Decimal as (rust_decimal::prelude::|num_traits::)?ToPrimitive>::to_f32$')
def dec_to_f32(it, args, callee):
    raise Unsupported('Decimal::to_f32 (not modelled)')


@pattern(r'^<rust_decimal::Decimal as (rust_decimal::prelude::|num_traits::)?FromPrimitive>::from_f(32|64)$')
def dec_from_float(it, args, callee):
    """rust_decimal 1.31 FromPrimitive::from_f32/from_f64: None for NaN / infinities; a whole number below 2^96 converts
    exactly (base2_to_decimal loses no digit when the binary exponent is non-negative, and trims excess digits only behind
    the point); fractional inputs go through its digit-trimming loop, which is not modelled (outside)."""
    ty = 'f' + re.search(r'from_f(32|64)$', callee).group(1)
    v = args[0]
    lim = float(1 << 96)
    if isinstance(v, float):
        if v != v or v in (math.inf, -math.inf):
            return NONE
        if v == math.floor(v):
            if abs(v) >= lim:
                return NONE
            return Some(Dec(int(v), 0))
        raise OutsideModel('Decimal::from_f64 of a fractional float (digit trimming not modelled)')
    if it.truth(z3.Or(z3.fpIsNaN(v), z3.fpIsInf(v))):
        return NONE
    whole = z3.fpEQ(z3.fpRoundToIntegral(z3.RTZ(), v), v)
    if not it.truth(whole):
        raise OutsideModel('Decimal::from_f64 of a fractional float (digit trimming not modelled)')
    S = FPM.SORTS[ty]
    if it.truth(z3.fpGEQ(z3.fpAbs(v), z3.FPVal(lim, S))):
        return NONE
    bv = simp(z3.fpToSBV(z3.RTZ(), v, z3.BitVecSort(128)))
    return Some(Dec(z3.BV2Int(bv, True), 0, ('bv', bv, True)))
