#!/usr/bin/env bash
# regress_seeds.sh [ids...] : every seeded change against the first check recorded in its meta.json (scratch copy of /repo);
# prints one line per seed with the exit code (1 = detected).
cd /verif
ids="$@"
[ -z "$ids" ] && ids=$(ls seeded)
for s in $ids; do
  c=$(python3 -c "import json;m=json.load(open('/verif/seeded/$s/meta.json'));d=m.get('detected_by') or [];print(d[0] if d else '')")
  [ -z "$c" ] && { echo "$s - skipped (recorded as not detected)"; continue; }
  t0=$(date +%s)
  out=$(tools/try_seed_copy.sh $s $c 2>&1 | head -1)
  echo "$s $c $(( $(date +%s) - t0 ))s $(echo "$out" | sed 's/^== [^ ]* \/ [^ ]* //' | cut -c1-110)"
done
