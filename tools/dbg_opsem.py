import sys, collections, time
sys.path.insert(0,'/verif/mirsym')
import buildcache, explore as ex
from engine import Engine
from harness import opsem
art=buildcache.ensure()
eng=Engine(art.crate, art.mir('dev'),'dev')
tier=sys.argv[1] if len(sys.argv)>1 else 'quick'
only=sys.argv[2:] 
tpls=[t for t in opsem.templates(tier,'C03') if not only or t[0] in only]
t0=time.time()
recs,st=ex.explore(eng,opsem.harness,{'templates':tpls,'step_limit':400000,'timeout_ms':10000},prepare=opsem.prepare)
c=collections.Counter(); s=collections.Counter()
for r in recs:
    c[r.get('tpl')]+=1; s[(r.get('tpl'),r['status'])]+=1
print('total',st['paths'],'wall',time.time()-t0,'solver',st['solver_s'])
for k,v in c.most_common(): print(v,k,{a[1]:b for a,b in s.items() if a[0]==k})
for r in recs:
    if r['status'] in('inconclusive','unsupported'): print(r.get('tpl'),r.get('notes'),r['status'],r.get('detail'),r.get('kinds'),r.get('trace','')[-300:]) 
