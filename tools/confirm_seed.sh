#!/usr/bin/env bash
# confirm_seed.sh <worktree> <variant A|B> <seed-id> <property>
# Confirms in the scratch worktree: suite passes with the change, demo fails with it, demo passes without it.
set -u
WT=$1; V=$2; ID=$3; PROP=$4
S=$WT/seeded/$V
export CARGO_TARGET_DIR=$WT/target CARGO_NET_OFFLINE=true
cd $WT || exit 2
git checkout -q -- src 2>/dev/null; rm -rf tests/demo.rs
git apply --check $S/patch.diff || { echo "PATCH DOES NOT APPLY"; exit 2; }
git apply $S/patch.diff
SUITE=$(cargo test --offline 2>&1 | grep "test result" | tr '\n' ' ')
mkdir -p tests; cp $S/demo.rs tests/demo.rs
DEMO_WITH=$(cargo test --offline --test demo 2>&1 | grep "test result" | tr '\n' ' ')
git checkout -q -- src
DEMO_WITHOUT=$(cargo test --offline --test demo 2>&1 | grep "test result" | tr '\n' ' ')
rm -rf tests/demo.rs; rmdir tests 2>/dev/null
echo "suite_with_change: $SUITE"
echo "demo_with_change: $DEMO_WITH"
echo "demo_without_change: $DEMO_WITHOUT"
ok=1
echo "$SUITE" | grep -q "187 passed; 0 failed" || ok=0
echo "$SUITE" | grep -q "7 passed; 0 failed" || ok=0
echo "$DEMO_WITH" | grep -q "FAILED" || ok=0
echo "$DEMO_WITHOUT" | grep -q "ok\." || ok=0
echo "$DEMO_WITHOUT" | grep -q "FAILED" && ok=0
if [ $ok = 1 ]; then
  mkdir -p /verif/seeded/$ID
  cp $S/patch.diff $S/demo.rs /verif/seeded/$ID/
  cp $S/notes.md /verif/seeded/$ID/notes.md 2>/dev/null
  python3 - "$ID" "$PROP" "$SUITE" "$DEMO_WITH" "$DEMO_WITHOUT" <<'PY'
import json,sys
i,p,s,dw,dwo=sys.argv[1:6]
notes=open('/verif/seeded/%s/notes.md'%i).read() if True else ''
json.dump({'id':i,'property':p,'needs_to_manifest':notes[:1500],'confirmed':{'suite_with_change':s.strip(),'demo_with_change':dw.strip(),'demo_without_change':dwo.strip()},
 'ran':['git apply patch.diff in a scratch worktree','cargo test --offline (full suite)','cargo test --offline --test demo (with and without the change)'],'detected_by':None},open('/verif/seeded/%s/meta.json'%i,'w'),indent=1)
PY
  echo "CONFIRMED -> /verif/seeded/$ID"
else
  echo "NOT CONFIRMED"
fi
