#!/usr/bin/env bash
# try_seed.sh <seed-id> <check ids...> : apply the seeded change to /repo, run the checks, undo it.
# Evidence files are saved and restored: committed evidence must describe runs on the unchanged tree.
ID=$1; shift
git -C /repo apply /verif/seeded/$ID/patch.diff || exit 2
SAVE=$(mktemp -d /var/tmp/evsave.XXXXXX)
cp -a /verif/evidence/*.json $SAVE/ 2>/dev/null
for c in "$@"; do
  out=$(cd /verif && ./check $c --tier ${TIER:-quick} 2>&1)
  rc=$?
  echo "== $ID / $c exit=$rc :: $(echo "$out" | grep -c '^VIOLATION') violations; $(echo "$out" | tail -1 | cut -c1-150)"
  echo "$out" | grep -A1 "^VIOLATION" | grep -v "^VIOLATION\|^--" | head -3 | cut -c1-260
  echo "$out" | grep "^INCONCLUSIVE" | head -3 | cut -c1-260
done
git -C /repo checkout -- .
cp -a $SAVE/*.json /verif/evidence/ 2>/dev/null
rm -rf $SAVE
rm -f /verif/evidence/replays/*.json
