#!/usr/bin/env bash
# round4.sh <PROP> [extra checks...] : confirm variants A,B of /tmp/w4-<PROP> as <PROP>G/<PROP>H, drop the worktree, try both against the checks
P=$1; shift
L=/var/tmp/round4; mkdir -p $L
for v in A B; do
  [ -f /tmp/w4-$P/seeded/$v/patch.diff ] || continue
  id=${P}$( [ $v = A ] && echo G || echo H )
  /verif/tools/confirm_seed.sh /tmp/w4-$P $v $id $P > $L/confirm-$id.log 2>&1
  git -C /tmp/w4-$P checkout -q -- src
done
git -C /repo worktree remove --force /tmp/w4-$P
for s in G H; do
  id=$P$s
  [ -d /verif/seeded/$id ] || { echo "$id NOT CONFIRMED" >> $L/trial-$P.log; continue; }
  KEEP_OUT=$L/out /verif/tools/try_seed_copy.sh $id $P "$@" >> $L/trial-$P.log 2>&1
done
echo DONE >> $L/trial-$P.log
