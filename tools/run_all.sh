#!/usr/bin/env bash
# run_all.sh [quick|thorough] : every registered check on the current tree, one after the other
TIER=${1:-quick}
cd "$(dirname "$0")/.."
for p in C01 C02 C03 C04 C05 C06 C07 C08 C09 C10 C11 C12 C13 C14 C15 C16 C17 C18; do
  s=$(date +%s)
  out=$(./check $p --tier $TIER 2>&1); rc=$?
  echo "$p exit=$rc $(( $(date +%s) - s ))s :: $(echo "$out" | tail -1 | cut -c1-160)"
  [ $rc -ne 0 ] && echo "$out" | grep "^VIOLATION\|^INCONCLUSIVE" | head -5 | cut -c1-300
done
