#!/usr/bin/env python3
"""mark_seed.py <seed-id> <detected-by check ids, comma separated> <note>: record in meta.json what catches a seeded change"""
import json, sys
i, by, note = sys.argv[1:4]
p = '/verif/seeded/%s/meta.json' % i
m = json.load(open(p))
m['detected_by'] = by.split(',') if by else []
m['detection_note'] = note
json.dump(m, open(p, 'w'), indent=1)
