#!/usr/bin/env python3
import json, sys, glob, jsonschema
m = json.load(open('/verif/MANIFEST.json'))
jsonschema.validate(m, json.load(open('/root/.vp/MANIFEST.schema.json')))
es = json.load(open('/root/.vp/EVIDENCE.schema.json'))
ok = True
for c in m['checks']:
    p = c['evidence_file']
    try:
        jsonschema.validate(json.load(open(p)), es)
        print('ok', p)
    except Exception as e:
        ok = False
        print('BAD', p, str(e)[:300])
props = [json.loads(l)['id'] for l in open('/verif/properties.jsonl')]
claimed = {c['property_id'] for c in m['checks']}
na = {x['property_id'] for x in m.get('not_applicable', [])}
for p in props:
    if (p in claimed) == (p in na):
        ok = False
        print('property', p, 'must be exactly one of claimed / not_applicable')
print('manifest valid; claimed', sorted(claimed))
sys.exit(0 if ok else 1)
