#!/usr/bin/env python3
"""Regenerate /verif/MANIFEST.json from the table below (single source of truth)."""
import json

CHECKS = {}
NA = {}

def check(pid, level_text, note, technique, design_ref, engine='mirsym'):
    CHECKS[pid] = {
        'property_id': pid,
        'quick_cmd': './check %s --tier quick' % pid,
        'thorough_cmd': './check %s --tier thorough' % pid,
        'evidence_file': '/verif/evidence/%s.json' % pid,
        'replay_cmd_template': './check %s --replay {path}' % pid,
        'engine': engine,
        'level_claimed': {'category': 'model_checking', 'text': level_text, 'design_ref': design_ref},
        'level_note': note,
        'technique': technique,
    }

TRUST = ('Trusted base: rustc\'s MIR dump of the current working tree is the semantics of the code; the MIR '
         'interpreter /verif/mirsym and its library models of std / rust_decimal / once_cell (each model used is '
         'listed in the evidence; the models are validated on every run against the native crate on the repo\'s own test '
         'inputs plus /verif/corpus, and every reported violation is replayed natively in dev and release profiles); z3.')

check('C01',
      'Bounded symbolic execution of the crate\'s MIR: for every well-formed UTF-8 input of at most N bytes (N=3 quick, 4 thorough; '
      'all bytes symbolic) every path of parse_expression, then expr(), describe() and exec() on an empty context is explored and '
      'z3 decides feasibility of each branch; the assertion "no path ends in a panic, deadlock, abort or step-budget exhaustion" is '
      'therefore decided for all inputs within the bound, not sampled.',
      TRUST + ' Outside the bound: inputs longer than N bytes, stack exhaustion (no stack model), non-empty contexts.',
      'symbolic execution of rustc MIR with z3 (path exploration, bounded input length)', 'DESIGN.md section 5 C01')

check('C02',
      'Bounded symbolic execution of the tokenizer+parser MIR on a family of 113 (quick) / ~250 (thorough) expression templates over operators o1..o3 '
      'registered through the real register_infix_op with *symbolic* precedence in [1,10^9] and symbolic associativity, mixed with built-ins, `not`, '
      'prefix/postfix operators, conditionals, parentheses and containers. The parser\'s own comparisons fork on the order type of the precedences, z3 decides '
      'each branch, and the resulting AST is compared with a reference parser of the documented rules evaluated under the same path condition: the grouping is '
      'decided for every operator table of each class, adjacent precedences included. Plus a concrete sweep of all 1089 ordered pairs of built-in operators.',
      TRUST + ' Oracle: /verif/mirsym/harness/refparse.py. Outside: expressions that are not instances of the templates; tables where equal precedences carry different associativities.',
      'symbolic execution of rustc MIR with z3; symbolic operator tables; reference-parser oracle', 'DESIGN.md section 5 C02')

check('C12',
      'Bounded symbolic execution of ExprAST::expr and the parser on 179 (quick) / ~260 (thorough) ASTs obtained by the real parser from fully parenthesised trees '
      '(binary under binary on both sides, prefix/postfix over compound operands, conditionals in every position, `not OP` forms, containers, strings with either quote) '
      'over operators with symbolic precedence/associativity: for every table class z3 admits, parse(t.expr()) == t and expr is idempotent.',
      TRUST + ' Outside: ASTs that are not instances of the tree family (depth > 3), operator-word names, hand-built ASTs.',
      'symbolic execution of rustc MIR with z3; symbolic operator tables; round-trip assertion', 'DESIGN.md section 5 C12')

import sys
props = [json.loads(l) for l in open('/verif/properties.jsonl')]
for p in props:
    if p['id'] not in CHECKS:
        NA[p['id']] = 'check not built yet (framework under construction; see DESIGN.md section 10)'

m = {
    'version': 1,
    'setup_cmd': 'python3-vt /verif/mirsym/setup.py',
    'hooks': {
        'guard': 'ashyanspada_expression_engine_rs_verif',
        'enable': 'checks copy /repo\'s working tree to a scratch cache dir, append the add-only overlay /verif/overlay/verif_hooks.rs (and, for Kani kernels, #[cfg(kani)] harness modules) and build with RUSTFLAGS=--cfg ashyanspada_expression_engine_rs_verif; /repo itself carries no hook code',
        'baseline_off_cmd': 'cd /repo && cargo test --workspace --no-fail-fast --offline',
        'source_commits': [],
        'add_only': True,
    },
    'engines': [
        {'name': 'mirsym', 'path': '/verif/mirsym', 'serves_properties': sorted(k for k, v in CHECKS.items() if v['engine'] == 'mirsym'),
         'kind_free_text': 'symbolic executor for rustc MIR text (-Zunpretty=mir of /repo\'s working tree, dev and release overflow-check variants) with z3; path exploration by re-execution from decision prefixes on 16 worker processes; native replay of every counterexample'},
        {'name': 'kani-kernels', 'path': '/verif/kani', 'serves_properties': sorted(k for k, v in CHECKS.items() if 'kani' in v['engine']),
         'kind_free_text': 'Kani 0.68 / CBMC 6.11 proof harnesses injected as cfg(kani) child modules into a scratch copy of the crate'},
    ],
    'checks': [CHECKS[k] for k in sorted(CHECKS)],
    'not_applicable': [{'property_id': k, 'reason': v} for k, v in sorted(NA.items())],
    'notes': 'Exit codes of every check: 0 held within the stated bounds (KNOWN-FINDING lines allowed), 1 VIOLATION (reproduced natively), 2 INCONCLUSIVE (encoder non-conformance, unsupported construct after a repo edit, solver unknown, non-reproducing model).',
}
json.dump(m, open('/verif/MANIFEST.json', 'w'), indent=1)
print('wrote MANIFEST.json with', len(CHECKS), 'checks')
