#!/usr/bin/env python3
"""Regenerate /verif/MANIFEST.json from the table below (single source of truth)."""
import json

CHECKS = {}
NA = {}

def check(pid, level_text, note, technique, design_ref, engine='mirsym'):
    CHECKS[pid] = {
        'property_id': pid,
        'quick_cmd': './check %s --tier quick' % pid,
        'thorough_cmd': './check %s --tier thorough' % pid,
        'evidence_file': '/verif/evidence/%s.json' % pid,
        'replay_cmd_template': './check %s --replay {path}' % pid,
        'engine': engine,
        'level_claimed': {'category': 'model_checking', 'text': level_text, 'design_ref': design_ref},
        'level_note': note,
        'technique': technique,
    }

TRUST = ('Trusted base: rustc\'s MIR dump of the current working tree is the semantics of the code; the MIR '
         'interpreter /verif/mirsym and its library models of std / rust_decimal / once_cell (each model used is '
         'listed in the evidence; the models are validated on every run against the native crate on the repo\'s own test '
         'inputs plus /verif/corpus, and every reported violation is replayed natively in dev and release profiles); z3.')

check('C01',
      'Bounded symbolic execution of the crate\'s MIR: for every well-formed UTF-8 input of at most N bytes (N=3 quick, 4 thorough; '
      'all bytes symbolic) every path of parse_expression, then expr(), describe() and exec() on an empty context is explored and '
      'z3 decides feasibility of each branch; the assertion "no path ends in a panic, deadlock, abort or step-budget exhaustion" is '
      'therefore decided for all inputs within the bound, not sampled. Plus number-shaped inputs <= 5 (7) bytes, long literals of 27..31 (8..41) symbolic digits, and repetition families '
      '(a unit of 1..2 (3) symbolic bytes repeated 4/8/12 times inside one path): call depth growing linearly or step counts growing super-polynomially are replayed natively at 200 000 (64) repetitions; '
      'a crash (stack overflow) or timeout there is the violation. 7 stack-exhaustion findings are listed in known_findings.json.',
      TRUST + ' Outside the bound: other long inputs, stack use in bytes (frames are counted; exhaustion is decided by the replay), non-empty contexts.',
      'symbolic execution of rustc MIR with z3 (path exploration, bounded input length)', 'DESIGN.md section 5 C01')

check('C02',
      'Bounded symbolic execution of the tokenizer+parser MIR on a family of 113 (quick) / ~250 (thorough) expression templates over operators o1..o3 '
      'registered through the real register_infix_op with *symbolic* precedence in [1,10^9] and symbolic associativity, mixed with built-ins, `not`, '
      'prefix/postfix operators, conditionals, parentheses and containers. The parser\'s own comparisons fork on the order type of the precedences, z3 decides '
      'each branch, and the resulting AST is compared with a reference parser of the documented rules evaluated under the same path condition: the grouping is '
      'decided for every operator table of each class, adjacent precedences included. Plus a concrete sweep of all 1089 ordered pairs of built-in operators.',
      TRUST + ' Oracle: /verif/mirsym/harness/refparse.py. Outside: expressions that are not instances of the templates; tables where equal precedences carry different associativities.',
      'symbolic execution of rustc MIR with z3; symbolic operator tables; reference-parser oracle', 'DESIGN.md section 5 C02')

check('C12',
      'Bounded symbolic execution of ExprAST::expr and the parser on 179 (quick) / ~260 (thorough) ASTs obtained by the real parser from fully parenthesised trees '
      '(binary under binary on both sides, prefix/postfix over compound operands, conditionals in every position, `not OP` forms, containers, strings with either quote) '
      'over operators with symbolic precedence/associativity: for every table class z3 admits, parse(t.expr()) == t and expr is idempotent.',
      TRUST + ' Outside: ASTs that are not instances of the tree family (depth > 3), operator-word names, hand-built ASTs.',
      'symbolic execution of rustc MIR with z3; symbolic operator tables; round-trip assertion', 'DESIGN.md section 5 C12')

check('C03',
      'Bounded symbolic execution of parse + ExprAST::exec (every built-in handler closure from MIR) on 114 operator/function templates whose operands are context names '
      'bound to symbolic Values: variant chosen by fork over Number (symbolic 96-bit mantissa, scale from S), i64-sourced integers, Bool, short strings incl. multi-byte, '
      'lists, maps, None. On every path z3 proves (validity query) that the returned Value equals the reference interpreter\'s value, and the Ok/Err class agrees '
      '(every ill-typed variant combination must be Err).',
      TRUST + ' Oracle: /verif/mirsym/harness/refeval.py. Decimal is modelled as exact (mantissa, scale) arithmetic; results rust_decimal would round are skipped and counted (outside_model); quotients of symbolic operands are not compared.',
      'symbolic execution of rustc MIR with z3; reference-interpreter oracle; validity queries per path', 'DESIGN.md section 5 C03')

check('C04',
      'Same templates and operand domains as C03, explored on BOTH MIR variants (overflow-checks on = dev, off = release): the assertion is that no path ends in a panic/abort '
      '(MIR asserts for shift/arith overflow are ordinary branches, so `1 << 64` panics in the dev MIR and would be masked in the release MIR) and that every Ok(Number) equals the '
      'checked-arithmetic oracle in both, for all operand values incl. zero divisors, +-(2^96-1), i64::MIN/MAX, shift counts <0 and >=64, empty aggregates, None.',
      TRUST + ' Same oracle and Decimal model as C03.',
      'symbolic execution of rustc MIR (dev and release variants) with z3', 'DESIGN.md section 5 C04')

check('C05',
      'Bounded symbolic execution of tokenizer+parser on every input of <= T byte slots (T=4 quick, 5 thorough) over the structural alphabet `1 a ( ) [ ] { } , ; : ? + ! " \' space` plus 30 longer '
      'skeletons with symbolic separator/closer slots; on every Ok path the token sequence observed at Tokenizer::next is checked by a reference recogniser of the documented grammar (lenient reading). Plus Kani kernel K3 on Tokenizer::expect (Ok implies the token text is the expected one). '
      'Plus the Kani kernel K3 on Tokenizer::expect in C17/C18-style (run under C17? no: run here) .',
      TRUST + ' Oracle: harness/refparse.py in recogniser mode. Outside: inputs longer than T slots, characters outside the alphabet (C01 covers <= 3-4 arbitrary bytes).',
      'symbolic execution of rustc MIR with z3; reference recogniser on the observed token stream; Kani kernel', 'DESIGN.md section 5 C05', engine='mirsym+kani-kernels')

check('C06',
      'Bounded symbolic execution of parse + exec on 48 statement-sequence templates (all 11 assignment operators, reads, rebinding with changing types, chained/nested assignment, failing statement at each position, '
      'unbound names, non-name targets, function-bound names) with symbolic operand Values; result, call log and the entire final Context (entry by entry) must equal the reference interpreter\'s (z3 validity per entry).',
      TRUST + ' Oracle: harness/refeval.py.', 'symbolic execution of rustc MIR with z3; reference-interpreter oracle incl. final context', 'DESIGN.md section 5 C06')

check('C07',
      'Bounded symbolic execution of parse + exec on 28 expression templates covering every node kind, whose leaves are observable context functions (call log) returning symbolic Values, with an error injected at the e-th '
      'invocation (e ranges over all positions; chosen by a symbolic selector). The model\'s call log must equal the reference interpreter\'s exactly (left-to-right, once, lazy conditional, nothing after the error), result and final Context too.',
      TRUST + ' Oracle: harness/refeval.py.', 'symbolic execution of rustc MIR with z3; observable handlers; fault index as a symbolic selector', 'DESIGN.md section 5 C07')

check('C14',
      'Symbolic execution with a Mutex ghost state (holder, poisoned): every handler kind performs one of 13 re-entrant actions (parse, execute, register_* x4, lock the evaluating context\'s handle, evaluate a program invoking the same handler, rebind a variable of the evaluating context, and four sequences of two of these); locking a mutex held by the same thread is '
      'the Deadlock outcome. 24 templates x 13 actions; Drop impls written in the crate are executed; assertion: no Deadlock, normal result, locks free afterwards. Counterexamples are replayed natively under a watchdog (hang).',
      TRUST + ' std::sync::Mutex modelled as non-re-entrant; OnceCell as run-once.', 'symbolic execution of rustc MIR with lock ghost state', 'DESIGN.md section 5 C14')

check('C15',
      'Symbolic execution including MIR unwind/cleanup edges: the k-th handler invocation (every k, every handler kind: context function by call / bare name, global function, prefix/infix/postfix operator) returns Err or panics. '
      'Assertions: no later handler runs, the panic reaches the caller unchanged, no registry or context mutex is left held or poisoned (guard drops on cleanup paths poison, as in std), the Context equals the reference interpreter\'s '
      'state at the failure point, and a follow-up execute/get_variable on the same context works. Integers in statics / thread-locals that a failing evaluation moves linearly are extrapolated to v + k*d with a solver variable k <= 4096 (leak acceleration) before the follow-up; witnesses are replayed with that many real repetitions.',
      TRUST + ' Mutex poisoning modelled per std documentation (guard dropped during unwinding poisons).', 'symbolic execution of rustc MIR incl. unwind edges; fault index as symbolic selector', 'DESIGN.md section 5 C15')

check('C17',
      'E2 (Kani/CBMC over the compiled crate with the real rust_decimal, nothing stubbed): for ALL values of i8..i128, u8..u128, bool, and non-finite f32/f64, Value::from(n) denotes exactly n. '
      'E1 (MIR + z3): integer() over a symbolic 96-bit mantissa at scales {0,1,2,5,28} (quick) / 0..28 (thorough): Ok(n) iff the value is the integer n within i64 (validity queries); accessor x variant matrix; From<&str|String|bool|Decimal|Vec> round trips.',
      TRUST + ' Kani 0.68 / CBMC 6.11 with unwinding assertions. E1 also: Value::from(v) for every finite f32/f64 v without a fraction below 2^96 (z3 floating-point variable) denotes exactly v. Outside: float(), fractional float conversions.',
      'Kani bounded model checking (all inputs) + symbolic execution of rustc MIR with z3', 'DESIGN.md section 5 C17', engine='mirsym+kani-kernels')

check('C18',
      'E1: ExprAST::describe and DescriptorManager (derived PartialEq of the key executed from MIR) on 25 ASTs of every node kind under registration configurations none / each single (kind,name) of 16 candidates / each same-name pair of different kinds / all, '
      'markers as harness closures, expected text from a reference renderer. E2: Kani kernel K4 — set_<kind>/get_<kind> agree on the key and kinds do not alias, for all nine kinds.',
      TRUST + ' HashMap modelled as association list (Hash not modelled).', 'symbolic execution of rustc MIR + Kani kernel', 'DESIGN.md section 5 C18', engine='mirsym+kani-kernels')

check('C08',
      '(a) Kani kernel K1 on InfixOpManager::get_precidence: symbolic precedence in [1,10^9] and associativity; the parser\'s two recursion gates order operators exactly as registered, adjacent precedences included, no overflow. '
      '(b) E1: chain/mixed templates over operators registered through the real register_infix_op with symbolic attributes, followed by a re-registration with fresh symbolic attributes and a second parse (stale-cache detection). '
      '(c) E1 histories: every sequence of <= 3 (quick) / 4 (thorough) steps from 9 step kinds (register / re-register / override of built-in function, prefix, infix, postfix, new infix adjacent to `+`, probe) starting from a process in which the engine is unused (init once-cell Empty), '
      'then probes of every name under an empty context, a context function `f`, and a variable `f`; observed handler tag must be the last registered one.',
      TRUST + ' OnceCell modelled as run-once; HashMap insert replaces.', 'Kani kernel + symbolic execution of rustc MIR with z3 over registration histories', 'DESIGN.md section 5 C08', engine='mirsym+kani-kernels')

check('C09',
      'Bounded symbolic execution: (L) literal texts of <= 5 (quick) / 7 (thorough) symbolic bytes over `0-9 . e E` and exponent-sign forms: the evaluated Number must have exactly the digits and scale written (oracle computed from the input bytes in the harness), every non-literal rejected; '
      '(A) `L1 OP L2` and compound-assignment forms with symbolic digits, scales 0..2 (0..4), for + - * % < <= > >= == !=: z3 validity of equality with the integer-arithmetic reference; trailing-zero variants compare equal. '
      'If a binary floating point conversion is reached on the data path (not interpretable by the encoder) a battery of 26 decimal cases with inexact f64 images is replayed natively.',
      TRUST + ' Long literals of 17..29 (8..31) symbolic digits with an optional point, and % / %= of 28..30-digit symbolic literals by small concrete divisors, are covered too (rust_decimal div_impl ported in mirsym/decdiv.py for a symbolic dividend over a concrete divisor). Outside: quotients with a symbolic divisor.', 'symbolic execution of rustc MIR with z3; integer-arithmetic oracle', 'DESIGN.md section 5 C09')

check('C11',
      'Relational bounded symbolic execution: (A) for every accepted input of <= 3 (4) arbitrary UTF-8 bytes and <= 3 (4) structural-alphabet slots, every token boundary (spans observed at Tokenizer::next) x {space, tab, CR, LF} inserted, and every existing whitespace byte doubled / replaced, '
      'is re-parsed under the same path condition; z3 proves the two ASTs equal (strings by content over the shared byte variables). (B) for ~120 template programs over operators with symbolic precedence/associativity every complete subexpression (ranges from the reference parser under the same path condition) '
      'is wrapped in 1 and 2 pairs of parentheses; the AST must not change. (C) 24 programs re-laid-out one gap at a time: one / two symbolic whitespace bytes, or no whitespace where the reference tokenizer keeps the tokens apart.',
      TRUST + ' Names that are operator words are excluded by an assumption, as in the property.', 'relational symbolic execution of rustc MIR with z3', 'DESIGN.md section 5 C11')

check('C10',
      'Bounded symbolic execution of the private Tokenizer driven to EOF (Tokenizer::new/next from MIR) on (U) all UTF-8 inputs of <= 3 (4) bytes, (S) string-literal shaped inputs with symbolic 1-3 byte characters and trailing bytes, '
      '(R) inputs around a freshly registered operator: two symbolic characters, three symbolic symbol characters whose two-character beginning occurs alone, one three-byte character, concrete CJK word operators. On every path: spans in bounds / on character boundaries / increasing, gap bytes are whitespace and token text equals the source slice (z3 validity over the byte variables), '
      'and the token sequence equals that of a reference tokenizer (the documented lexical rules) evaluated under the same path condition; error paths must be errors of the reference too.',
      TRUST + ' Oracle: the reference tokenizer in harness/c10.py.', 'symbolic execution of rustc MIR with z3; reference tokenizer under the same path condition', 'DESIGN.md section 5 C10')

check('C16',
      'Sequential isolation by bounded symbolic execution: for all 625 ordered pairs (A,B) of 25 programs and history modes (A parsed only / evaluated once / evaluated 130 times, extrapolated by a symbolic number k <= 4096 of further evaluations where an integer static moves linearly / same AST twice / A parsed then registrations / k <= 300 evaluations in flight on other threads, k symbolic), with symbolic integers in the contexts, '
      'B after the history must equal B alone in outcome, value and final context (z3 validity), A\'s context is untouched, and a repeated exec of one AST agrees. Buffer addresses are unconstrained symbols (an allocator may reuse them). '
      'Global cells changed by a call are listed in the evidence (a violation only through an observable difference). Interleavings are C13\'s subject; the in-flight mode here covers what concurrent evaluations hold in process-wide integers.',
      TRUST + ' Counterexamples replayed natively from a reused line buffer.', 'symbolic execution of rustc MIR with z3 over call histories; symbolic addresses', 'DESIGN.md section 5 C16')

check('C13',
      'Bounded exploration of thread schedules by symbolic execution: API calls run on virtual threads over the shared interpreted heap; at every synchronisation operation (Mutex::lock, OnceCell get/get_or_init/set, atomics, harness waits) '
      'the scheduler\'s choice is a symbolic decision explored like a branch (2 threads and <= 2 preemptions quick; 3 threads / 3 preemptions thorough). 13 scenarios: first engine calls racing with an override of a built-in function / prefix / infix / postfix operator (followed by a probe), '
      'two racing first calls, registration vs parse, double registration, isolated evaluations, handlers that wait for another thread. Assertions: no panic, no deadlock, and the per-call results (plus probe) equal those of some sequential order of the same calls computed with the same engine.',
      TRUST + ' Sequential consistency; interleaving only at synchronisation operations (sound for safe Rust without unsafe). Schedule-dependent counterexamples are confirmed natively by replaying the scenario in up to 40 fresh processes.',
      'symbolic execution of rustc MIR with a virtual-thread scheduler whose choices are solver-explored decisions (bounded preemptions)', 'DESIGN.md section 5 C13')

import sys
props = [json.loads(l) for l in open('/verif/properties.jsonl')]
for p in props:
    if p['id'] not in CHECKS:
        NA[p['id']] = 'check not built yet (framework under construction; see DESIGN.md section 10)'

m = {
    'version': 1,
    'setup_cmd': 'python3-vt /verif/mirsym/setup.py',
    'hooks': {
        'guard': 'ashyanspada_expression_engine_rs_verif',
        'enable': 'checks copy /repo\'s working tree to a scratch cache dir, append the add-only overlay /verif/overlay/verif_hooks.rs (and, for Kani kernels, #[cfg(kani)] harness modules) and build with RUSTFLAGS=--cfg ashyanspada_expression_engine_rs_verif; /repo itself carries no hook code',
        'baseline_off_cmd': 'cd /repo && cargo test --workspace --no-fail-fast --offline',
        'source_commits': [],
        'add_only': True,
    },
    'engines': [
        {'name': 'mirsym', 'path': '/verif/mirsym', 'serves_properties': sorted(k for k, v in CHECKS.items() if v['engine'] == 'mirsym'),
         'kind_free_text': 'symbolic executor for rustc MIR text (-Zunpretty=mir of /repo\'s working tree, dev and release overflow-check variants) with z3; path exploration by re-execution from decision prefixes on 16 worker processes; native replay of every counterexample'},
        {'name': 'kani-kernels', 'path': '/verif/kani', 'serves_properties': sorted(k for k, v in CHECKS.items() if 'kani' in v['engine']),
         'kind_free_text': 'Kani 0.68 / CBMC 6.11 proof harnesses injected as cfg(kani) child modules into a scratch copy of the crate'},
    ],
    'checks': [CHECKS[k] for k in sorted(CHECKS)],
    'not_applicable': [{'property_id': k, 'reason': v} for k, v in sorted(NA.items())],
    'notes': 'Exit codes of every check: 0 held within the stated bounds (KNOWN-FINDING lines allowed), 1 VIOLATION (reproduced natively), 2 INCONCLUSIVE (encoder non-conformance, unsupported construct after a repo edit, solver unknown, non-reproducing model).',
}
json.dump(m, open('/verif/MANIFEST.json', 'w'), indent=1)
print('wrote MANIFEST.json with', len(CHECKS), 'checks')
