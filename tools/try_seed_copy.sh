#!/usr/bin/env bash
# try_seed_copy.sh <seed-id> <check ids...> : like try_seed.sh, but the seeded change is applied to a scratch copy of /repo
# (VERIF_REPO) and the evidence of the trial goes to a scratch directory (VERIF_EVIDENCE_DIR), so neither /repo nor
# /verif/evidence is touched and several trials can run side by side.
ID=$1; shift
W=$(mktemp -d /var/tmp/seedcopy.XXXXXX)
E=$(mktemp -d /var/tmp/seedevid.XXXXXX)
rsync -a --exclude target --exclude .git /repo/ $W/
( cd $W && git apply --unsafe-paths /verif/seeded/$ID/patch.diff ) || { echo "patch does not apply"; rm -rf $W $E; exit 2; }
for c in "$@"; do
  out=$(cd /verif && VERIF_REPO=$W VERIF_EVIDENCE_DIR=$E ./check $c --tier ${TIER:-quick} 2>&1)
  rc=$?
  echo "== $ID / $c exit=$rc :: $(echo "$out" | grep -c '^VIOLATION') violations; $(echo "$out" | tail -1 | cut -c1-150)"
  echo "$out" | grep -A1 "^VIOLATION" | grep -v "^VIOLATION\|^--" | head -3 | cut -c1-260
  echo "$out" | grep "^INCONCLUSIVE" | head -3 | cut -c1-260
  [ -n "$KEEP_OUT" ] && echo "$out" > $KEEP_OUT.$ID.$c.log
done
rm -rf $W $E
