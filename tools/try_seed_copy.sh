#!/usr/bin/env bash
# try_seed_copy.sh <seed-id> <check ids...> : like try_seed.sh, but the seeded change is applied to a scratch copy of /repo
# (VERIF_REPO), so /repo itself is never touched and other runs against it are not disturbed.
ID=$1; shift
W=$(mktemp -d /var/tmp/seedcopy.XXXXXX)
rsync -a --exclude target --exclude .git /repo/ $W/
( cd $W && git apply --unsafe-paths /verif/seeded/$ID/patch.diff ) || { echo "patch does not apply"; rm -rf $W; exit 2; }
SAVE=$(mktemp -d /var/tmp/evsave.XXXXXX)
cp -a /verif/evidence/*.json $SAVE/ 2>/dev/null
for c in "$@"; do
  out=$(cd /verif && VERIF_REPO=$W ./check $c --tier ${TIER:-quick} 2>&1)
  rc=$?
  echo "== $ID / $c exit=$rc :: $(echo "$out" | grep -c '^VIOLATION') violations; $(echo "$out" | tail -1 | cut -c1-150)"
  echo "$out" | grep -A1 "^VIOLATION" | grep -v "^VIOLATION\|^--" | head -3 | cut -c1-260
  echo "$out" | grep "^INCONCLUSIVE" | head -3 | cut -c1-260
done
cp -a $SAVE/*.json /verif/evidence/ 2>/dev/null
rm -rf $SAVE $W
rm -f /verif/evidence/replays/*.json
