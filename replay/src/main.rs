//! `vreplay` — native replay of verification scenarios against the real
//! `expression_engine` crate.  Interface: /verif/replay/SPEC.md.
//!
//! This file is `#[path]`-included as a module by a generated wrapper crate (see
//! build.sh), hence `pub fn main`.  No serde: a small JSON reader/printer is included.
#![allow(dead_code)]

use expression_engine::verif_hooks as vh;
use expression_engine::{
    execute, parse_expression, register_function, register_infix_op, register_postfix_op,
    register_prefix_op, Context, InfixOpAssociativity, InfixOpType, Value,
};
use rust_decimal::Decimal;
use std::cell::RefCell;
use std::io::Write;
use std::panic::{catch_unwind, AssertUnwindSafe};
use std::sync::atomic::{AtomicU64, Ordering};
use std::sync::mpsc;
use std::sync::{Arc, Barrier, Mutex, MutexGuard};
use std::time::{Duration, Instant};

type EResult<T> = expression_engine::Result<T>;

// ───────────────────────────── JSON reader ─────────────────────────────

#[derive(Clone, Debug)]
enum J {
    Null,
    Bool(bool),
    Num(String),
    Str(String),
    Arr(Vec<J>),
    Obj(Vec<(String, J)>),
}

struct JP<'a> {
    b: &'a [u8],
    i: usize,
}

impl<'a> JP<'a> {
    fn ws(&mut self) {
        while self.i < self.b.len() && matches!(self.b[self.i], b' ' | b'\t' | b'\r' | b'\n') {
            self.i += 1;
        }
    }
    fn err<T>(&self, m: &str) -> Result<T, String> {
        Err(format!("json: {} at byte {}", m, self.i))
    }
    fn lit(&mut self, s: &str, v: J) -> Result<J, String> {
        if self.b[self.i..].starts_with(s.as_bytes()) {
            self.i += s.len();
            Ok(v)
        } else {
            self.err("bad literal")
        }
    }
    fn value(&mut self, depth: usize) -> Result<J, String> {
        if depth > 256 {
            return self.err("nesting too deep");
        }
        self.ws();
        if self.i >= self.b.len() {
            return self.err("unexpected end");
        }
        match self.b[self.i] {
            b'n' => self.lit("null", J::Null),
            b't' => self.lit("true", J::Bool(true)),
            b'f' => self.lit("false", J::Bool(false)),
            b'"' => Ok(J::Str(self.string()?)),
            b'[' => {
                self.i += 1;
                let mut v = Vec::new();
                self.ws();
                if self.i < self.b.len() && self.b[self.i] == b']' {
                    self.i += 1;
                    return Ok(J::Arr(v));
                }
                loop {
                    v.push(self.value(depth + 1)?);
                    self.ws();
                    match self.b.get(self.i) {
                        Some(b',') => self.i += 1,
                        Some(b']') => {
                            self.i += 1;
                            return Ok(J::Arr(v));
                        }
                        _ => return self.err("expected , or ]"),
                    }
                }
            }
            b'{' => {
                self.i += 1;
                let mut v = Vec::new();
                self.ws();
                if self.i < self.b.len() && self.b[self.i] == b'}' {
                    self.i += 1;
                    return Ok(J::Obj(v));
                }
                loop {
                    self.ws();
                    if self.b.get(self.i) != Some(&b'"') {
                        return self.err("expected object key");
                    }
                    let k = self.string()?;
                    self.ws();
                    if self.b.get(self.i) != Some(&b':') {
                        return self.err("expected :");
                    }
                    self.i += 1;
                    let val = self.value(depth + 1)?;
                    v.push((k, val));
                    self.ws();
                    match self.b.get(self.i) {
                        Some(b',') => self.i += 1,
                        Some(b'}') => {
                            self.i += 1;
                            return Ok(J::Obj(v));
                        }
                        _ => return self.err("expected , or }"),
                    }
                }
            }
            b'-' | b'0'..=b'9' => {
                let s = self.i;
                self.i += 1;
                while self.i < self.b.len()
                    && matches!(self.b[self.i], b'0'..=b'9' | b'.' | b'e' | b'E' | b'+' | b'-')
                {
                    self.i += 1;
                }
                Ok(J::Num(String::from_utf8_lossy(&self.b[s..self.i]).into_owned()))
            }
            _ => self.err("unexpected character"),
        }
    }
    fn hex4(&mut self) -> Result<u32, String> {
        if self.i + 4 > self.b.len() {
            return self.err("short \\u escape");
        }
        let mut v = 0u32;
        for k in 0..4 {
            let d = (self.b[self.i + k] as char).to_digit(16);
            match d {
                Some(d) => v = v * 16 + d,
                None => return self.err("bad \\u escape"),
            }
        }
        self.i += 4;
        Ok(v)
    }
    fn string(&mut self) -> Result<String, String> {
        self.i += 1; // opening quote
        let mut out: Vec<u8> = Vec::new();
        loop {
            if self.i >= self.b.len() {
                return self.err("unterminated string");
            }
            let c = self.b[self.i];
            self.i += 1;
            match c {
                b'"' => break,
                b'\\' => {
                    if self.i >= self.b.len() {
                        return self.err("unterminated escape");
                    }
                    let e = self.b[self.i];
                    self.i += 1;
                    let ch: char = match e {
                        b'"' => '"',
                        b'\\' => '\\',
                        b'/' => '/',
                        b'b' => '\u{8}',
                        b'f' => '\u{c}',
                        b'n' => '\n',
                        b'r' => '\r',
                        b't' => '\t',
                        b'u' => {
                            let hi = self.hex4()?;
                            let cp = if (0xD800..0xDC00).contains(&hi) {
                                if self.b[self.i..].starts_with(b"\\u") {
                                    self.i += 2;
                                    let lo = self.hex4()?;
                                    if !(0xDC00..0xE000).contains(&lo) {
                                        return self.err("bad surrogate pair");
                                    }
                                    0x10000 + ((hi - 0xD800) << 10) + (lo - 0xDC00)
                                } else {
                                    return self.err("lone surrogate");
                                }
                            } else {
                                hi
                            };
                            match char::from_u32(cp) {
                                Some(c) => c,
                                None => return self.err("bad code point"),
                            }
                        }
                        _ => return self.err("bad escape"),
                    };
                    let mut buf = [0u8; 4];
                    out.extend_from_slice(ch.encode_utf8(&mut buf).as_bytes());
                }
                _ => out.push(c),
            }
        }
        String::from_utf8(out).map_err(|_| format!("json: invalid utf-8 in string near byte {}", self.i))
    }
}

fn json_parse(text: &str) -> Result<J, String> {
    let mut p = JP { b: text.as_bytes(), i: 0 };
    let v = p.value(0)?;
    p.ws();
    if p.i != p.b.len() {
        return p.err("trailing characters");
    }
    Ok(v)
}

// ───────────────────────────── JSON printer ─────────────────────────────

/// JSON string literal, ASCII only (everything else as \uXXXX, surrogate pairs for astral).
fn jstr(s: &str) -> String {
    let mut o = String::with_capacity(s.len() + 2);
    o.push('"');
    for c in s.chars() {
        match c {
            '"' => o.push_str("\\\""),
            '\\' => o.push_str("\\\\"),
            '\n' => o.push_str("\\n"),
            '\r' => o.push_str("\\r"),
            '\t' => o.push_str("\\t"),
            ' '..='~' => o.push(c),
            _ => {
                let mut buf = [0u16; 2];
                for u in c.encode_utf16(&mut buf) {
                    o.push_str(&format!("\\u{:04x}", u));
                }
            }
        }
    }
    o.push('"');
    o
}

fn hex(s: &str) -> String {
    vh::hex(s)
}

fn jhex(s: &str) -> String {
    format!("\"{}\"", hex(s))
}

fn dec_fields(d: &Decimal) -> String {
    let m = d.mantissa();
    let ms = if m == 0 && d.is_sign_negative() { "-0".to_string() } else { m.to_string() };
    format!("\"m\":\"{}\",\"s\":{}", ms, d.scale())
}

fn vjson(v: &Value) -> String {
    match v {
        Value::Number(d) => format!("{{\"t\":\"num\",{}}}", dec_fields(d)),
        Value::Bool(b) => format!("{{\"t\":\"bool\",\"v\":{}}}", b),
        Value::String(s) => format!("{{\"t\":\"str\",\"hex\":{}}}", jhex(s)),
        Value::List(l) => {
            let items: Vec<String> = l.iter().map(vjson).collect();
            format!("{{\"t\":\"list\",\"v\":[{}]}}", items.join(","))
        }
        Value::Map(m) => {
            let items: Vec<String> =
                m.iter().map(|(k, v)| format!("[{},{}]", vjson(k), vjson(v))).collect();
            format!("{{\"t\":\"map\",\"v\":[{}]}}", items.join(","))
        }
        Value::None => "{\"t\":\"none\"}".to_string(),
    }
}

// ───────────────────────────── scenario model ─────────────────────────────

/// Scenario decoding error: structurally bad (exit 3) or a hex field that is not UTF-8
/// (the step's observation becomes `{"kind":"invalid_utf8"}`).
enum E {
    Bad(String),
    Utf8,
}

fn bad<T>(m: impl Into<String>) -> Result<T, E> {
    Err(E::Bad(m.into()))
}

#[derive(Clone)]
enum Action {
    Parse,
    Execute,
    RegFunction,
    RegPrefix,
    RegInfix,
    RegPostfix,
    LockCtx(String),
    /// two re-entrant actions in a row inside one handler invocation
    Seq(Box<Action>, Box<Action>),
    /// bind variable `x` to 41 in the named context through a clone of its handle (`Context::set_variable`)
    SetVar(String),
    /// evaluate a program that invokes this very handler again (bounded recursion, two levels)
    ExecuteSelf,
}

#[derive(Clone)]
enum HKind {
    Const(Value),
    Echo,
    First,
    Err,
    Panic,
    IntSub,
    Reenter(Action),
    WaitFlag(String, u64),
    /// announce arrival (process-wide counter ARRIVED), then wait for the flag like `wait_flag`
    ArriveWait(String, u64),
}

#[derive(Clone)]
struct HSpec {
    kind: HKind,
    id: String,
    fail_at: Option<u64>,
    fail_panic: bool,
}

#[derive(Clone)]
enum VF {
    I8(i8),
    I16(i16),
    I32(i32),
    I64(i64),
    I128(i128),
    U8(u8),
    U16(u16),
    U32(u32),
    U64(u64),
    U128(u128),
    F32(f32),
    F64(f64),
    Bool(bool),
    Str(String),
    String(String),
    Decimal(Decimal),
    List(Vec<Value>),
}

#[derive(Clone, Copy)]
struct Want {
    ast: bool,
    expr: bool,
    describe: bool,
    reparse: bool,
}

#[derive(Clone)]
enum Step {
    SetFlag { flag: String },
    WaitArrived { n: usize, ms: u64 },
    InvalidUtf8,
    Parse { src: String, want: Want },
    Tokenize { src: String },
    CtxNew { ctx: String },
    CtxDrop { ctx: String },
    CtxSetVar { ctx: String, name: String, value: Value },
    CtxSetFunc { ctx: String, name: String, handler: HSpec },
    Execute { src: String, ctx: String, timeout_ms: Option<u64> },
    CtxGet { ctx: String, name: String },
    CtxDump { ctx: String },
    RegFunction { name: String, handler: HSpec },
    RegPrefix { name: String, handler: HSpec },
    RegPostfix { name: String, handler: HSpec },
    RegInfix { name: String, prec: i32, setter: bool, right: bool, handler: HSpec },
    SetDescriptor { key: String, name: String, marker: String },
    ValueFrom(VF),
    Accessor { which: String, value: Value },
    ResetCounter,
    Threads { lists: Vec<Vec<Step>>, ms: u64, stagger: Vec<u64> },
}

fn jget<'a>(o: &'a J, key: &str) -> Option<&'a J> {
    match o {
        J::Obj(v) => v.iter().find(|(k, _)| k == key).map(|(_, v)| v),
        _ => None,
    }
}

fn req<'a>(o: &'a J, key: &str) -> Result<&'a J, E> {
    match jget(o, key) {
        Some(v) => Ok(v),
        None => bad(format!("missing key \"{}\"", key)),
    }
}

fn as_str<'a>(j: &'a J, what: &str) -> Result<&'a str, E> {
    match j {
        J::Str(s) => Ok(s),
        _ => bad(format!("{} must be a string", what)),
    }
}

fn req_str<'a>(o: &'a J, key: &str) -> Result<&'a str, E> {
    as_str(req(o, key)?, key)
}

fn as_i64(j: &J, what: &str) -> Result<i64, E> {
    match j {
        J::Num(s) => s.parse::<i64>().or_else(|_| bad(format!("{} must be an integer", what))),
        _ => bad(format!("{} must be an integer", what)),
    }
}

fn unhex(s: &str) -> Result<String, E> {
    let b = s.as_bytes();
    if b.len() % 2 != 0 {
        return bad(format!("odd-length hex \"{}\"", s));
    }
    let mut out = Vec::with_capacity(b.len() / 2);
    for p in b.chunks(2) {
        let hi = (p[0] as char).to_digit(16);
        let lo = (p[1] as char).to_digit(16);
        match (hi, lo) {
            (Some(h), Some(l)) => out.push((h * 16 + l) as u8),
            _ => return bad(format!("bad hex \"{}\"", s)),
        }
    }
    String::from_utf8(out).map_err(|_| E::Utf8)
}

fn req_hex(o: &J, key: &str) -> Result<String, E> {
    unhex(req_str(o, key)?)
}

fn parse_value(j: &J) -> Result<Value, E> {
    let t = req_str(j, "t")?;
    match t {
        "num" => {
            let mtext = match req(j, "m")? {
                J::Str(s) => s.clone(),
                J::Num(s) => s.clone(),
                _ => return bad("num.m must be a string"),
            };
            let m: i128 = match mtext.parse() {
                Ok(m) => m,
                Err(_) => return bad(format!("num.m \"{}\" is not an integer", mtext)),
            };
            let s = as_i64(req(j, "s")?, "num.s")?;
            if !(0..=28).contains(&s) {
                return bad("num.s out of range 0..28");
            }
            match Decimal::try_from_i128_with_scale(m, s as u32) {
                Ok(mut d) => {
                    if m == 0 && mtext.starts_with('-') {
                        d.set_sign_negative(true);
                    }
                    Ok(Value::Number(d))
                }
                Err(e) => bad(format!("num ({}, {}) is not a Decimal: {}", mtext, s, e)),
            }
        }
        "bool" => match req(j, "v")? {
            J::Bool(b) => Ok(Value::Bool(*b)),
            _ => bad("bool.v must be true/false"),
        },
        "str" => Ok(Value::String(req_hex(j, "hex")?)),
        "list" => match req(j, "v")? {
            J::Arr(a) => {
                let mut out = Vec::new();
                for x in a {
                    out.push(parse_value(x)?);
                }
                Ok(Value::List(out))
            }
            _ => bad("list.v must be an array"),
        },
        "map" => match req(j, "v")? {
            J::Arr(a) => {
                let mut out = Vec::new();
                for x in a {
                    match x {
                        J::Arr(p) if p.len() == 2 => {
                            out.push((parse_value(&p[0])?, parse_value(&p[1])?))
                        }
                        _ => return bad("map.v entries must be [k,v]"),
                    }
                }
                Ok(Value::Map(out))
            }
            _ => bad("map.v must be an array"),
        },
        "none" => Ok(Value::None),
        _ => bad(format!("unknown value tag \"{}\"", t)),
    }
}

fn parse_handler(j: &J) -> Result<HSpec, E> {
    let h = req_str(j, "h")?;
    let kind = match h {
        "const" => HKind::Const(parse_value(req(j, "value")?)?),
        "echo" => HKind::Echo,
        "first" => HKind::First,
        "err" => HKind::Err,
        "panic" => HKind::Panic,
        "int_sub" => HKind::IntSub,
        "wait_flag" => {
            let ms = match jget(j, "ms") {
                None => 2000,
                Some(v) => as_i64(v, "ms")?,
            };
            HKind::WaitFlag(req_str(j, "flag")?.to_string(), ms.max(0) as u64)
        }
        "arrive_wait" => {
            let ms = match jget(j, "ms") {
                None => 2000,
                Some(v) => as_i64(v, "ms")?,
            };
            HKind::ArriveWait(req_str(j, "flag")?.to_string(), ms.max(0) as u64)
        }
        "reenter" => {
            let a = req_str(j, "action")?;
            HKind::Reenter(match a {
                "parse" => Action::Parse,
                "execute" => Action::Execute,
                "register_function" => Action::RegFunction,
                "register_prefix" => Action::RegPrefix,
                "register_infix" => Action::RegInfix,
                "register_postfix" => Action::RegPostfix,
                "lock_ctx" => Action::LockCtx(req_str(j, "ctx")?.to_string()),
                "set_var" => Action::SetVar(req_str(j, "ctx")?.to_string()),
                "execute_then_register" => Action::Seq(Box::new(Action::Execute), Box::new(Action::RegFunction)),
                "parse_then_register" => Action::Seq(Box::new(Action::Parse), Box::new(Action::RegInfix)),
                "execute_twice" => Action::Seq(Box::new(Action::Execute), Box::new(Action::Execute)),
                "register_then_execute" => Action::Seq(Box::new(Action::RegPostfix), Box::new(Action::Execute)),
                "execute_self" => Action::ExecuteSelf,
                _ => return bad(format!("unknown reenter action \"{}\"", a)),
            })
        }
        _ => return bad(format!("unknown handler \"{}\"", h)),
    };
    let id = match jget(j, "id") {
        Some(v) => as_str(v, "id")?.to_string(),
        None => "h".to_string(),
    };
    let fail_at = match jget(j, "fail_at") {
        Some(J::Null) | None => None,
        Some(v) => {
            let k = as_i64(v, "fail_at")?;
            if k < 1 {
                return bad("fail_at must be >= 1");
            }
            Some(k as u64)
        }
    };
    let fail_panic = match jget(j, "fail") {
        None => false,
        Some(v) => match as_str(v, "fail")? {
            "err" => false,
            "panic" => true,
            x => return bad(format!("unknown fail mode \"{}\"", x)),
        },
    };
    Ok(HSpec { kind, id, fail_at, fail_panic })
}

fn num_text<T: std::str::FromStr>(text: &str, ty: &str) -> Result<T, E> {
    text.trim()
        .parse::<T>()
        .or_else(|_| bad(format!("value_from: \"{}\" is not a valid {}", text, ty)))
}

fn parse_value_from(j: &J) -> Result<VF, E> {
    let ty = req_str(j, "ty")?;
    let text = || req_str(j, "text");
    Ok(match ty {
        "i8" => VF::I8(num_text(text()?, ty)?),
        "i16" => VF::I16(num_text(text()?, ty)?),
        "i32" => VF::I32(num_text(text()?, ty)?),
        "i64" => VF::I64(num_text(text()?, ty)?),
        "i128" => VF::I128(num_text(text()?, ty)?),
        "u8" => VF::U8(num_text(text()?, ty)?),
        "u16" => VF::U16(num_text(text()?, ty)?),
        "u32" => VF::U32(num_text(text()?, ty)?),
        "u64" => VF::U64(num_text(text()?, ty)?),
        "u128" => VF::U128(num_text(text()?, ty)?),
        "f32" => VF::F32(num_text(text()?, ty)?),
        "f64" => VF::F64(num_text(text()?, ty)?),
        "bool" => VF::Bool(num_text(text()?, ty)?),
        "str" => VF::Str(unhex(text()?)?),
        "string" => VF::String(unhex(text()?)?),
        "decimal" => match parse_value(req(j, "value")?)? {
            Value::Number(d) => VF::Decimal(d),
            _ => return bad("value_from decimal needs a num value"),
        },
        "list" => match parse_value(req(j, "value")?)? {
            Value::List(l) => VF::List(l),
            _ => return bad("value_from list needs a list value"),
        },
        _ => return bad(format!("value_from: unknown ty \"{}\"", ty)),
    })
}

fn parse_steps(j: &J) -> Result<Vec<Step>, String> {
    let arr = match j {
        J::Arr(a) => a,
        _ => return Err("steps must be an array".to_string()),
    };
    let mut out = Vec::new();
    for (i, s) in arr.iter().enumerate() {
        match parse_step(s) {
            Ok(st) => out.push(st),
            Err(E::Utf8) => out.push(Step::InvalidUtf8),
            Err(E::Bad(m)) => return Err(format!("step {}: {}", i, m)),
        }
    }
    Ok(out)
}

fn parse_step(j: &J) -> Result<Step, E> {
    if !matches!(j, J::Obj(_)) {
        return bad("step must be an object");
    }
    let op = req_str(j, "op")?;
    let ctx = || req_str(j, "ctx").map(|s| s.to_string());
    Ok(match op {
        "parse" => {
            let want = match jget(j, "want") {
                None | Some(J::Null) => Want { ast: true, expr: true, describe: true, reparse: true },
                Some(J::Arr(a)) => {
                    let mut w = Want { ast: false, expr: false, describe: false, reparse: false };
                    for x in a {
                        match as_str(x, "want item")? {
                            "ast" => w.ast = true,
                            "expr" => w.expr = true,
                            "describe" => w.describe = true,
                            "reparse" => w.reparse = true,
                            y => return bad(format!("unknown want item \"{}\"", y)),
                        }
                    }
                    w
                }
                _ => return bad("want must be an array"),
            };
            Step::Parse { src: req_hex(j, "hex")?, want }
        }
        "tokenize" => Step::Tokenize { src: req_hex(j, "hex")? },
        "ctx_new" => Step::CtxNew { ctx: ctx()? },
        "ctx_drop" => Step::CtxDrop { ctx: ctx()? },
        "ctx_set_var" => Step::CtxSetVar {
            ctx: ctx()?,
            name: req_hex(j, "name")?,
            value: parse_value(req(j, "value")?)?,
        },
        "ctx_set_func" => Step::CtxSetFunc {
            ctx: ctx()?,
            name: req_hex(j, "name")?,
            handler: parse_handler(req(j, "handler")?)?,
        },
        "execute" => Step::Execute { src: req_hex(j, "hex")?, ctx: ctx()?, timeout_ms: None },
        "execute_timeout" => {
            let ms = match jget(j, "ms") {
                None => 2000,
                Some(v) => as_i64(v, "ms")?,
            };
            if ms < 0 {
                return bad("ms must be >= 0");
            }
            Step::Execute { src: req_hex(j, "hex")?, ctx: ctx()?, timeout_ms: Some(ms as u64) }
        }
        "ctx_get" => Step::CtxGet { ctx: ctx()?, name: req_hex(j, "name")? },
        "ctx_dump" => Step::CtxDump { ctx: ctx()? },
        "register_function" => Step::RegFunction {
            name: req_hex(j, "name")?,
            handler: parse_handler(req(j, "handler")?)?,
        },
        "register_prefix" => Step::RegPrefix {
            name: req_hex(j, "name")?,
            handler: parse_handler(req(j, "handler")?)?,
        },
        "register_postfix" => Step::RegPostfix {
            name: req_hex(j, "name")?,
            handler: parse_handler(req(j, "handler")?)?,
        },
        "register_infix" => {
            let prec = as_i64(req(j, "prec")?, "prec")?;
            if prec < i32::MIN as i64 || prec > i32::MAX as i64 {
                return bad("prec out of i32 range");
            }
            let setter = match req_str(j, "type")? {
                "CALC" => false,
                "SETTER" => true,
                x => return bad(format!("unknown infix type \"{}\"", x)),
            };
            let right = match req_str(j, "assoc")? {
                "LEFT" => false,
                "RIGHT" => true,
                x => return bad(format!("unknown assoc \"{}\"", x)),
            };
            Step::RegInfix {
                name: req_hex(j, "name")?,
                prec: prec as i32,
                setter,
                right,
                handler: parse_handler(req(j, "handler")?)?,
            }
        }
        "set_descriptor" => {
            let key = req_str(j, "key")?.to_string();
            if !vh::DESCRIPTOR_KEYS.contains(&key.as_str()) {
                return bad(format!("unknown descriptor key \"{}\"", key));
            }
            let named = matches!(key.as_str(), "UNARY" | "BINARY" | "POSTFIX" | "FUNCTION" | "REFERENCE");
            let name = if named {
                req_hex(j, "name")?
            } else {
                match jget(j, "name") {
                    Some(v) => unhex(as_str(v, "name")?)?,
                    None => String::new(),
                }
            };
            Step::SetDescriptor { key, name, marker: req_str(j, "marker")?.to_string() }
        }
        "value_from" => Step::ValueFrom(parse_value_from(j)?),
        "accessor" => {
            let which = req_str(j, "which")?.to_string();
            if !matches!(which.as_str(), "decimal" | "integer" | "float" | "bool" | "string" | "list") {
                return bad(format!("unknown accessor \"{}\"", which));
            }
            Step::Accessor { which, value: parse_value(req(j, "value")?)? }
        }
        "reset_counter" => Step::ResetCounter,
        "set_flag" => Step::SetFlag { flag: req_str(j, "flag")?.to_string() },
        "wait_arrived" => Step::WaitArrived {
            n: as_i64(req(j, "n")?, "n")?.max(0) as usize,
            ms: match jget(j, "ms") {
                None => 3000,
                Some(v) => as_i64(v, "ms")?.max(0) as u64,
            },
        },
        "threads" => {
            let lists = match req(j, "threads")? {
                J::Arr(a) => {
                    let mut out = Vec::new();
                    for (t, l) in a.iter().enumerate() {
                        match parse_steps(l) {
                            Ok(v) => out.push(v),
                            Err(m) => return bad(format!("thread {}: {}", t, m)),
                        }
                    }
                    out
                }
                _ => return bad("threads must be an array of step arrays"),
            };
            let ms = match jget(j, "ms") {
                None => 5000,
                Some(v) => as_i64(v, "ms")?,
            };
            if ms < 0 {
                return bad("ms must be >= 0");
            }
            // optional per-thread start offsets in nanoseconds (busy-waited after the common barrier): lets the caller
            // sweep the relative timing of the threads over repeated trials
            let stagger = match jget(j, "stagger_ns") {
                Some(J::Arr(a)) => {
                    let mut v = Vec::new();
                    for x in a {
                        v.push(as_i64(x, "stagger_ns")?.max(0) as u64);
                    }
                    v
                }
                _ => Vec::new(),
            };
            Step::Threads { lists, ms: ms as u64, stagger }
        }
        _ => return bad(format!("unknown op \"{}\"", op)),
    })
}

// ───────────────────────────── process-wide state ─────────────────────────────

static COUNTER: AtomicU64 = AtomicU64::new(0);
static CALL_LOG: Mutex<Vec<String>> = Mutex::new(Vec::new());
static CTXS: Mutex<Vec<(String, Context)>> = Mutex::new(Vec::new());

thread_local! {
    static LAST_PANIC: RefCell<Option<(String, String)>> = const { RefCell::new(None) };
    /// nesting of `execute_self` re-entries on this thread (nested handler invocations are not logged or counted)
    static SELF_DEPTH: std::cell::Cell<u32> = const { std::cell::Cell::new(0) };
}

fn lock_any<T>(m: &Mutex<T>) -> MutexGuard<'_, T> {
    match m.lock() {
        Ok(g) => g,
        Err(p) => p.into_inner(),
    }
}

fn log_snapshot() -> String {
    let g = lock_any(&CALL_LOG);
    let items: Vec<String> = g.iter().map(|s| jstr(s)).collect();
    format!("[{}]", items.join(","))
}

fn ctx_clone(c: &Context) -> Context {
    Context { 0: c.0.clone() }
}

fn ctx_lookup(name: &str) -> Option<Context> {
    let g = lock_any(&CTXS);
    g.iter().find(|(n, _)| n == name).map(|(_, c)| ctx_clone(c))
}

fn ctx_install(name: &str, c: Context) {
    let mut g = lock_any(&CTXS);
    if let Some(slot) = g.iter_mut().find(|(n, _)| n == name) {
        slot.1 = c;
    } else {
        g.push((name.to_string(), c));
    }
}

fn no_ctx(name: &str) -> String {
    format!("{{\"kind\":\"no_ctx\",\"ctx\":{}}}", jstr(name))
}

/// Panic locations: crate files as `src/x.rs:L:C`; registry crates as
/// `<crate>-<version>/src/..`; everything else unchanged.
fn normalize_loc(file: &str) -> String {
    if let Some(i) = file.find("/registry/src/") {
        let rest = &file[i + "/registry/src/".len()..];
        if let Some(k) = rest.find('/') {
            return rest[k + 1..].to_string();
        }
    }
    if file.starts_with("/rustc/") || file.starts_with("/verif/") || !file.starts_with('/') {
        return file.to_string();
    }
    match file.rfind("/src/") {
        Some(i) => file[i + 1..].to_string(),
        None => file.to_string(),
    }
}

fn install_panic_hook() {
    std::panic::set_hook(Box::new(|info| {
        let msg = if let Some(s) = info.payload().downcast_ref::<&str>() {
            s.to_string()
        } else if let Some(s) = info.payload().downcast_ref::<String>() {
            s.clone()
        } else {
            "<non-string panic payload>".to_string()
        };
        let loc = match info.location() {
            Some(l) => format!("{}:{}:{}", normalize_loc(l.file()), l.line(), l.column()),
            None => String::new(),
        };
        let _ = LAST_PANIC.try_with(|p| {
            if let Ok(mut g) = p.try_borrow_mut() {
                *g = Some((msg, loc));
            }
        });
    }));
}

type PanicInfo = (String, String);

fn guarded<T>(f: impl FnOnce() -> T) -> Result<T, PanicInfo> {
    LAST_PANIC.with(|p| *p.borrow_mut() = None);
    match catch_unwind(AssertUnwindSafe(f)) {
        Ok(v) => Ok(v),
        Err(payload) => {
            // never let a panicking Drop of the payload escape
            let _ = catch_unwind(AssertUnwindSafe(move || drop(payload)));
            Err(LAST_PANIC
                .with(|p| p.borrow_mut().take())
                .unwrap_or_else(|| ("<panic not recorded>".to_string(), String::new())))
        }
    }
}

fn panic_json(p: &PanicInfo) -> String {
    format!("{{\"kind\":\"panic\",\"msg\":{},\"loc\":{}}}", jstr(&p.0), jstr(&p.1))
}

fn ok_value(json: &str) -> String {
    format!("{{\"kind\":\"ok\",\"value\":{}}}", json)
}

const OK: &str = "{\"kind\":\"ok\"}";

/// Result<T> rendering; `E` is the crate's (unnameable from here) `Error`, passed as the
/// two texts obtained through the overlay / Display.
fn result_json<T>(r: Result<EResult<T>, PanicInfo>, f: impl FnOnce(&T) -> String) -> String {
    match r {
        Err(p) => panic_json(&p),
        Ok(Err(e)) => format!(
            "{{\"kind\":\"err\",\"variant\":{},\"text\":{}}}",
            jstr(&vh::error_variant(&e)),
            jstr(&e.to_string())
        ),
        Ok(Ok(v)) => ok_value(&f(&v)),
    }
}

/// `{"a":1}` + `"k":v` ⇒ `{"a":1,"k":v}`
fn with_field(obs: String, key: &str, json: &str) -> String {
    let mut o = obs;
    if o.ends_with('}') {
        o.pop();
        if !o.ends_with('{') {
            o.push(',');
        }
        o.push_str(&format!("\"{}\":{}}}", key, json));
    }
    o
}

// ───────────────────────────── handlers ─────────────────────────────

type HFn = Arc<dyn Fn(Vec<Value>) -> EResult<Value> + Send + Sync + 'static>;

fn reenter(action: &Action, id: &str) {
    let fresh = format!("reent_{}", id);
    match action {
        Action::Parse => {
            let _ = parse_expression("max(1,-2)+3++");
        }
        Action::Execute => {
            let _ = execute("max(1,-2)+3++", Context::new());
        }
        Action::RegFunction => register_function(&fresh, Arc::new(|_| Ok(Value::from(1)))),
        Action::RegPrefix => register_prefix_op(&fresh, Arc::new(|_| Ok(Value::from(1)))),
        Action::RegPostfix => register_postfix_op(&fresh, Arc::new(|_| Ok(Value::from(1)))),
        Action::RegInfix => register_infix_op(
            &fresh,
            100,
            InfixOpType::CALC,
            InfixOpAssociativity::LEFT,
            Arc::new(|_, _| Ok(Value::from(1))),
        ),
        Action::ExecuteSelf => {
            let prog = match id {
                "gf" => "gf(1)",
                "+++" => "+++ 1",
                "---" => "1 ---",
                "hi" => "1 hi 2",
                _ => "max(1,-2)+3++",
            };
            let d = SELF_DEPTH.with(|c| c.get());
            if d < 2 {
                SELF_DEPTH.with(|c| c.set(d + 1));
                let _ = execute(prog, Context::new());
                SELF_DEPTH.with(|c| c.set(d));
            }
        }
        Action::LockCtx(name) => match ctx_lookup(name) {
            Some(c) => {
                // a poisoned lock is entered anyway: the point of this action is the
                // *blocking* behaviour of `lock()`, poisoning is observable via ctx_dump
                let n = match c.0.lock() {
                    Ok(g) => g.len(),
                    Err(p) => p.into_inner().len(),
                };
                std::hint::black_box(n);
            }
            None => panic!("verif-handler-unknown-ctx {}", name),
        },
        Action::Seq(a, b) => {
            reenter(a, id);
            reenter(b, id);
        }
        Action::SetVar(name) => match ctx_lookup(name) {
            Some(c) => {
                let mut c = c;
                c.set_variable("x", Value::from(41));
            }
            None => panic!("verif-handler-unknown-ctx {}", name),
        },
    }
}

fn make_handler(spec: &HSpec) -> HFn {
    let spec = spec.clone();
    Arc::new(move |args: Vec<Value>| -> EResult<Value> {
        let nested = SELF_DEPTH.with(|c| c.get()) > 0;
        if !nested {
            lock_any(&CALL_LOG).push(spec.id.clone());
        }
        let n = if nested { 0 } else { COUNTER.fetch_add(1, Ordering::SeqCst) + 1 };
        if !nested && spec.fail_at == Some(n) {
            if spec.fail_panic {
                panic!("verif-handler-panic {}", spec.id);
            }
            return Err(vh::param_invalid());
        }
        match &spec.kind {
            HKind::Const(v) => Ok(v.clone()),
            HKind::Echo => {
                let parts: Vec<String> = args.iter().map(|a| format!("{:?}", a)).collect();
                Ok(Value::String(format!("{}({})", spec.id, parts.join(","))))
            }
            HKind::First => Ok(args.into_iter().next().unwrap_or(Value::None)),
            HKind::Err => Err(vh::param_invalid()),
            HKind::Panic => panic!("verif-handler-panic {}", spec.id),
            HKind::IntSub => {
                if args.len() != 2 {
                    return Err(vh::param_invalid());
                }
                let mut it = args.into_iter();
                let a = it.next().unwrap_or(Value::None);
                let b = it.next().unwrap_or(Value::None);
                // plain `-` on purpose: same code as the crate's documented example
                Ok(Value::from(a.integer()? - b.integer()?))
            }
            HKind::Reenter(action) => {
                reenter(action, &spec.id);
                Ok(Value::from(7))
            }
            HKind::ArriveWait(flag, ms) => {
                ARRIVED.fetch_add(1, Ordering::SeqCst);
                if wait_flag(flag, *ms) {
                    Ok(Value::from(7))
                } else {
                    Ok(Value::from("timeout"))
                }
            }
            HKind::WaitFlag(flag, ms) => {
                // wait until another thread sets the flag; a timeout is reported in the value
                if wait_flag(flag, *ms) {
                    Ok(Value::from(7))
                } else {
                    Ok(Value::from("timeout"))
                }
            }
        }
    })
}

// ───────────────────────────── flags (cross-thread waiting) ─────────────────────────────

static ARRIVED: std::sync::atomic::AtomicUsize = std::sync::atomic::AtomicUsize::new(0);
static FLAGS: Mutex<Vec<String>> = Mutex::new(Vec::new());
static FLAGS_CV: std::sync::Condvar = std::sync::Condvar::new();

fn set_flag(name: &str) {
    let mut g = FLAGS.lock().unwrap_or_else(|e| e.into_inner());
    if !g.iter().any(|f| f == name) {
        g.push(name.to_string());
    }
    FLAGS_CV.notify_all();
}

fn wait_flag(name: &str, ms: u64) -> bool {
    let deadline = std::time::Instant::now() + Duration::from_millis(ms);
    let mut g = FLAGS.lock().unwrap_or_else(|e| e.into_inner());
    loop {
        if g.iter().any(|f| f == name) {
            return true;
        }
        let now = std::time::Instant::now();
        if now >= deadline {
            return false;
        }
        let (ng, _) = FLAGS_CV.wait_timeout(g, deadline - now).unwrap_or_else(|e| e.into_inner());
        g = ng;
    }
}

// ───────────────────────────── steps ─────────────────────────────

fn step_parse(src: &str, want: Want) -> String {
    let ast = match guarded(|| parse_expression(src)) {
        Err(p) => return panic_json(&p),
        Ok(Err(e)) => return result_json::<()>(Ok(Err(e)), |_| String::new()),
        Ok(Ok(ast)) => ast,
    };
    let mut o = String::from("{\"kind\":\"ok\"");
    if want.ast {
        match guarded(|| vh::ast_json(&ast)) {
            Ok(s) => o.push_str(&format!(",\"ast\":{}", s)),
            Err(p) => o.push_str(&format!(",\"ast\":{}", panic_json(&p))),
        }
    }
    let mut expr_text: Option<String> = None;
    let mut expr_panicked = false;
    if want.expr || want.reparse {
        match guarded(|| ast.expr()) {
            Ok(s) => {
                if want.expr {
                    o.push_str(&format!(",\"expr\":{}", jhex(&s)));
                }
                expr_text = Some(s);
            }
            Err(p) => {
                expr_panicked = true;
                if want.expr {
                    o.push_str(&format!(",\"expr\":{}", panic_json(&p)));
                }
            }
        }
    }
    if want.describe {
        match guarded(|| ast.describe()) {
            Ok(s) => o.push_str(&format!(",\"describe\":{}", jhex(&s))),
            Err(p) => o.push_str(&format!(",\"describe\":{}", panic_json(&p))),
        }
    }
    if want.reparse {
        let r = match &expr_text {
            None => {
                debug_assert!(expr_panicked);
                "{\"kind\":\"skipped\",\"why\":\"expr_panic\"}".to_string()
            }
            Some(text) => match guarded(|| parse_expression(text)) {
                Err(p) => panic_json(&p),
                Ok(Err(e)) => result_json::<()>(Ok(Err(e)), |_| String::new()),
                Ok(Ok(ast2)) => {
                    let a = match guarded(|| vh::ast_json(&ast2)) {
                        Ok(s) => s,
                        Err(p) => panic_json(&p),
                    };
                    let e = match guarded(|| ast2.expr()) {
                        Ok(s) => jhex(&s),
                        Err(p) => panic_json(&p),
                    };
                    format!("{{\"kind\":\"ok\",\"ast\":{},\"expr\":{}}}", a, e)
                }
            },
        };
        o.push_str(&format!(",\"reparse\":{}", r));
    }
    o.push('}');
    o
}

fn step_tokenize(src: &str) -> String {
    match guarded(|| vh::tokenize(src)) {
        Err(p) => panic_json(&p),
        Ok(Err(e)) => result_json::<()>(Ok(Err(e)), |_| String::new()),
        Ok(Ok(toks)) => {
            let items: Vec<String> = toks
                .iter()
                .map(|(k, t, s, e)| {
                    format!("{{\"kind\":{},\"hex\":{},\"start\":{},\"end\":{}}}", jstr(k), jhex(t), s, e)
                })
                .collect();
            format!("{{\"kind\":\"ok\",\"tokens\":[{}]}}", items.join(","))
        }
    }
}

fn exec_obs(src: &str, ctx: &mut Context) -> String {
    // the public entry point (its body is part of what is checked); the clone shares the same map
    let r = guarded(|| execute(src, vh::ctx_share(ctx)));
    result_json(r, vjson)
}

fn spawn_big<F: FnOnce() + Send + 'static>(name: &str, f: F) -> std::io::Result<std::thread::JoinHandle<()>> {
    std::thread::Builder::new().name(name.to_string()).stack_size(8 << 20).spawn(f)
}

fn step_execute(src: &str, ctx_name: &str, timeout_ms: Option<u64>) -> String {
    let mut ctx = match ctx_lookup(ctx_name) {
        Some(c) => c,
        None => return no_ctx(ctx_name),
    };
    let obs = match timeout_ms {
        None => {
            // Programs are evaluated from one long-lived, reused line buffer (as a server reading
            // requests into a single String would do), so consecutive programs occupy the same
            // address: address-keyed caches in the crate then manifest deterministically.
            static LINE: Mutex<String> = Mutex::new(String::new());
            match LINE.try_lock() {
                Ok(mut line) => {
                    if line.capacity() < 1 << 16 {
                        line.reserve(1 << 16);
                    }
                    line.clear();
                    line.push_str(src);
                    exec_obs(line.as_str(), &mut ctx)
                }
                // another thread of a `threads` step is using the buffer (or it is poisoned): evaluate in place
                Err(_) => exec_obs(src, &mut ctx),
            }
        }
        Some(ms) => {
            let (tx, rx) = mpsc::channel::<String>();
            let src2 = src.to_string();
            let spawned = spawn_big("vreplay-exec", move || {
                let mut ctx = ctx;
                let o = exec_obs(&src2, &mut ctx);
                let _ = tx.send(o);
            });
            match spawned {
                Err(e) => format!("{{\"kind\":\"spawn_failed\",\"msg\":{}}}", jstr(&e.to_string())),
                Ok(_handle) => match rx.recv_timeout(Duration::from_millis(ms)) {
                    Ok(o) => o,
                    Err(_) => "{\"kind\":\"hang\"}".to_string(), // thread is leaked
                },
            }
        }
    };
    with_field(obs, "log", &log_snapshot())
}

fn step_value_from(vf: &VF) -> String {
    let vf = vf.clone();
    let r = guarded(move || match vf {
        VF::I8(x) => Value::from(x),
        VF::I16(x) => Value::from(x),
        VF::I32(x) => Value::from(x),
        VF::I64(x) => Value::from(x),
        VF::I128(x) => Value::from(x),
        VF::U8(x) => Value::from(x),
        VF::U16(x) => Value::from(x),
        VF::U32(x) => Value::from(x),
        VF::U64(x) => Value::from(x),
        VF::U128(x) => Value::from(x),
        VF::F32(x) => Value::from(x),
        VF::F64(x) => Value::from(x),
        VF::Bool(x) => Value::from(x),
        VF::Str(x) => Value::from(x.as_str()),
        VF::String(x) => Value::from(x),
        VF::Decimal(x) => Value::from(x),
        VF::List(x) => Value::from(x),
    });
    match r {
        Ok(v) => ok_value(&vjson(&v)),
        Err(p) => panic_json(&p),
    }
}

fn step_accessor(which: &str, value: &Value) -> String {
    let v = value.clone();
    match which {
        "decimal" => result_json(guarded(|| v.decimal()), |d| vjson(&Value::Number(*d))),
        "integer" => result_json(guarded(|| v.integer()), |i| jstr(&i.to_string())),
        "float" => result_json(guarded(|| v.float()), |f| jstr(&format!("{:?}", f))),
        "bool" => result_json(guarded(|| v.bool()), |b| b.to_string()),
        "string" => result_json(guarded(|| v.string()), |s| jhex(s)),
        _ => result_json(guarded(|| v.list()), |l| vjson(&Value::List(l.clone()))),
    }
}

fn unit_obs(r: Result<(), PanicInfo>) -> String {
    match r {
        Ok(()) => OK.to_string(),
        Err(p) => panic_json(&p),
    }
}

fn step_threads(lists: &[Vec<Step>], ms: u64, stagger: &[u64]) -> String {
    let n = lists.len();
    let barrier = Arc::new(Barrier::new(n.max(1)));
    let results: Arc<Mutex<Vec<Vec<String>>>> = Arc::new(Mutex::new(vec![Vec::new(); n]));
    let (tx, rx) = mpsc::channel::<usize>();
    let mut started = 0usize;
    for (i, list) in lists.iter().enumerate() {
        let list = list.clone();
        let barrier = barrier.clone();
        let results = results.clone();
        let tx = tx.clone();
        let delay = stagger.get(i).copied().unwrap_or(0);
        let r = spawn_big("vreplay-thread", move || {
            barrier.wait();
            if delay > 0 {
                let t0 = Instant::now();
                while (t0.elapsed().as_nanos() as u64) < delay {
                    std::hint::spin_loop();
                }
            }
            for st in &list {
                let o = run_step(st, true);
                lock_any(&results)[i].push(o);
            }
            let _ = tx.send(i);
        });
        match r {
            Ok(_) => started += 1,
            Err(e) => {
                // the barrier can no longer be satisfied; report and give up on this step
                return format!("{{\"kind\":\"spawn_failed\",\"msg\":{}}}", jstr(&e.to_string()));
            }
        }
    }
    drop(tx);
    let deadline = Instant::now() + Duration::from_millis(ms);
    let mut done = 0usize;
    while done < started {
        let left = deadline.saturating_duration_since(Instant::now());
        match rx.recv_timeout(left) {
            Ok(_) => done += 1,
            Err(_) => break,
        }
    }
    let snapshot: Vec<String> = lock_any(&results)
        .iter()
        .map(|obs| format!("[{}]", obs.join(",")))
        .collect();
    let kind = if done == started { "ok" } else { "hang" };
    format!(
        "{{\"kind\":\"{}\",\"results\":[{}],\"log\":{}}}",
        kind,
        snapshot.join(","),
        log_snapshot()
    )
}

fn run_step(step: &Step, in_threads: bool) -> String {
    if !in_threads {
        lock_any(&CALL_LOG).clear();
    }
    match step {
        Step::InvalidUtf8 => "{\"kind\":\"invalid_utf8\"}".to_string(),
        Step::Parse { src, want } => step_parse(src, *want),
        Step::Tokenize { src } => step_tokenize(src),
        Step::CtxNew { ctx } => match guarded(Context::new) {
            Ok(c) => {
                ctx_install(ctx, c);
                OK.to_string()
            }
            Err(p) => panic_json(&p),
        },
        Step::CtxDrop { ctx } => {
            // forget the named context: its allocation is freed (unless a hung thread still owns a clone), so that a
            // context created next may get the same address, as in a program that creates one context per request
            let mut g = lock_any(&CTXS);
            let before = g.len();
            g.retain(|(n, _)| n != ctx);
            if g.len() < before { OK.to_string() } else { no_ctx(ctx) }
        }
        Step::CtxSetVar { ctx, name, value } => match ctx_lookup(ctx) {
            None => no_ctx(ctx),
            Some(mut c) => unit_obs(guarded(|| c.set_variable(name, value.clone()))),
        },
        Step::CtxSetFunc { ctx, name, handler } => match ctx_lookup(ctx) {
            None => no_ctx(ctx),
            Some(mut c) => {
                let h = make_handler(handler);
                unit_obs(guarded(|| c.set_func(name, h)))
            }
        },
        Step::Execute { src, ctx, timeout_ms } => step_execute(src, ctx, *timeout_ms),
        Step::CtxGet { ctx, name } => match ctx_lookup(ctx) {
            None => no_ctx(ctx),
            Some(c) => match guarded(|| c.get_variable(name)) {
                Ok(Some(v)) => ok_value(&vjson(&v)),
                Ok(None) => ok_value("null"),
                Err(p) => panic_json(&p),
            },
        },
        Step::CtxDump { ctx } => match ctx_lookup(ctx) {
            None => no_ctx(ctx),
            Some(c) => match guarded(|| vh::ctx_dump(&c)) {
                Err(p) => panic_json(&p),
                Ok(Err(kind)) => format!("{{\"kind\":{}}}", jstr(kind)),
                Ok(Ok(entries)) => {
                    let items: Vec<String> = entries
                        .iter()
                        .map(|(n, v)| match v {
                            Some(v) => format!("{{\"name\":{},\"var\":{}}}", jhex(n), vjson(v)),
                            None => format!("{{\"name\":{},\"func\":true}}", jhex(n)),
                        })
                        .collect();
                    format!("{{\"kind\":\"ok\",\"entries\":[{}]}}", items.join(","))
                }
            },
        },
        Step::RegFunction { name, handler } => {
            let h = make_handler(handler);
            unit_obs(guarded(|| register_function(name, h)))
        }
        Step::RegPrefix { name, handler } => {
            let h = make_handler(handler);
            unit_obs(guarded(|| register_prefix_op(name, Arc::new(move |a| h(vec![a])))))
        }
        Step::RegPostfix { name, handler } => {
            let h = make_handler(handler);
            unit_obs(guarded(|| register_postfix_op(name, Arc::new(move |a| h(vec![a])))))
        }
        Step::RegInfix { name, prec, setter, right, handler } => {
            let h = make_handler(handler);
            let ty = if *setter { InfixOpType::SETTER } else { InfixOpType::CALC };
            let assoc = if *right { InfixOpAssociativity::RIGHT } else { InfixOpAssociativity::LEFT };
            unit_obs(guarded(|| {
                register_infix_op(name, *prec, ty, assoc, Arc::new(move |a, b| h(vec![a, b])))
            }))
        }
        Step::SetDescriptor { key, name, marker } => {
            unit_obs(guarded(|| vh::set_descriptor(key, name, marker)))
        }
        Step::ValueFrom(vf) => step_value_from(vf),
        Step::Accessor { which, value } => step_accessor(which, value),
        Step::SetFlag { flag } => {
            set_flag(flag);
            OK.to_string()
        }
        Step::WaitArrived { n, ms } => {
            let deadline = std::time::Instant::now() + Duration::from_millis(*ms);
            while ARRIVED.load(Ordering::SeqCst) < *n && std::time::Instant::now() < deadline {
                std::thread::sleep(Duration::from_millis(1));
            }
            format!("{{\"kind\":\"ok\",\"arrived\":{}}}", ARRIVED.load(Ordering::SeqCst))
        }
        Step::ResetCounter => {
            COUNTER.store(0, Ordering::SeqCst);
            lock_any(&CALL_LOG).clear();
            OK.to_string()
        }
        Step::Threads { lists, ms, stagger } => step_threads(lists, *ms, stagger),
    }
}

// ───────────────────────────── entry point ─────────────────────────────

fn die(msg: &str) -> ! {
    let _ = writeln!(std::io::stderr(), "vreplay: {}", msg);
    std::process::exit(3);
}

fn emit(line: &str) {
    let out = std::io::stdout();
    let mut g = out.lock();
    let _ = writeln!(g, "{}", line);
    let _ = g.flush();
}

pub fn main() {
    let args: Vec<String> = std::env::args().collect();
    if args.len() != 2 {
        die("usage: vreplay <scenario.json>   ('-' reads stdin)");
    }
    let text = if args[1] == "-" {
        let mut s = String::new();
        match std::io::Read::read_to_string(&mut std::io::stdin(), &mut s) {
            Ok(_) => s,
            Err(e) => die(&format!("cannot read stdin: {}", e)),
        }
    } else {
        match std::fs::read_to_string(&args[1]) {
            Ok(s) => s,
            Err(e) => die(&format!("cannot read {}: {}", args[1], e)),
        }
    };
    let doc = match json_parse(&text) {
        Ok(j) => j,
        Err(m) => die(&m),
    };
    let steps_json = match &doc {
        J::Arr(_) => &doc,
        J::Obj(_) => match jget(&doc, "steps") {
            Some(s) => s,
            None => die("scenario object has no \"steps\""),
        },
        _ => die("scenario must be {\"steps\":[..]} or a bare array of steps"),
    };
    let steps = match parse_steps(steps_json) {
        Ok(s) => s,
        Err(m) => die(&m),
    };

    install_panic_hook();
    for (i, st) in steps.iter().enumerate() {
        // run_step guards every call into the crate itself; this outer guard only makes
        // sure a bug in vreplay cannot lose the remaining observations
        let obs = match guarded(|| run_step(st, false)) {
            Ok(o) => o,
            Err(p) => with_field(panic_json(&p), "where", "\"vreplay\""),
        };
        emit(&format!("OBS {} {}", i, obs));
    }
    emit("DONE");
    // leaked (hung) threads must not keep the process alive
    std::process::exit(0);
}
