#!/usr/bin/env bash
# Self-test of the replay component: scratch copy of the crate -> build.sh -> run every
# examples/*.json against vreplay-dev and vreplay-release, print the outputs, check the
# examples/*.expect lines ("<both|dev|release> <fixed substring of the output>", "#" comments),
# clean up.
#
#   selftest.sh [crate_src_dir]      (default /repo; it is only read, never modified)
#   KEEP=1 selftest.sh               keeps the scratch directory (printed at the end)
set -uo pipefail

HERE="$(cd "$(dirname "${BASH_SOURCE[0]}")" && pwd)"
SRC="${1:-/repo}"
SCRATCH="$(mktemp -d /var/tmp/vreplay-selftest.XXXXXX)"
cleanup() {
    if [ "${KEEP:-0}" = "1" ]; then
        echo "kept $SCRATCH"
    else
        rm -rf "$SCRATCH"
    fi
}
trap cleanup EXIT

mkdir -p "$SCRATCH/crate"
rsync -a --exclude target --exclude .git "$SRC/" "$SCRATCH/crate/" || { echo "SELFTEST FAIL: rsync"; exit 1; }

echo "## build ($SCRATCH)"
if ! "$HERE/build.sh" "$SCRATCH/crate" "$SCRATCH/out" 2> "$SCRATCH/build.log"; then
    cat "$SCRATCH/build.log"
    echo "SELFTEST FAIL: build.sh"
    exit 1
fi
tail -n 1 "$SCRATCH/build.log"

fail=0
for scen in "$HERE"/examples/*.json; do
    name="$(basename "$scen" .json)"
    for prof in dev release; do
        echo
        echo "## $name [$prof]"
        out="$SCRATCH/$name.$prof.out"
        timeout 60 "$SCRATCH/out/vreplay-$prof" "$scen" > "$out" 2> "$SCRATCH/$name.$prof.err"
        rc=$?
        cat "$out"
        [ -s "$SCRATCH/$name.$prof.err" ] && sed 's/^/stderr: /' "$SCRATCH/$name.$prof.err"
        if [ $rc -ne 0 ]; then echo "FAIL: exit code $rc"; fail=1; fi
        if [ "$(tail -n 1 "$out")" != "DONE" ]; then echo "FAIL: no DONE line"; fail=1; fi
        exp="$HERE/examples/$name.expect"
        if [ -f "$exp" ]; then
            while IFS= read -r line; do
                [ -z "$line" ] && continue
                case "$line" in \#*) continue ;; esac
                who="${line%% *}"
                pat="${line#* }"
                if [ "$who" = "both" ] || [ "$who" = "$prof" ]; then
                    if ! grep -qF -- "$pat" "$out"; then
                        echo "FAIL: expected [$prof]: $pat"
                        fail=1
                    fi
                fi
            done < "$exp"
        fi
    done
done

# exit-code contract: invalid scenario => 3, nothing on stdout
printf '{"steps":[{"op":"no_such_op"}]}' > "$SCRATCH/bad.json"
"$SCRATCH/out/vreplay-dev" "$SCRATCH/bad.json" > "$SCRATCH/bad.out" 2> /dev/null
rc=$?
if [ $rc -ne 3 ] || [ -s "$SCRATCH/bad.out" ]; then echo "FAIL: unknown op must exit 3 silently (rc=$rc)"; fail=1; fi

echo
if [ $fail -eq 0 ]; then echo "SELFTEST OK"; else echo "SELFTEST FAIL"; fi
exit $fail
