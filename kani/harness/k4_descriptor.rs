// K4 (property C18): every `set_<kind>_descriptor` / `get_<kind>_descriptor` pair of
// `DescriptorManager` uses the same (kind[, name]) key, and no other kind's key.
//
// Injected by /verif/kani/run_kani.py as a child module of `crate::descriptor` (the private
// `DescriptorKey`, `Descriptor`, the descriptor type aliases and `DescriptorManager::{set,get}`
// are visible here).
//
// What is real:  all 18 `set_*_descriptor` / `get_*_descriptor` methods (key construction, the
//                `Descriptor` variant match, the default fallbacks) and the derived
//                `PartialEq for DescriptorKey` / `Clone for Descriptor`.
// What is stubbed: `DescriptorManager::new` (once_cell => Kani compiler ICE) -> forged handle that
//                is never dereferenced; `DescriptorManager::set` / `get`
//                (`Mutex<HashMap<DescriptorKey,_>>`, undecidable for CBMC) -> a two-slot
//                association store with insert-or-replace semantics keyed by the derived
//                `DescriptorKey == DescriptorKey`.
//
// Scenario of harness k4_<K>: a decoy descriptor of a DIFFERENT kind is registered first under the
// same name, then a marker for kind K. Identity of a descriptor = address of its Arc allocation
// (marker and decoy stay alive, so a fresh default Arc can never alias them).
//
// Input layout: none. The scenarios are concrete (names "x" / "y"); the harness name identifies
// the kind, so a FAILED verdict needs no counterexample values ("cex": {}); only the trailing
// `_marker: u8` of cex_marker() is drawn.

use super::*;
use std::ptr::addr_of;
use std::ptr::addr_of_mut;
use std::sync::Arc;

static mut SLOT0: Option<(DescriptorKey, Descriptor)> = None;
static mut SLOT1: Option<(DescriptorKey, Descriptor)> = None;
static mut SET_CALLS: u32 = 0;
static mut GET_CALLS: u32 = 0;

/// Replacement for `DescriptorManager::new`.
fn stub_new() -> DescriptorManager {
    DescriptorManager {
        store: unsafe { std::mem::transmute::<usize, &'static _>(8usize) },
    }
}

/// Replacement for `DescriptorManager::set`: HashMap::insert over two slots.
fn stub_set(_this: &mut DescriptorManager, key: DescriptorKey, value: Descriptor) {
    unsafe {
        SET_CALLS += 1;
        let s0 = &mut *addr_of_mut!(SLOT0);
        match s0 {
            None => {
                *s0 = Some((key, value));
                return;
            }
            Some((k, v)) => {
                if *k == key {
                    *v = value;
                    return;
                }
            }
        }
        let s1 = &mut *addr_of_mut!(SLOT1);
        match s1 {
            None => {
                *s1 = Some((key, value));
                return;
            }
            Some((k, v)) => {
                if *k == key {
                    *v = value;
                    return;
                }
            }
        }
    }
    assert!(false, "k4: harness registers at most two distinct keys");
}

/// Replacement for `DescriptorManager::get`: HashMap::get(..).cloned() over two slots.
fn stub_get(_this: &DescriptorManager, key: DescriptorKey) -> Option<Descriptor> {
    unsafe {
        GET_CALLS += 1;
        if let Some((k, v)) = &*addr_of!(SLOT0) {
            if *k == key {
                return Some(v.clone());
            }
        }
        if let Some((k, v)) = &*addr_of!(SLOT1) {
            if *k == key {
                return Some(v.clone());
            }
        }
    }
    None
}

/// Drawn after the last kani::cover! and immediately before the assertions of a harness. Concrete
/// playback extracts the kani::any() values of the trace *up to* the property, and Kani drops a
/// playback test that is identical to the one printed just before it; this extra byte makes the
/// value list of every harness assertion differ from that of every cover, so the counterexample
/// of a failed assertion is always printed. (Layout: trailing `_marker: u8` in run_kani.py.)
fn cex_marker() {
    let m: u8 = kani::any();
    kani::assume(m == 0xA5);
}

fn addr<T: ?Sized>(a: &Arc<T>) -> *const () {
    Arc::as_ptr(a) as *const ()
}

/// The registered name and a different one. Concrete one-byte names: with symbolic name bytes every
/// key comparison in the store forks and CBMC needs > 150 s per harness (measured); the key
/// construction under test does not depend on the name's content.
#[derive(Clone, Copy)]
enum Name {
    Registered,
    Other,
}

fn name_of(n: Name) -> String {
    match n {
        Name::Registered => String::from("x"),
        Name::Other => String::from("y"),
    }
}

fn names() -> (Name, Name) {
    (Name::Registered, Name::Other)
}

fn both_slots_used() -> bool {
    unsafe { (*addr_of!(SLOT0)).is_some() && (*addr_of!(SLOT1)).is_some() }
}

fn mk_unary() -> Arc<UnaryDescriptor> {
    Arc::new(|_a: String, _b: String| String::new())
}
fn mk_binary() -> Arc<BinaryDescriptor> {
    Arc::new(|_a: String, _b: String, _c: String| String::new())
}
fn mk_postfix() -> Arc<PostfixDescriptor> {
    Arc::new(|_a: String, _b: String| String::new())
}
fn mk_ternary() -> Arc<TernaryDescriptor> {
    Arc::new(|_a: String, _b: String, _c: String| String::new())
}
fn mk_function() -> Arc<FunctionDescriptor> {
    Arc::new(|_a: String, _b: Vec<String>| String::new())
}
fn mk_reference() -> Arc<ReferenceDescriptor> {
    Arc::new(|_a: String| String::new())
}
fn mk_list() -> Arc<ListDescriptor> {
    Arc::new(|_a: Vec<String>| String::new())
}
fn mk_map() -> Arc<MapDescriptor> {
    Arc::new(|_a: Vec<(String, String)>| String::new())
}
fn mk_chain() -> Arc<ChainDescriptor> {
    Arc::new(|_a: Vec<String>| String::new())
}

// ---------------------------------------------------------------------------------------------
// named kinds
// ---------------------------------------------------------------------------------------------

#[kani::proof]
#[kani::unwind(4)]
#[kani::stub(crate::descriptor::DescriptorManager::new, stub_new)]
#[kani::stub(crate::descriptor::DescriptorManager::set, stub_set)]
#[kani::stub(crate::descriptor::DescriptorManager::get, stub_get)]
fn k4_unary() {
    let (n, o) = names();
    let mut m = DescriptorManager::new();
    let decoy = mk_binary();
    m.set_binary_descriptor(name_of(n), decoy.clone());
    let marker = mk_unary();
    m.set_unary_descriptor(name_of(n), marker.clone());
    kani::cover!(both_slots_used(), "k4_two_keys_stored");
    let got = m.get_unary_descriptor(name_of(n));
    kani::cover!(unsafe { GET_CALLS } == 1, "k4_lookup_reached_store");
    cex_marker();
    assert!(addr(&got) == addr(&marker), "k4_unary: get_unary_descriptor(name) returns the descriptor registered by set_unary_descriptor(name)");
    assert!(addr(&m.get_unary_descriptor(name_of(o))) != addr(&marker), "k4_unary: a different name does not see the registration");
    assert!(addr(&m.get_binary_descriptor(name_of(n))) != addr(&marker), "k4_unary: binary lookup does not see a unary registration");
    assert!(addr(&m.get_postfix_descriptor(name_of(n))) != addr(&marker), "k4_unary: postfix lookup does not see a unary registration");
    assert!(addr(&m.get_function_descriptor(name_of(n))) != addr(&marker), "k4_unary: function lookup does not see a unary registration");
    assert!(addr(&m.get_reference_descriptor(name_of(n))) != addr(&marker), "k4_unary: reference lookup does not see a unary registration");
}

#[kani::proof]
#[kani::unwind(4)]
#[kani::stub(crate::descriptor::DescriptorManager::new, stub_new)]
#[kani::stub(crate::descriptor::DescriptorManager::set, stub_set)]
#[kani::stub(crate::descriptor::DescriptorManager::get, stub_get)]
fn k4_binary() {
    let (n, o) = names();
    let mut m = DescriptorManager::new();
    let decoy = mk_unary();
    m.set_unary_descriptor(name_of(n), decoy.clone());
    let marker = mk_binary();
    m.set_binary_descriptor(name_of(n), marker.clone());
    kani::cover!(both_slots_used(), "k4_two_keys_stored");
    let got = m.get_binary_descriptor(name_of(n));
    kani::cover!(unsafe { GET_CALLS } == 1, "k4_lookup_reached_store");
    cex_marker();
    assert!(addr(&got) == addr(&marker), "k4_binary: get_binary_descriptor(name) returns the descriptor registered by set_binary_descriptor(name)");
    assert!(addr(&m.get_binary_descriptor(name_of(o))) != addr(&marker), "k4_binary: a different name does not see the registration");
    assert!(addr(&m.get_unary_descriptor(name_of(n))) != addr(&marker), "k4_binary: unary lookup does not see a binary registration");
    assert!(addr(&m.get_postfix_descriptor(name_of(n))) != addr(&marker), "k4_binary: postfix lookup does not see a binary registration");
    assert!(addr(&m.get_function_descriptor(name_of(n))) != addr(&marker), "k4_binary: function lookup does not see a binary registration");
    assert!(addr(&m.get_reference_descriptor(name_of(n))) != addr(&marker), "k4_binary: reference lookup does not see a binary registration");
}

#[kani::proof]
#[kani::unwind(4)]
#[kani::stub(crate::descriptor::DescriptorManager::new, stub_new)]
#[kani::stub(crate::descriptor::DescriptorManager::set, stub_set)]
#[kani::stub(crate::descriptor::DescriptorManager::get, stub_get)]
fn k4_postfix() {
    let (n, o) = names();
    let mut m = DescriptorManager::new();
    let decoy = mk_unary();
    m.set_unary_descriptor(name_of(n), decoy.clone());
    let marker = mk_postfix();
    m.set_postfix_descriptor(name_of(n), marker.clone());
    kani::cover!(both_slots_used(), "k4_two_keys_stored");
    let got = m.get_postfix_descriptor(name_of(n));
    kani::cover!(unsafe { GET_CALLS } == 1, "k4_lookup_reached_store");
    cex_marker();
    assert!(addr(&got) == addr(&marker), "k4_postfix: get_postfix_descriptor(name) returns the descriptor registered by set_postfix_descriptor(name)");
    assert!(addr(&m.get_postfix_descriptor(name_of(o))) != addr(&marker), "k4_postfix: a different name does not see the registration");
    assert!(addr(&m.get_unary_descriptor(name_of(n))) != addr(&marker), "k4_postfix: unary lookup does not see a postfix registration");
    assert!(addr(&m.get_binary_descriptor(name_of(n))) != addr(&marker), "k4_postfix: binary lookup does not see a postfix registration");
    assert!(addr(&m.get_function_descriptor(name_of(n))) != addr(&marker), "k4_postfix: function lookup does not see a postfix registration");
    assert!(addr(&m.get_reference_descriptor(name_of(n))) != addr(&marker), "k4_postfix: reference lookup does not see a postfix registration");
}

#[kani::proof]
#[kani::unwind(4)]
#[kani::stub(crate::descriptor::DescriptorManager::new, stub_new)]
#[kani::stub(crate::descriptor::DescriptorManager::set, stub_set)]
#[kani::stub(crate::descriptor::DescriptorManager::get, stub_get)]
fn k4_function() {
    let (n, o) = names();
    let mut m = DescriptorManager::new();
    let decoy = mk_reference();
    m.set_reference_descriptor(name_of(n), decoy.clone());
    let marker = mk_function();
    m.set_function_descriptor(name_of(n), marker.clone());
    kani::cover!(both_slots_used(), "k4_two_keys_stored");
    let got = m.get_function_descriptor(name_of(n));
    kani::cover!(unsafe { GET_CALLS } == 1, "k4_lookup_reached_store");
    cex_marker();
    assert!(addr(&got) == addr(&marker), "k4_function: get_function_descriptor(name) returns the descriptor registered by set_function_descriptor(name)");
    assert!(addr(&m.get_function_descriptor(name_of(o))) != addr(&marker), "k4_function: a different name does not see the registration");
    assert!(addr(&m.get_unary_descriptor(name_of(n))) != addr(&marker), "k4_function: unary lookup does not see a function registration");
    assert!(addr(&m.get_binary_descriptor(name_of(n))) != addr(&marker), "k4_function: binary lookup does not see a function registration");
    assert!(addr(&m.get_postfix_descriptor(name_of(n))) != addr(&marker), "k4_function: postfix lookup does not see a function registration");
    assert!(addr(&m.get_reference_descriptor(name_of(n))) != addr(&marker), "k4_function: reference lookup does not see a function registration");
}

#[kani::proof]
#[kani::unwind(4)]
#[kani::stub(crate::descriptor::DescriptorManager::new, stub_new)]
#[kani::stub(crate::descriptor::DescriptorManager::set, stub_set)]
#[kani::stub(crate::descriptor::DescriptorManager::get, stub_get)]
fn k4_reference() {
    let (n, o) = names();
    let mut m = DescriptorManager::new();
    let decoy = mk_function();
    m.set_function_descriptor(name_of(n), decoy.clone());
    let marker = mk_reference();
    m.set_reference_descriptor(name_of(n), marker.clone());
    kani::cover!(both_slots_used(), "k4_two_keys_stored");
    let got = m.get_reference_descriptor(name_of(n));
    kani::cover!(unsafe { GET_CALLS } == 1, "k4_lookup_reached_store");
    cex_marker();
    assert!(addr(&got) == addr(&marker), "k4_reference: get_reference_descriptor(name) returns the descriptor registered by set_reference_descriptor(name)");
    assert!(addr(&m.get_reference_descriptor(name_of(o))) != addr(&marker), "k4_reference: a different name does not see the registration");
    assert!(addr(&m.get_unary_descriptor(name_of(n))) != addr(&marker), "k4_reference: unary lookup does not see a reference registration");
    assert!(addr(&m.get_binary_descriptor(name_of(n))) != addr(&marker), "k4_reference: binary lookup does not see a reference registration");
    assert!(addr(&m.get_postfix_descriptor(name_of(n))) != addr(&marker), "k4_reference: postfix lookup does not see a reference registration");
    assert!(addr(&m.get_function_descriptor(name_of(n))) != addr(&marker), "k4_reference: function lookup does not see a reference registration");
}

// ---------------------------------------------------------------------------------------------
// unnamed kinds
// ---------------------------------------------------------------------------------------------

#[kani::proof]
#[kani::unwind(4)]
#[kani::stub(crate::descriptor::DescriptorManager::new, stub_new)]
#[kani::stub(crate::descriptor::DescriptorManager::set, stub_set)]
#[kani::stub(crate::descriptor::DescriptorManager::get, stub_get)]
fn k4_ternary() {
    let mut m = DescriptorManager::new();
    let decoy = mk_list();
    m.set_list_descriptor(decoy.clone());
    let marker = mk_ternary();
    m.set_ternary_descriptor(marker.clone());
    kani::cover!(both_slots_used(), "k4_two_keys_stored");
    let got = m.get_ternary_descriptor();
    kani::cover!(unsafe { GET_CALLS } == 1, "k4_lookup_reached_store");
    cex_marker();
    assert!(addr(&got) == addr(&marker), "k4_ternary: get_ternary_descriptor() returns the descriptor registered by set_ternary_descriptor()");
    assert!(addr(&m.get_list_descriptor()) != addr(&marker), "k4_ternary: list lookup does not see a ternary registration");
    assert!(addr(&m.get_map_descriptor()) != addr(&marker), "k4_ternary: map lookup does not see a ternary registration");
    assert!(addr(&m.get_chain_descriptor()) != addr(&marker), "k4_ternary: chain lookup does not see a ternary registration");
}

#[kani::proof]
#[kani::unwind(4)]
#[kani::stub(crate::descriptor::DescriptorManager::new, stub_new)]
#[kani::stub(crate::descriptor::DescriptorManager::set, stub_set)]
#[kani::stub(crate::descriptor::DescriptorManager::get, stub_get)]
fn k4_list() {
    let mut m = DescriptorManager::new();
    let decoy = mk_map();
    m.set_map_descriptor(decoy.clone());
    let marker = mk_list();
    m.set_list_descriptor(marker.clone());
    kani::cover!(both_slots_used(), "k4_two_keys_stored");
    let got = m.get_list_descriptor();
    kani::cover!(unsafe { GET_CALLS } == 1, "k4_lookup_reached_store");
    cex_marker();
    assert!(addr(&got) == addr(&marker), "k4_list: get_list_descriptor() returns the descriptor registered by set_list_descriptor()");
    assert!(addr(&m.get_ternary_descriptor()) != addr(&marker), "k4_list: ternary lookup does not see a list registration");
    assert!(addr(&m.get_map_descriptor()) != addr(&marker), "k4_list: map lookup does not see a list registration");
    assert!(addr(&m.get_chain_descriptor()) != addr(&marker), "k4_list: chain lookup does not see a list registration");
}

#[kani::proof]
#[kani::unwind(4)]
#[kani::stub(crate::descriptor::DescriptorManager::new, stub_new)]
#[kani::stub(crate::descriptor::DescriptorManager::set, stub_set)]
#[kani::stub(crate::descriptor::DescriptorManager::get, stub_get)]
fn k4_map() {
    let mut m = DescriptorManager::new();
    let decoy = mk_chain();
    m.set_chain_descriptor(decoy.clone());
    let marker = mk_map();
    m.set_map_descriptor(marker.clone());
    kani::cover!(both_slots_used(), "k4_two_keys_stored");
    let got = m.get_map_descriptor();
    kani::cover!(unsafe { GET_CALLS } == 1, "k4_lookup_reached_store");
    cex_marker();
    assert!(addr(&got) == addr(&marker), "k4_map: get_map_descriptor() returns the descriptor registered by set_map_descriptor()");
    assert!(addr(&m.get_ternary_descriptor()) != addr(&marker), "k4_map: ternary lookup does not see a map registration");
    assert!(addr(&m.get_list_descriptor()) != addr(&marker), "k4_map: list lookup does not see a map registration");
    assert!(addr(&m.get_chain_descriptor()) != addr(&marker), "k4_map: chain lookup does not see a map registration");
}

#[kani::proof]
#[kani::unwind(4)]
#[kani::stub(crate::descriptor::DescriptorManager::new, stub_new)]
#[kani::stub(crate::descriptor::DescriptorManager::set, stub_set)]
#[kani::stub(crate::descriptor::DescriptorManager::get, stub_get)]
fn k4_chain() {
    let mut m = DescriptorManager::new();
    let decoy = mk_ternary();
    m.set_ternary_descriptor(decoy.clone());
    let marker = mk_chain();
    m.set_chain_descriptor(marker.clone());
    kani::cover!(both_slots_used(), "k4_two_keys_stored");
    let got = m.get_chain_descriptor();
    kani::cover!(unsafe { GET_CALLS } == 1, "k4_lookup_reached_store");
    cex_marker();
    assert!(addr(&got) == addr(&marker), "k4_chain: get_chain_descriptor() returns the descriptor registered by set_chain_descriptor()");
    assert!(addr(&m.get_ternary_descriptor()) != addr(&marker), "k4_chain: ternary lookup does not see a chain registration");
    assert!(addr(&m.get_list_descriptor()) != addr(&marker), "k4_chain: list lookup does not see a chain registration");
    assert!(addr(&m.get_map_descriptor()) != addr(&marker), "k4_chain: map lookup does not see a chain registration");
}
