// K2 (property C17): `Value::from(n)` denotes exactly n, for every n of every Rust integer type.
//
// Injected by /verif/kani/run_kani.py as a child module of `crate::value`.
//
// What is real:  `impl From<T> for Value` (macro impl_value_from_for_number) AND the real
//                `rust_decimal::Decimal::from_iN / from_uN / from_f32 / from_f64`, `Decimal::scale`,
//                `Decimal::mantissa` -- nothing is stubbed, all 2^bits inputs, default checks on.
// What is asserted: the result is `Value::Number(d)` with `d.scale() == 0` and
//                `d.mantissa() == n` (as i128; for u128 compared as u128 with mantissa >= 0).
//
// Input layout (keep in sync with the "layout" entries of HARNESSES in run_kani.py): a single `n: T`
// (bool: 1 byte; f32/f64: raw IEEE bits, little endian), then `_marker: u8` (see cex_marker).

use super::Value;

/// Drawn after the last kani::cover! and immediately before the assertions of a harness. Concrete
/// playback extracts the kani::any() values of the trace *up to* the property, and Kani drops a
/// playback test that is identical to the one printed just before it; this extra byte makes the
/// value list of every harness assertion differ from that of every cover, so the counterexample
/// of a failed assertion is always printed. (Layout: trailing `_marker: u8` in run_kani.py.)
fn cex_marker() {
    let m: u8 = kani::any();
    kani::assume(m == 0xA5);
}

macro_rules! k2_signed {
    ($name:ident, $t:ty) => {
        #[kani::proof]
        fn $name() {
            let n: $t = kani::any();
            kani::cover!(n == <$t>::MAX, "k2_input_max");
            kani::cover!(n == <$t>::MIN, "k2_input_min");
            let v = Value::from(n);
            match v {
                Value::Number(d) => {
                    kani::cover!(true, "k2_reached_number");
                    cex_marker();
                    assert!(d.scale() == 0, "k2: Value::from(integer) has scale 0");
                    assert!(
                        d.mantissa() == n as i128,
                        "k2: Value::from(n) denotes exactly n (mantissa == n)"
                    );
                }
                _ => assert!(false, "k2: Value::from(integer) is a Value::Number"),
            }
        }
    };
}

macro_rules! k2_unsigned {
    ($name:ident, $t:ty) => {
        #[kani::proof]
        fn $name() {
            let n: $t = kani::any();
            kani::cover!(n == <$t>::MAX, "k2_input_max");
            kani::cover!(n == 0, "k2_input_min");
            let v = Value::from(n);
            match v {
                Value::Number(d) => {
                    kani::cover!(true, "k2_reached_number");
                    cex_marker();
                    assert!(d.scale() == 0, "k2: Value::from(integer) has scale 0");
                    assert!(
                        d.mantissa() >= 0 && d.mantissa() as u128 == n as u128,
                        "k2: Value::from(n) denotes exactly n (mantissa == n)"
                    );
                }
                _ => assert!(false, "k2: Value::from(integer) is a Value::Number"),
            }
        }
    };
}

k2_signed!(k2_from_i8, i8);
k2_signed!(k2_from_i16, i16);
k2_signed!(k2_from_i32, i32);
k2_signed!(k2_from_i64, i64);
k2_signed!(k2_from_i128, i128);
k2_unsigned!(k2_from_u8, u8);
k2_unsigned!(k2_from_u16, u16);
k2_unsigned!(k2_from_u32, u32);
k2_unsigned!(k2_from_u64, u64);
k2_unsigned!(k2_from_u128, u128);

#[kani::proof]
fn k2_from_bool() {
    let b: bool = kani::any();
    let v = Value::from(b);
    kani::cover!(b, "k2_input_true");
    kani::cover!(!b, "k2_input_false");
    cex_marker();
    match v {
        Value::Bool(x) => assert!(x == b, "k2: Value::from(bool) round-trips"),
        _ => assert!(false, "k2: Value::from(bool) is a Value::Bool"),
    }
}

// Floats: only the non-finite inputs (NaN, +inf, -inf; all NaN payloads). A non-finite float is
// not the number 0, so the conversion must not yield Number(0).
// `#[kani::unwind(2)]`: the finite path of rust_decimal (base2_to_decimal loops) is infeasible under
// the assumption, so its unwinding assertions are unreachable and hold; without the bound symex
// unrolls those loops forever. Finite floats were probed (k2_from_f32_smallint) and dropped: no
// verdict in 120 s (see DROPPED in run_kani.py).
macro_rules! k2_float_nonfinite {
    ($name:ident, $t:ty, $bits:ty) => {
        #[kani::proof]
        #[kani::unwind(2)]
        fn $name() {
            let bits: $bits = kani::any();
            let x = <$t>::from_bits(bits);
            kani::assume(!x.is_finite());
            kani::cover!(x.is_nan(), "k2_input_nan");
            kani::cover!(x.is_infinite() && x > 0.0, "k2_input_pos_inf");
            kani::cover!(x.is_infinite() && x < 0.0, "k2_input_neg_inf");
            let v = Value::from(x);
            // (not inside the Number arm: a fixed crate may well return a non-Number here)
            kani::cover!(true, "k2_conversion_returned");
            match v {
                Value::Number(d) => {
                    cex_marker();
                    assert!(
                        !(d.mantissa() == 0),
                        "k2: Value::from(non-finite float) is not the number 0"
                    );
                }
                _ => {}
            }
        }
    };
}

k2_float_nonfinite!(k2_from_f32, f32, u32);
k2_float_nonfinite!(k2_from_f64, f64, u64);
