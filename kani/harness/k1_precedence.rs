// K1 (property C08): binding-power kernel of `InfixOpManager::get_precidence`.
//
// Injected by /verif/kani/run_kani.py as a child module of `crate::operator`
// (`#[cfg(kani)] #[path = ".../k1_precedence.rs"] mod vk_k1;` appended to a scratch copy of
// src/operator.rs), so that the private field `InfixOpManager.store` is visible.
//
// What is real:  `InfixOpManager::get_precidence` (compiled code, 32-bit arithmetic, default
//                overflow checks).
// What is stubbed: `InfixOpManager::get` (a `Mutex<HashMap<String,_>>` lookup that CBMC cannot
//                decide) returns, for the operator names "a" and "b", a config whose precedence and
//                associativity are SYMBOLIC; any other name is "not registered".
//                `InfixOpManager::new` is never called: the manager handle is forged (its `store`
//                reference is never dereferenced because `get` is stubbed). This avoids the
//                once_cell ICE of the Kani compiler.
//
// Parser gate being specified (src/parser.rs, parse_op): after `x a y`, looking at the next infix
// operator b, the parser recurses -- b takes y as its left operand, i.e. b binds tighter than a --
// iff `r_bp(a) < l_bp(b)`.
//
// Input layout (order of kani::any() calls; keep in sync with the "layout" entries of HARNESSES in run_kani.py):
//   p_a: i32, right_a: bool, p_b: i32, right_b: bool, _marker: u8 (see cex_marker)

use super::*;
use crate::define::Result;
use crate::error::Error;
use crate::value::Value;
use std::sync::Arc;

const P_MAX: i32 = 1_000_000_000;

static mut P_A: i32 = 0;
static mut P_B: i32 = 0;
static mut RIGHT_A: bool = false;
static mut RIGHT_B: bool = false;
static mut GET_CALLS: u32 = 0;

fn assoc(right: bool) -> InfixOpAssociativity {
    if right {
        InfixOpAssociativity::RIGHT
    } else {
        InfixOpAssociativity::LEFT
    }
}

fn cheap_handler() -> Arc<InfixOpFunc> {
    Arc::new(|_l: Value, r: Value| Ok(r))
}

/// Replacement for `InfixOpManager::get`; never touches `self.store`.
fn stub_get(_this: &InfixOpManager, op: &str) -> Result<InfixOpConfig> {
    unsafe {
        GET_CALLS += 1;
    }
    let b = op.as_bytes();
    if b.len() == 1 && b[0] == b'a' {
        return Ok(InfixOpConfig(
            unsafe { P_A },
            InfixOpType::CALC,
            assoc(unsafe { RIGHT_A }),
            cheap_handler(),
        ));
    }
    if b.len() == 1 && b[0] == b'b' {
        return Ok(InfixOpConfig(
            unsafe { P_B },
            InfixOpType::CALC,
            assoc(unsafe { RIGHT_B }),
            cheap_handler(),
        ));
    }
    Err(Error::InfixOpNotRegistered(String::new()))
}

/// A manager whose store pointer is never dereferenced (all accessors reached are stubbed).
fn forged_manager() -> InfixOpManager {
    InfixOpManager {
        store: unsafe { std::mem::transmute::<usize, &'static _>(8usize) },
    }
}

/// Drawn after the last kani::cover! and immediately before the assertions of a harness. Concrete
/// playback extracts the kani::any() values of the trace *up to* the property, and Kani drops a
/// playback test that is identical to the one printed just before it; this extra byte makes the
/// value list of every harness assertion differ from that of every cover, so the counterexample
/// of a failed assertion is always printed. (Layout: trailing `_marker: u8` in run_kani.py.)
fn cex_marker() {
    let m: u8 = kani::any();
    kani::assume(m == 0xA5);
}

struct Table {
    p_a: i32,
    right_a: bool,
    p_b: i32,
    right_b: bool,
}

/// Symbolic two-operator table; `bounded` restricts precedences to the documented 1..=10^9.
fn symbolic_table(bounded: bool) -> Table {
    let p_a: i32 = kani::any();
    let right_a: bool = kani::any();
    let p_b: i32 = kani::any();
    let right_b: bool = kani::any();
    if bounded {
        kani::assume(p_a >= 1 && p_a <= P_MAX);
        kani::assume(p_b >= 1 && p_b <= P_MAX);
    }
    unsafe {
        P_A = p_a;
        RIGHT_A = right_a;
        P_B = p_b;
        RIGHT_B = right_b;
    }
    Table {
        p_a,
        right_a,
        p_b,
        right_b,
    }
}

/// Runs the REAL get_precidence for "a" and "b": returns (l_a, r_a, l_b, r_b).
fn binding_powers() -> (i32, i32, i32, i32) {
    let m = forged_manager();
    let (la, ra) = m.get_precidence("a");
    let (lb, rb) = m.get_precidence("b");
    // the stub was really consulted (guards against a refactoring that bypasses `get`)
    assert!(unsafe { GET_CALLS } == 2, "k1: get_precidence consulted the stubbed registry exactly twice");
    std::mem::forget(m);
    (la, ra, lb, rb)
}

/// p_b > p_a  ==>  b binds tighter: the parser must recurse, i.e. r_bp(a) < l_bp(b).
#[kani::proof]
#[kani::stub(crate::operator::InfixOpManager::get, stub_get)]
fn k1_higher_binds_tighter() {
    let t = symbolic_table(true);
    kani::assume(t.p_b > t.p_a);
    let (la, ra, lb, _rb) = binding_powers();
    kani::cover!(la > 0 && lb > 0 && unsafe { GET_CALLS } == 2, "k1_reached_higher");
    kani::cover!(t.p_b == t.p_a + 1 && !t.right_a, "k1_adjacent_left");
    kani::cover!(t.p_b == t.p_a + 1 && t.right_a, "k1_adjacent_right");
    cex_marker();
    assert!(ra < lb, "k1_higher_binds_tighter: p_b > p_a but the parser does not let b take the operand (r_bp(a) >= l_bp(b))");
}

/// p_b < p_a  ==>  b binds looser: the parser must NOT recurse, i.e. !(r_bp(a) < l_bp(b)).
#[kani::proof]
#[kani::stub(crate::operator::InfixOpManager::get, stub_get)]
fn k1_lower_binds_looser() {
    let t = symbolic_table(true);
    kani::assume(t.p_b < t.p_a);
    let (la, ra, lb, _rb) = binding_powers();
    kani::cover!(la > 0 && lb > 0 && unsafe { GET_CALLS } == 2, "k1_reached_lower");
    kani::cover!(t.p_a == t.p_b + 1 && t.right_a, "k1_adjacent_below_right");
    kani::cover!(t.p_a == t.p_b + 1 && !t.right_a, "k1_adjacent_below_left");
    cex_marker();
    assert!(!(ra < lb), "k1_lower_binds_looser: p_b < p_a but the parser lets b take the operand (r_bp(a) < l_bp(b))");
}

/// p_a == p_b, both LEFT  ==>  a's node is built first: !(r_bp(a) < l_bp(b)).
#[kani::proof]
#[kani::stub(crate::operator::InfixOpManager::get, stub_get)]
fn k1_equal_left() {
    let t = symbolic_table(true);
    kani::assume(t.p_a == t.p_b && !t.right_a && !t.right_b);
    let (la, ra, lb, _rb) = binding_powers();
    kani::cover!(la > 0 && lb > 0 && unsafe { GET_CALLS } == 2, "k1_reached_equal_left");
    cex_marker();
    assert!(!(ra < lb), "k1_equal_left: equal precedence, LEFT associative, but the parser groups to the right");
}

/// p_a == p_b, both RIGHT  ==>  b takes the operand: r_bp(a) < l_bp(b).
#[kani::proof]
#[kani::stub(crate::operator::InfixOpManager::get, stub_get)]
fn k1_equal_right() {
    let t = symbolic_table(true);
    kani::assume(t.p_a == t.p_b && t.right_a && t.right_b);
    let (la, ra, lb, _rb) = binding_powers();
    kani::cover!(la > 0 && lb > 0 && unsafe { GET_CALLS } == 2, "k1_reached_equal_right");
    cex_marker();
    assert!(ra < lb, "k1_equal_right: equal precedence, RIGHT associative, but the parser groups to the left");
}

/// 1 <= p <= 10^9: get_precidence itself raises no arithmetic overflow / panic (default checks).
/// The remaining assertions are deliberately independent of HOW binding powers are encoded
/// (p, p+-1 in the original tree; 2p, 2p+-1 would be just as good): a registered operator gets
/// positive binding powers on the left, and an unregistered name ranks below every registered
/// operator (the parser stops on `l_bp < exec_prec`). No assertion about the cross-operator gate
/// here -- that is what the four rule harnesses are for.
#[kani::proof]
#[kani::stub(crate::operator::InfixOpManager::get, stub_get)]
fn k1_no_overflow() {
    let t = symbolic_table(true);
    let (la, _ra, lb, _rb) = binding_powers();
    kani::cover!(t.p_a == P_MAX && !t.right_a, "k1_max_left");
    kani::cover!(t.p_a == 1 && t.right_a, "k1_min_right");
    kani::cover!(t.p_b == P_MAX && t.right_b, "k1_max_right");
    cex_marker();
    assert!(la >= 1 && lb >= 1, "k1_no_overflow: a registered operator has a positive left binding power");
    let m = forged_manager();
    let (lz, rz) = m.get_precidence("z");
    std::mem::forget(m);
    assert!(lz < la && lz < lb && rz < la && rz < lb, "k1_no_overflow: an unregistered operator ranks below every registered one");
}
