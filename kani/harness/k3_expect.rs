// K3 (property C05): `Tokenizer::expect(op)` accepts only the token whose text is `op`.
//
// Injected by /verif/kani/run_kani.py as a child module of `crate::tokenizer` (private fields of
// `Tokenizer` are visible here).
//
// What is real:  `Tokenizer::new`, `Tokenizer::expect` (incl. `DelimTokenType::string`, the
//                `String == &str` / `&str == &str` comparisons and the error construction).
// What is stubbed: `Tokenizer::next` -> advances to `Token::EOF` without scanning (the scanner is
//                not the subject; it drags the operator registries and rust_decimal into symex).
//
// Input layout (order of kani::any() calls; keep in sync with the "layout" entries of HARNESSES in run_kani.py):
//   tok_kind: u8   0 Delim, 1 Operator, 2 Comma, 3 Semicolon, 4 Reference, 5 EOF
//   delim_sel: u8  0 "(", 1 ")", 2 "[", 3 "]", 4 "{", 5 "}", 6 Unknown("??")   (used iff Delim)
//   op_sel: u8     0 "+", 1 ":", 2 "?", 3 "=", 4 ",", 5 "("                  (used iff Operator)
//   expect_sel: u8 0 ",", 1 ":", 2 "]", 3 "}", 4 "(", 5 ")"
//   _marker: u8    (see cex_marker)

use super::*;
use crate::define::Result;
use crate::token::{DelimTokenType, Span, Token};

static mut NEXT_CALLS: u32 = 0;

impl<'a> Tokenizer<'a> {
    /// Replacement for `Tokenizer::next`: same bookkeeping, no scanning.
    fn vk_stub_next(&mut self) -> Result<Token<'a>> {
        unsafe {
            NEXT_CALLS += 1;
        }
        self.prev_token = self.cur_token;
        self.cur_token = Token::EOF;
        Ok(Token::EOF)
    }
}

const INPUT: &str = "x , y";

fn delim_of(sel: u8) -> DelimTokenType {
    match sel {
        0 => DelimTokenType::OpenParen,
        1 => DelimTokenType::CloseParen,
        2 => DelimTokenType::OpenBracket,
        3 => DelimTokenType::CloseBracket,
        4 => DelimTokenType::OpenBrace,
        5 => DelimTokenType::CloseBrace,
        _ => DelimTokenType::Unknown,
    }
}

/// Text of the delimiter as ONE byte (0 for Unknown, whose text "??" equals no expected op).
fn delim_byte(sel: u8) -> u8 {
    match sel {
        0 => b'(',
        1 => b')',
        2 => b'[',
        3 => b']',
        4 => b'{',
        5 => b'}',
        _ => 0,
    }
}

fn op_text(sel: u8) -> &'static str {
    match sel {
        0 => "+",
        1 => ":",
        2 => "?",
        3 => "=",
        4 => ",",
        _ => "(",
    }
}

fn expected_text(sel: u8) -> &'static str {
    match sel {
        0 => ",",
        1 => ":",
        2 => "]",
        3 => "}",
        4 => "(",
        _ => ")",
    }
}

/// Drawn after the last kani::cover! and immediately before the assertions of a harness. Concrete
/// playback extracts the kani::any() values of the trace *up to* the property, and Kani drops a
/// playback test that is identical to the one printed just before it; this extra byte makes the
/// value list of every harness assertion differ from that of every cover, so the counterexample
/// of a failed assertion is always printed. (Layout: trailing `_marker: u8` in run_kani.py.)
fn cex_marker() {
    let m: u8 = kani::any();
    kani::assume(m == 0xA5);
}

struct Case {
    tok_kind: u8,
    delim_sel: u8,
    op_sel: u8,
    expect_sel: u8,
}

fn symbolic_case() -> Case {
    let tok_kind: u8 = kani::any();
    let delim_sel: u8 = kani::any();
    let op_sel: u8 = kani::any();
    let expect_sel: u8 = kani::any();
    kani::assume(tok_kind <= 5);
    kani::assume(delim_sel <= 6);
    kani::assume(op_sel <= 5);
    kani::assume(expect_sel <= 5);
    Case {
        tok_kind,
        delim_sel,
        op_sel,
        expect_sel,
    }
}

fn token_of(c: &Case) -> Token<'static> {
    match c.tok_kind {
        0 => Token::Delim(delim_of(c.delim_sel), Span(0, 1)),
        1 => Token::Operator(op_text(c.op_sel), Span(0, 1)),
        2 => Token::Comma(",", Span(0, 1)),
        3 => Token::Semicolon(";", Span(0, 1)),
        4 => Token::Reference("x", Span(0, 1)),
        _ => Token::EOF,
    }
}

/// Independent oracle (byte comparison, no String): is the token's text exactly the expected op?
/// All candidate texts are one byte long except Unknown's "??", EOF and non-separator kinds.
fn text_matches(c: &Case) -> bool {
    let want = expected_text(c.expect_sel).as_bytes()[0];
    match c.tok_kind {
        0 => delim_byte(c.delim_sel) == want,
        1 => op_text(c.op_sel).as_bytes()[0] == want,
        2 => b',' == want,
        _ => false, // `;`, a name, EOF are never one of the expected separators / delimiters
    }
}

fn run_expect(c: &Case) -> bool {
    let mut t = Tokenizer::new(INPUT);
    t.cur_token = token_of(c);
    let r = t.expect(expected_text(c.expect_sel));
    assert!(unsafe { NEXT_CALLS } == 1, "k3: expect() advances exactly once");
    assert!(t.cur_token.is_eof(), "k3: expect() advanced through the stubbed next()");
    r.is_ok()
}

/// expect(op) == Ok(())  ==>  the current token's text is exactly `op`.
#[kani::proof]
#[kani::unwind(4)]
#[kani::stub(crate::tokenizer::Tokenizer::next, Tokenizer::vk_stub_next)]
fn k3_expect_rejects_mismatch() {
    let c = symbolic_case();
    let ok = run_expect(&c);
    kani::cover!(ok && text_matches(&c), "k3_accepts_a_match");
    kani::cover!(!ok, "k3_rejects_something");
    kani::cover!(c.tok_kind == 0 && !text_matches(&c), "k3_mismatched_delim_reachable");
    kani::cover!(c.tok_kind == 1 && !text_matches(&c), "k3_mismatched_operator_reachable");
    kani::cover!(c.tok_kind == 2 && !text_matches(&c), "k3_mismatched_comma_reachable");
    cex_marker();
    assert!(
        !ok || text_matches(&c),
        "k3_expect_rejects_mismatch: expect(op) returned Ok(()) although the token is not `op`"
    );
}

/// The token's text is exactly `op`  ==>  expect(op) == Ok(()).  (Guards against "fixing" expect()
/// by rejecting everything.)
#[kani::proof]
#[kani::unwind(4)]
#[kani::stub(crate::tokenizer::Tokenizer::next, Tokenizer::vk_stub_next)]
fn k3_expect_accepts_match() {
    let c = symbolic_case();
    kani::assume(text_matches(&c));
    let ok = run_expect(&c);
    kani::cover!(c.tok_kind == 0, "k3_match_delim");
    kani::cover!(c.tok_kind == 1, "k3_match_operator");
    kani::cover!(c.tok_kind == 2, "k3_match_comma");
    cex_marker();
    assert!(ok, "k3_expect_accepts_match: expect(op) rejected the token whose text is `op`");
}
