#!/usr/bin/env python3
"""E2 -- Kani kernels runner (python3, stdlib only).

  python3 /verif/kani/run_kani.py --group <C05|C08|C17|C18|all> [--tier quick|thorough]
                                  [--repo /repo] [--out result.json] [--keep]

What it does
  1. rsync <repo> (without target/, .git/) into ${VERIF_SCRATCH:-/var/tmp}/vk-<pid>/src-<unit>.
     <repo> itself is never written to.
  2. add-only injection: appends to the scratch src/<mod>.rs one line
         #[cfg(kani)] #[path = "<this dir>/harness/<file>.rs"] mod vk_<k>;
     (child module => sees private items). Missing module file or a compile error
     => verdict BUILD_ERROR for the affected harnesses, never a pass.
  3. pass 1: ONE `cargo kani` invocation per unit with all harnesses of the unit,
         -j <=8 --output-format terse --output-into-files --harness-timeout <T>s
     under `ulimit -v` (12 GB) and an outer `timeout`.  Measured on this box: cold build of the
     crate under Kani 40-47 s; a warm single-harness invocation still recompiles the crate (the
     harness filter is a compiler argument) = 7 s per harness and cargo's build lock serialises
     them, whereas one invocation with 5 harnesses and -j 5 takes 9.3 s in total.  Hence the
     single invocation.  For `--group all` the four groups are first built together (one
     compile); if that build fails they are re-run one group at a time so that a harness file
     broken by a repo edit only takes its own group down.
     Each harness gets its own log file (<scratch>/logs/<harness>.log, kept with --keep).
  4. pass 2 (only harnesses whose pass-1 verdict is FAILED and that have inputs): re-run each one alone with
         -Z concrete-playback --concrete-playback=print
     (incompatible with -j; costs ~22 s of CBMC trace generation each, so they run in parallel),
     and decode the `concrete_vals` byte vectors of the generated playback test with the
     per-harness input layout declared in HARNESSES below.
  5. JSON to --out and stdout.  Exit 0 if the runner worked (whatever the verdicts), 2 otherwise.

Verdicts: SUCCESS | FAILED | UNWIND | TIMEOUT | ERROR | BUILD_ERROR
  SUCCESS      VERIFICATION:- SUCCESSFUL, no failed check, every kani::cover! SATISFIED
  FAILED       at least one failed check that is not an unwinding assertion
  UNWIND       only unwinding assertions failed (bound too small: inconclusive, not a pass)
  TIMEOUT      CBMC exceeded the per-harness timeout (quick 300 s, thorough 1800 s)
  ERROR        OOM, CBMC crash / `Status: ERROR`, Kani compiler ICE, missing result, or a
               "successful" run in which a cover (vacuity witness) was not SATISFIED
  BUILD_ERROR  module file to inject into is missing, or the crate + harness does not compile
               (e.g. an item the harness names was renamed in the repo)

Environment knobs (testing): VERIF_SCRATCH, VERIF_KANI_TIMEOUT_S, VERIF_KANI_VMEM_KB,
VERIF_KANI_JOBS, VERIF_KANI_HARNESS_DIR.
"""

import argparse
import concurrent.futures
import json
import math
import os
import re
import shutil
import signal
import struct
import subprocess
import sys
import time

HERE = os.path.dirname(os.path.abspath(__file__))
HARNESS_DIR = os.environ.get("VERIF_KANI_HARNESS_DIR") or os.path.join(HERE, "harness")

MAX_JOBS = int(os.environ.get("VERIF_KANI_JOBS", "8"))
VMEM_KB = int(os.environ.get("VERIF_KANI_VMEM_KB", str(12 * 1024 * 1024)))
TIER_TIMEOUT_S = {"quick": 300, "thorough": 1800}
BUILD_ALLOWANCE_S = 900  # outer cap for the (cold) Kani build of the crate

# ---------------------------------------------------------------------------------------------
# Declarative tables
# ---------------------------------------------------------------------------------------------

ASSOC = {0: "LEFT", 1: "RIGHT"}
TOK_KIND = {0: "Delim", 1: "Operator", 2: "Comma", 3: "Semicolon", 4: "Reference", 5: "EOF"}
DELIM_SEL = {0: "(", 1: ")", 2: "[", 3: "]", 4: "{", 5: "}", 6: "Unknown(??)"}
OP_SEL = {0: "+", 1: ":", 2: "?", 3: "=", 4: ",", 5: "("}
EXPECT_SEL = {0: ",", 1: ":", 2: "]", 3: "}", 4: "(", 5: ")"}

# group -> injection: harness file, crate module whose source file gets the `mod` line,
# name of the injected child module
GROUPS = {
    "C08": {"file": "k1_precedence.rs", "module": "operator", "modname": "vk_k1"},
    "C17": {"file": "k2_value_from.rs", "module": "value", "modname": "vk_k2"},
    "C05": {"file": "k3_expect.rs", "module": "tokenizer", "modname": "vk_k3"},
    "C18": {"file": "k4_descriptor.rs", "module": "descriptor", "modname": "vk_k4"},
}
GROUP_ORDER = ["C05", "C08", "C17", "C18"]

# Input layout = the kani::any() calls of the harness, in program order: (name, type[, enum]).
# Types: bool i8 i16 i32 i64 i128 u8 u16 u32 u64 u128 f32 f64 (floats are drawn as raw bits).
K1_LAYOUT = [("p_a", "i32"), ("assoc_a", "bool", ASSOC), ("p_b", "i32"), ("assoc_b", "bool", ASSOC)]
K1_STUBS = ["InfixOpManager::get -> association list {\"a\": (p_a, assoc_a), \"b\": (p_b, assoc_b)} with symbolic "
            "precedence/associativity; InfixOpManager::new never called (forged, never dereferenced handle)"]
K1_ASSUME = ["1 <= p_a <= 10^9", "1 <= p_b <= 10^9"]
K3_LAYOUT = [("tok_kind", "u8", TOK_KIND), ("delim_sel", "u8", DELIM_SEL), ("op_sel", "u8", OP_SEL),
             ("expect_sel", "u8", EXPECT_SEL)]
K3_STUBS = ["Tokenizer::next -> prev_token = cur_token; cur_token = EOF; Ok(EOF) (no scanning)"]
K3_ASSUME = ["cur_token in {Delim(any of 7 DelimTokenType), Operator(one of + : ? = , ( ), Comma(\",\"), "
             "Semicolon(\";\"), Reference(\"x\"), EOF}", "op in {, : ] } ( )}", "input text \"x , y\" (unused by expect)"]
K4_STUBS = ["DescriptorManager::new -> forged, never dereferenced handle (avoids once_cell ICE)",
            "DescriptorManager::set -> insert-or-replace into a two-slot association store keyed by the derived "
            "DescriptorKey ==", "DescriptorManager::get -> lookup in that store, cloned"]
K4_ASSUME = ["concrete one-byte names \"x\" (registered) and \"y\" (other)",
             "a decoy descriptor of a different kind is registered first under the same name"]


def _k2(t, bits=None):
    return {
        "property": "C17", "layout": [("n", t)], "unwind": None, "stubs": [],
        "assumptions": [],
        "expected": "for every n: %s, Value::from(n) is Value::Number(d) with d.scale()==0 and d.mantissa()==n "
                    "(real rust_decimal from_%s, nothing stubbed)" % (t, t),
    }


def _k4(kind, named):
    others = "unary/binary/postfix/function/reference" if named else "ternary/list/map/chain"
    return {
        "property": "C18", "layout": [], "unwind": 4, "stubs": K4_STUBS, "assumptions": K4_ASSUME,
        "expected": "after set_%s_descriptor(%smarker), get_%s_descriptor(%s) returns that marker (same Arc), "
                    "%sand no other %s lookup returns it" % (
                        kind, "\"x\", " if named else "", kind, "\"x\"" if named else "",
                        "get_%s_descriptor(\"y\") does not, " % kind if named else "", others),
    }


HARNESSES = {
    # ---- K1 / C08 ----
    "k1_higher_binds_tighter": {
        "property": "C08", "layout": K1_LAYOUT, "unwind": None, "stubs": K1_STUBS,
        "assumptions": K1_ASSUME + ["p_b > p_a"],
        "expected": "if p_b > p_a then r_bp(a) < l_bp(b) (real get_precidence): the parser lets the higher-precedence "
                    "operator b take the operand",
    },
    "k1_lower_binds_looser": {
        "property": "C08", "layout": K1_LAYOUT, "unwind": None, "stubs": K1_STUBS,
        "assumptions": K1_ASSUME + ["p_b < p_a"],
        "expected": "if p_b < p_a then !(r_bp(a) < l_bp(b)): the parser does not let the lower-precedence operator b "
                    "take the operand",
    },
    "k1_equal_left": {
        "property": "C08", "layout": K1_LAYOUT, "unwind": None, "stubs": K1_STUBS,
        "assumptions": K1_ASSUME + ["p_a == p_b", "assoc_a == assoc_b == LEFT"],
        "expected": "equal precedence, LEFT: !(r_bp(a) < l_bp(b)) (groups to the left)",
    },
    "k1_equal_right": {
        "property": "C08", "layout": K1_LAYOUT, "unwind": None, "stubs": K1_STUBS,
        "assumptions": K1_ASSUME + ["p_a == p_b", "assoc_a == assoc_b == RIGHT"],
        "expected": "equal precedence, RIGHT: r_bp(a) < l_bp(b) (groups to the right)",
    },
    "k1_no_overflow": {
        "property": "C08", "layout": K1_LAYOUT, "unwind": None, "stubs": K1_STUBS,
        "assumptions": K1_ASSUME,
        "expected": "for 1 <= p <= 10^9 get_precidence raises no arithmetic overflow/panic (default checks), a registered "
                    "operator gets l_bp >= 1, and an unregistered name's binding powers rank below every registered "
                    "operator's l_bp (independent of how binding powers are encoded)",
    },
    # ---- K2 / C17 ----
    "k2_from_i8": _k2("i8"), "k2_from_i16": _k2("i16"), "k2_from_i32": _k2("i32"),
    "k2_from_i64": _k2("i64"), "k2_from_i128": _k2("i128"),
    "k2_from_u8": _k2("u8"), "k2_from_u16": _k2("u16"), "k2_from_u32": _k2("u32"),
    "k2_from_u64": _k2("u64"), "k2_from_u128": _k2("u128"),
    "k2_from_bool": {
        "property": "C17", "layout": [("b", "bool")], "unwind": None, "stubs": [], "assumptions": [],
        "expected": "Value::from(b) is Value::Bool(b)",
    },
    "k2_from_f32": {
        "property": "C17", "layout": [("x", "f32")], "unwind": 2, "stubs": [],
        "assumptions": ["x is NaN (any payload), +inf or -inf"],
        "expected": "Value::from(non-finite f32) is not Value::Number(0) (real rust_decimal from_f32)",
    },
    "k2_from_f64": {
        "property": "C17", "layout": [("x", "f64")], "unwind": 2, "stubs": [],
        "assumptions": ["x is NaN (any payload), +inf or -inf"],
        "expected": "Value::from(non-finite f64) is not Value::Number(0) (real rust_decimal from_f64)",
    },
    # ---- K3 / C05 ----
    "k3_expect_rejects_mismatch": {
        "property": "C05", "layout": K3_LAYOUT, "unwind": 4, "stubs": K3_STUBS, "assumptions": K3_ASSUME,
        "expected": "Tokenizer::expect(op) == Ok(()) only if the current token's text is exactly op",
    },
    "k3_expect_accepts_match": {
        "property": "C05", "layout": K3_LAYOUT, "unwind": 4, "stubs": K3_STUBS,
        "assumptions": K3_ASSUME + ["the current token's text is exactly op"],
        "expected": "if the current token's text is exactly op then Tokenizer::expect(op) == Ok(())",
    },
    # ---- K4 / C18 ----
    "k4_unary": _k4("unary", True), "k4_binary": _k4("binary", True), "k4_postfix": _k4("postfix", True),
    "k4_function": _k4("function", True), "k4_reference": _k4("reference", True),
    "k4_ternary": _k4("ternary", False), "k4_list": _k4("list", False), "k4_map": _k4("map", False),
    "k4_chain": _k4("chain", False),
}

# Harnesses that were written, probed and removed from the default set.
DROPPED = [
    {"name": "k2_from_f32_smallint", "property": "C17",
     "reason": "Value::from(k as f32) for integral |k| < 2^24 denotes k: no verdict in 120 s "
               "(rust_decimal base2_to_decimal: up to ~150 iterations of 96-bit multiply/shift per input); "
               "finite floats are left to engine E1. k2_from_f32/k2_from_f64 cover exactly the non-finite inputs."},
    {"name": "k4_<kind> with symbolic name bytes", "property": "C18",
     "reason": "with symbolic one-byte names every store key comparison forks: k4_unary needed 148-173 s and the "
               "other named kinds > 120 s; the delivered K4 harnesses use the concrete names \"x\"/\"y\" (<= 9 s)."},
]


def harnesses_of(group):
    return [h for h, d in HARNESSES.items() if d["property"] == group]


def full_name(h):
    g = GROUPS[HARNESSES[h]["property"]]
    return "%s::%s::%s" % (g["module"], g["modname"], h)


# ---------------------------------------------------------------------------------------------
# Counterexample decoding
# ---------------------------------------------------------------------------------------------

MARKER = ("_marker", "u8")  # cex_marker() in the harness files: drawn right before the assertions

WIDTH = {"bool": 1, "i8": 1, "u8": 1, "i16": 2, "u16": 2, "i32": 4, "u32": 4, "i64": 8, "u64": 8,
         "i128": 16, "u128": 16, "f32": 4, "f64": 8}


def decode_value(ty, raw):
    """raw: list of byte values, little endian, as printed in the playback test."""
    b = bytes(raw)
    if ty == "bool":
        return b[0] != 0
    if ty in ("f32", "f64"):
        v = struct.unpack("<f" if ty == "f32" else "<d", b)[0]
        return repr(v)
    return str(int.from_bytes(b, "little", signed=ty.startswith("i")))


def decode_cex(layout, vecs):
    out, notes = {}, []
    for i, vec in enumerate(vecs):
        if i >= len(layout):
            out["extra_%d" % i] = vec
            notes.append("more concrete values than declared inputs")
            continue
        ent = layout[i]
        name, ty = ent[0], ent[1]
        if name == MARKER[0]:
            if vec != [0xA5]:
                notes.append("marker byte is %r, expected [165]" % (vec,))
            continue
        if len(vec) != WIDTH[ty]:
            out[name + "_raw"] = vec
            notes.append("%s: %d bytes, layout declares %s" % (name, len(vec), ty))
            continue
        val = decode_value(ty, vec)
        if len(ent) > 2:
            key = int(val)
            out[name] = ent[2].get(key, "<%d>" % key)
        else:
            out[name] = val
            if ty in ("f32", "f64"):
                out[name + "_bits"] = "0x%0*x" % (WIDTH[ty] * 2, int.from_bytes(bytes(vec), "little"))
    n_inputs = len([e for e in layout if e[0] != MARKER[0]])
    if len(vecs) < n_inputs:
        notes.append("only %d of %d declared inputs were drawn on this trace" % (len(vecs), n_inputs))
    if notes:
        out["_decode_notes"] = notes
    return out


def describe_k3(cex):
    """Human-readable token / op for a K3 counterexample."""
    try:
        kind = cex.get("tok_kind")
        if kind == "Delim":
            tok = "Delim(%s)" % cex.get("delim_sel")
        elif kind == "Operator":
            tok = "Operator(\"%s\")" % cex.get("op_sel")
        elif kind == "Comma":
            tok = "Comma(\",\")"
        elif kind == "Semicolon":
            tok = "Semicolon(\";\")"
        elif kind == "Reference":
            tok = "Reference(\"x\")"
        else:
            tok = str(kind)
        return {"cur_token": tok, "op": cex.get("expect_sel")}
    except Exception:  # pragma: no cover
        return {}


PLAYBACK_BLOCK = re.compile(
    r"Concrete playback unit test for `(?P<h>[^`]+)`:\s*```(?P<body>.*?)```", re.S)
CHECK_FOR = re.compile(r"/// Check for `(?P<cls>[^`]+)`: (?P<desc>.*)")
VEC_LINE = re.compile(r"^\s*vec!\[(?P<bytes>[0-9,\s]*)\],?\s*$", re.M)


def parse_playback(text):
    """-> list of {"class", "desc", "vals": [[bytes]..]} in output order."""
    res = []
    for m in PLAYBACK_BLOCK.finditer(text):
        body = m.group("body")
        c = CHECK_FOR.search(body)
        cls = c.group("cls") if c else "?"
        desc = c.group("desc").strip().strip('"') if c else ""
        inner = body.split("let concrete_vals", 1)
        vals = []
        if len(inner) == 2:
            seg = inner[1].split("];", 1)[0]
            for v in VEC_LINE.finditer(seg):
                bs = [int(x) for x in v.group("bytes").replace(" ", "").split(",") if x != ""]
                vals.append(bs)
        res.append({"class": cls, "desc": desc, "vals": vals})
    return res


# ---------------------------------------------------------------------------------------------
# Log parsing
# ---------------------------------------------------------------------------------------------

CHECK_BLOCK = re.compile(
    r"^Check \d+: (?P<id>.+?)\s*\n\s*- Status: (?P<status>\w+)\s*\n\s*- Description: (?P<desc>.*)\n"
    r"\s*- Location: (?P<loc>.*)$", re.M)
THREAD_PREFIX = re.compile(r"^Thread \d+: ?", re.M)
ICE_MARKERS = ("internal compiler error", "Kani unexpectedly panicked", "thread 'rustc' panicked",
               "error: the compiler unexpectedly panicked")
OOM_MARKERS = ("bad_alloc", "Out of memory", "out of memory", "Cannot allocate memory", "memory exhausted",
               "memory allocation of")


def clean_desc(d):
    d = d.strip()
    while len(d) >= 2 and d[0] == '"' and d[-1] == '"':
        d = d[1:-1]
    return d


def clean_loc(loc):
    loc = loc.strip()
    # "../../../verif/kani/harness/x.rs:1:2 in function f" -> absolute-looking path
    loc = re.sub(r"^(\.\./)+", "/", loc)
    return loc


def parse_harness_log(text, timeout_s):
    """Parse one per-harness log (Kani 'regular' output). Returns a partial harness record."""
    text = THREAD_PREFIX.sub("", text)
    rec = {"covers": {}, "failed_checks": [], "unwind_failures": [], "time_s": None, "notes": []}
    n_checks = 0
    undetermined = 0
    for m in CHECK_BLOCK.finditer(text):
        n_checks += 1
        cid, status = m.group("id"), m.group("status")
        desc, loc = clean_desc(m.group("desc")), clean_loc(m.group("loc"))
        if ".cover." in cid or status in ("SATISFIED", "UNSATISFIABLE"):
            rec["covers"][desc] = status
            continue
        if status == "FAILURE":
            if "unwinding assertion" in desc or ".unwind." in cid:
                rec["unwind_failures"].append({"desc": desc, "loc": loc})
            else:
                rec["failed_checks"].append({"desc": desc, "loc": loc, "check": cid})
        elif status == "UNDETERMINED":
            undetermined += 1
        elif status == "ERROR":
            rec["notes"].append("check %s has Status: ERROR" % cid)
    rec["n_checks"] = n_checks
    if undetermined:
        rec["undetermined_checks"] = undetermined
    mt = re.search(r"^Verification Time: ([0-9.]+)s", text, re.M)
    if mt:
        rec["time_s"] = round(float(mt.group(1)), 3)
    rec["stubs_applied"] = [s.strip().replace(" :: ", "::")
                            for s in re.findall(r"^\s*- Stub: (.*)$", text, re.M)]

    successful = re.search(r"^VERIFICATION:- SUCCESSFUL", text, re.M) is not None
    failed = re.search(r"^VERIFICATION:- FAILED", text, re.M) is not None
    timed_out = "CBMC timed out" in text
    oom = any(k in text for k in OOM_MARKERS)
    ice = any(k in text for k in ICE_MARKERS)

    if timed_out:
        rec["verdict"] = "TIMEOUT"
        rec["time_s"] = float(timeout_s)
        rec["error"] = "CBMC exceeded the per-harness timeout of %d s" % timeout_s
    elif ice:
        rec["verdict"] = "ERROR"
        rec["error"] = "Kani compiler / driver panic: " + tail(text, 12)
    elif oom:
        rec["verdict"] = "ERROR"
        rec["error"] = "out of memory (ulimit -v %d kB): %s" % (VMEM_KB, tail(text, 6))
    elif rec["notes"]:
        rec["verdict"] = "ERROR"
        rec["error"] = "; ".join(rec["notes"])
    elif failed and rec["failed_checks"]:
        rec["verdict"] = "FAILED"
    elif failed and rec["unwind_failures"]:
        rec["verdict"] = "UNWIND"
        rec["error"] = "unwinding assertion(s) failed: loop bound too small, result inconclusive"
    elif failed:
        # FAILED without any parsable failing check: CBMC crashed / was killed (e.g. ulimit)
        rec["verdict"] = "ERROR"
        ms = re.search(r"CBMC failed with status (\d+)", text)
        if ms and ms.group(1) == "6":
            rec["error"] = ("CBMC aborted (status 6 = SIGABRT: std::bad_alloc, i.e. out of memory under "
                            "ulimit -v %d kB)" % VMEM_KB)
        elif ms:
            rec["error"] = "CBMC failed with status %s (crashed or was killed)" % ms.group(1)
        else:
            rec["error"] = "VERIFICATION:- FAILED without a failing check (CBMC crashed or was killed): " + tail(text, 8)
    elif successful:
        bad = {k: v for k, v in rec["covers"].items() if v != "SATISFIED"}
        if n_checks == 0:
            rec["verdict"] = "ERROR"
            rec["error"] = "SUCCESSFUL but no check was parsed from the log (log format changed?)"
        elif not rec["covers"]:
            rec["verdict"] = "ERROR"
            rec["error"] = "SUCCESSFUL but the harness reports no kani::cover! (vacuity witness missing)"
        elif bad:
            rec["verdict"] = "ERROR"
            rec["error"] = "vacuity: cover(s) not SATISFIED: %s" % json.dumps(bad, sort_keys=True)
        else:
            rec["verdict"] = "SUCCESS"
    else:
        rec["verdict"] = "ERROR"
        rec["error"] = "no VERIFICATION verdict in the log: " + tail(text, 8)
    del rec["notes"]
    return rec


def tail(text, n):
    lines = [l for l in text.strip().splitlines() if l.strip()]
    return "\n".join(lines[-n:])


def compiler_message_tail(text, n=40):
    """The part of a cargo-kani log that explains a failed build."""
    lines = text.splitlines()
    first = None
    for i, l in enumerate(lines):
        if re.match(r"^\s*error(\[E\d+\])?[:\s]", l) or any(k in l for k in ICE_MARKERS):
            first = i
            break
    if first is None:
        return tail(text, n)
    seg = [l for l in lines[first:] if l.strip()]
    if len(seg) > n:
        seg = seg[: n // 2] + ["..."] + seg[-(n // 2):]
    return "\n".join(seg)


# ---------------------------------------------------------------------------------------------
# Running
# ---------------------------------------------------------------------------------------------

CHILDREN = set()


def run_cmd(argv, cwd, log_path, outer_timeout_s):
    """Run argv under `ulimit -v` + coreutils `timeout`, own process group; output -> log_path.
    Returns (exit_code, wall_s)."""
    inner = "ulimit -v %d; exec timeout --kill-after=20 %d \"$@\"" % (VMEM_KB, int(outer_timeout_s))
    env = dict(os.environ)
    env["CARGO_NET_OFFLINE"] = "true"
    env.setdefault("CARGO_TERM_COLOR", "never")
    t0 = time.time()
    with open(log_path, "wb") as lf:
        p = subprocess.Popen(["bash", "-c", inner, "bash"] + argv, cwd=cwd, stdout=lf,
                             stderr=subprocess.STDOUT, env=env, start_new_session=True)
        CHILDREN.add(p)
        try:
            rc = p.wait(timeout=outer_timeout_s + 60)
        except subprocess.TimeoutExpired:
            kill_group(p)
            rc = 124
        finally:
            # make sure no CBMC of this invocation survives (kani-driver may leave one on timeout)
            kill_group(p)
            CHILDREN.discard(p)
    return rc, time.time() - t0


def kill_group(p):
    """SIGKILL whatever is left in the process group (= session) started for p."""
    try:
        os.killpg(p.pid, signal.SIGKILL)
    except (ProcessLookupError, PermissionError):
        pass


def read(path):
    try:
        with open(path, "r", errors="replace") as f:
            return f.read()
    except OSError:
        return ""


def prepare_unit(scratch, repo, groups, tag):
    """Copy the repo and inject the harness modules of `groups`.
    Returns (srcdir, missing) where missing maps group -> reason for groups that cannot be injected."""
    src = os.path.join(scratch, "src-" + tag)
    os.makedirs(src)
    subprocess.run(["rsync", "-a", "--exclude", "target", "--exclude", ".git",
                    repo.rstrip("/") + "/", src + "/"], check=True)
    missing = {}
    for g in groups:
        gi = GROUPS[g]
        hfile = os.path.join(HARNESS_DIR, gi["file"])
        target = os.path.join(src, "src", gi["module"] + ".rs")
        if not os.path.isfile(target) and os.path.isfile(os.path.join(src, "src", gi["module"], "mod.rs")):
            target = os.path.join(src, "src", gi["module"], "mod.rs")
        if not os.path.isfile(hfile):
            missing[g] = "harness file %s is missing" % hfile
            continue
        if not os.path.isfile(target):
            missing[g] = "module file src/%s.rs (or src/%s/mod.rs) does not exist in %s (cannot inject %s)" % (
                gi["module"], gi["module"], repo, gi["file"])
            continue
        with open(target, "a") as f:
            f.write("\n#[cfg(kani)] #[path = \"%s\"] mod %s;\n" % (hfile, gi["modname"]))
    return src, missing


def base_record(h):
    d = HARNESSES[h]
    return {
        "name": h, "property": d["property"], "verdict": None, "time_s": None, "unwind": d["unwind"],
        "stubs": list(d["stubs"]), "assumptions": list(d["assumptions"]), "covers": {},
        "failed_checks": [], "cex": {}, "expected": d["expected"],
        "inputs": [{"name": e[0], "type": e[1]} for e in d["layout"]],
    }


def run_unit(scratch, repo, groups, tag, timeout_s, target_dir, logs_dir):
    """Pass 1 for the harnesses of `groups`. Returns (records: {h: rec}, build_failed: bool, srcdir)."""
    records = {}
    src, missing = prepare_unit(scratch, repo, groups, tag)
    for g, why in missing.items():
        for h in harnesses_of(g):
            r = base_record(h)
            r.update(verdict="BUILD_ERROR", error=why)
            records[h] = r
    live = [g for g in groups if g not in missing]
    hs = [h for g in live for h in harnesses_of(g)]
    if not hs:
        return records, False, src

    outdir = os.path.join(target_dir, "result_output_dir")
    shutil.rmtree(outdir, ignore_errors=True)  # never read a stale result
    jobs = max(1, min(MAX_JOBS, len(hs)))
    argv = ["cargo", "kani", "-Z", "stubbing", "-Z", "unstable-options", "--exact"]
    for h in hs:
        argv += ["--harness", full_name(h)]
    argv += ["-j", str(jobs), "--output-format", "terse", "--output-into-files",
             "--harness-timeout", "%ds" % timeout_s, "--target-dir", target_dir]
    outer = BUILD_ALLOWANCE_S + math.ceil(len(hs) / jobs) * (timeout_s + 30)
    unit_log = os.path.join(logs_dir, "pass1-%s.log" % tag)
    rc, wall = run_cmd(argv, src, unit_log, outer)
    unit_text = read(unit_log)

    started = set(re.findall(r"Checking harness (\S+?)\.\.\.", unit_text))
    built = "Checking harness" in unit_text or os.path.isdir(outdir)
    if not built:
        # compiler crash (ICE, abort on allocation failure under ulimit -v, killed) vs. ordinary compile errors
        ice = (any(k in unit_text for k in ICE_MARKERS) or any(k in unit_text for k in OOM_MARKERS)
               or re.search(r"\(signal: \d+", unit_text) is not None)
        msg = compiler_message_tail(unit_text)
        for h in hs:
            r = base_record(h)
            if rc == 124:
                r.update(verdict="TIMEOUT", error="cargo kani build exceeded %d s\n%s" % (outer, tail(unit_text, 10)))
            else:
                r.update(verdict="ERROR" if ice else "BUILD_ERROR",
                         error=("Kani compiler crashed (ICE / signal / out of memory):\n" if ice else "crate + harness did not compile:\n") + msg)
            r["log"] = unit_log
            records[h] = r
        return records, (rc != 124), src

    for h in hs:
        r = base_record(h)
        fn = full_name(h)
        hlog = os.path.join(logs_dir, h + ".log")
        res_file = os.path.join(outdir, fn)
        if os.path.isfile(res_file):
            shutil.copyfile(res_file, hlog)
            text = read(hlog)
            parsed = parse_harness_log(text, timeout_s)
            applied = parsed.pop("stubs_applied", [])
            r.update(parsed)
            if applied:
                r["stubs_applied"] = applied
            r["log"] = hlog
        else:
            if rc == 124:
                r.update(verdict="TIMEOUT", error="outer timeout (%d s) hit before this harness produced a result" % outer)
            elif fn not in started:
                r.update(verdict="ERROR",
                         error="harness %s was not run by cargo kani (not found?):\n%s" % (fn, tail(unit_text, 10)))
            else:
                r.update(verdict="ERROR", error="no result file for %s:\n%s" % (fn, tail(unit_text, 10)))
            r["log"] = unit_log
        records[h] = r
    return records, False, src


def playback_one(h, src, target_dir, logs_dir, timeout_s):
    """Pass 2: concrete playback for one FAILED harness. Returns dict to merge into the record."""
    layout = HARNESSES[h]["layout"]
    argv = ["cargo", "kani", "-Z", "stubbing", "-Z", "unstable-options", "-Z", "concrete-playback",
            "--concrete-playback=print", "--exact", "--harness", full_name(h), "--target-dir", target_dir]
    log = os.path.join(logs_dir, h + ".playback.log")
    t0 = time.time()
    # private copy of the warm target dir: a changed --harness filter recompiles the crate (~5 s)
    # under cargo's build lock, which would serialise the parallel playback runs
    own_target = target_dir + "-pb-" + h
    cp = subprocess.run(["cp", "-a", target_dir, own_target], capture_output=True)
    if cp.returncode == 0:
        argv[-1] = own_target
    rc, _ = run_cmd(argv, src, log, timeout_s + 120)
    shutil.rmtree(own_target, ignore_errors=True)
    wall = time.time() - t0
    text = read(log)
    out = {"playback_time_s": round(wall, 1), "playback_log": log}
    # One playback test is printed per SATISFIED cover and per FAILED check; Kani then drops a test
    # that is identical (harness + hash of the values) to the one printed just before it. Every
    # harness draws a marker byte (cex_marker) right before its assertions, so the test of a
    # failed *harness assertion* is never identical to a cover's test and is always printed; a
    # failed check inside library code may still lose its test that way (reported as such).
    blocks = [b for b in parse_playback(text) if b["class"] != "cover"]
    failed_descs = [clean_desc(m.group("desc")) for m in CHECK_BLOCK.finditer(THREAD_PREFIX.sub("", text))
                    if m.group("status") == "FAILURE" and ".cover." not in m.group("id")
                    and "unwinding assertion" not in m.group("desc")]
    per_check, used = [], set()
    for desc in failed_descs:
        hit = next((i for i, b in enumerate(blocks) if i not in used and b["desc"] == desc), None)
        if hit is None:
            per_check.append({"check": desc, "values": None,
                              "note": "no playback test printed by Kani for this check (a test identical to the "
                                      "one printed before it is dropped)"})
            continue
        used.add(hit)
        dv = decode_cex(layout + [MARKER], blocks[hit]["vals"])
        if h.startswith("k3_"):
            dv.update(describe_k3(dv))
        per_check.append({"check": desc, "values": dv})
    for i, b in enumerate(blocks):  # tests for checks that the result list did not show as FAILURE
        if i not in used:
            per_check.append({"check": b["desc"], "values": decode_cex(layout + [MARKER], b["vals"])})
    per_check_with_values = [pc for pc in per_check if pc["values"] is not None]
    if not per_check_with_values:
        out["cex_error"] = "no concrete playback test for a failed check in the output (rc=%d): %s" % (rc, tail(text, 5))
        return out
    # main cex: prefer the harness' own assertion (description starts with the kernel prefix k<N>)
    main = None
    for pc in per_check_with_values:
        if re.match(r"^k\d", pc["check"]):
            main = pc
            break
    main = main or per_check_with_values[0]
    out["cex"] = main["values"]
    out["cex_check"] = main["check"]
    if len(per_check) > 1:
        out["cex_by_check"] = per_check
    return out


def kani_version():
    try:
        o = subprocess.run(["cargo", "kani", "--version"], capture_output=True, text=True, timeout=60)
        if o.returncode != 0:
            return None
        return " / ".join(l.strip() for l in o.stdout.strip().splitlines() if l.strip())
    except Exception:
        return None


def main():
    ap = argparse.ArgumentParser(description="E2 Kani kernels runner")
    ap.add_argument("--group", required=True, choices=GROUP_ORDER + ["all"])
    ap.add_argument("--tier", default="quick", choices=["quick", "thorough"])
    ap.add_argument("--repo", default="/repo")
    ap.add_argument("--out", default=None)
    ap.add_argument("--keep", action="store_true", help="keep the scratch dir (sources, build output, logs)")
    ap.add_argument("--no-playback", action="store_true", help="skip pass 2 (no counterexample values)")
    args = ap.parse_args()

    t_start = time.time()
    timeout_s = int(os.environ.get("VERIF_KANI_TIMEOUT_S", TIER_TIMEOUT_S[args.tier]))
    repo = os.path.abspath(args.repo)
    if not os.path.isfile(os.path.join(repo, "Cargo.toml")):
        print("run_kani: %s is not a cargo package" % repo, file=sys.stderr)
        return 2
    for tool in ("rsync", "cargo", "timeout", "bash"):
        if shutil.which(tool) is None:
            print("run_kani: required tool `%s` not found" % tool, file=sys.stderr)
            return 2
    kv = kani_version()
    if kv is None:
        print("run_kani: `cargo kani --version` failed", file=sys.stderr)
        return 2

    scratch_root = os.environ.get("VERIF_SCRATCH") or "/var/tmp"
    scratch = os.path.join(scratch_root, "vk-%d" % os.getpid())
    shutil.rmtree(scratch, ignore_errors=True)
    groups = GROUP_ORDER if args.group == "all" else [args.group]
    records = {}
    try:
        os.makedirs(scratch)
        logs_dir = os.path.join(scratch, "logs")
        os.makedirs(logs_dir)
        target_dir = os.path.join(scratch, "tk")  # shared by all invocations of this run
        src_of = {}

        recs, build_failed, src = run_unit(scratch, repo, groups, "all" if len(groups) > 1 else groups[0],
                                           timeout_s, target_dir, logs_dir)
        if build_failed and len(groups) > 1:
            # isolate: one group at a time (dependencies are already built in the shared target dir)
            for g in groups:
                r2, _, s2 = run_unit(scratch, repo, [g], g, timeout_s, target_dir, logs_dir)
                records.update(r2)
                for h in r2:
                    src_of[h] = s2
        else:
            records.update(recs)
            for h in recs:
                src_of[h] = src

        # pass 2: counterexample values
        failed = [h for h, r in records.items() if r["verdict"] == "FAILED" and HARNESSES[h]["layout"]]
        if failed and not args.no_playback:
            with concurrent.futures.ThreadPoolExecutor(max_workers=max(1, min(MAX_JOBS, len(failed)))) as ex:
                futs = {ex.submit(playback_one, h, src_of[h], target_dir, logs_dir, timeout_s): h for h in failed}
                for f in concurrent.futures.as_completed(futs):
                    h = futs[f]
                    try:
                        records[h].update(f.result())
                    except Exception as e:  # keep the FAILED verdict, just no values
                        records[h]["cex_error"] = "playback crashed: %r" % (e,)

        order = [h for g in groups for h in harnesses_of(g)]
        result = {
            "group": args.group, "tier": args.tier, "repo": repo,
            "wall_s": None, "kani_version": kv,
            "per_harness_timeout_s": timeout_s, "vmem_limit_kb": VMEM_KB, "jobs": MAX_JOBS,
            "harnesses": [records[h] for h in order if h in records],
            "dropped": [d for d in DROPPED if args.group == "all" or d["property"] == args.group],
            "summary": {},
        }
        for r in result["harnesses"]:
            result["summary"][r["verdict"]] = result["summary"].get(r["verdict"], 0) + 1
            if not args.keep:
                for k in ("log", "playback_log"):
                    r.pop(k, None)
        if args.keep:
            result["scratch"] = scratch
        result["wall_s"] = round(time.time() - t_start, 1)
        text = json.dumps(result, indent=1)
        if args.out:
            with open(args.out, "w") as f:
                f.write(text + "\n")
        print(text)
        return 0
    except (subprocess.CalledProcessError, OSError) as e:
        print("run_kani: could not run: %r" % (e,), file=sys.stderr)
        return 2
    finally:
        for p in list(CHILDREN):
            kill_group(p)
        if not args.keep:
            shutil.rmtree(scratch, ignore_errors=True)


if __name__ == "__main__":
    sys.exit(main())
